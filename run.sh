#!/bin/bash
# Usage: ./run.sh <property-id|all> [quick|thorough] [--replay <file>] [extra gclverify flags]
# Builds the checker from /verif/checker when needed and analyses /repo's current working tree.
set -u
HERE="$(cd "$(dirname "${BASH_SOURCE[0]}")" && pwd)"
export GOFLAGS=-mod=mod GOPROXY=off GOSUMDB=off GOTOOLCHAIN=local
unset GOWORK
export GOWORK=off
REPO="${VERIF_REPO:-/repo}"
BIN="$HERE/bin/gclverify"
build() {
  mkdir -p "$HERE/bin"
  (cd "$HERE/checker" && go build -o "$BIN" .) || { echo "ERROR cannot build checker"; exit 2; }
}
if [ "${1:-}" = "--build" ]; then build; exit 0; fi
# rebuild when any checker source is newer than the binary
if [ ! -x "$BIN" ] || [ -n "$(find "$HERE/checker" -name '*.go' -newer "$BIN" -print -quit 2>/dev/null)" ] || [ "$HERE/checker/go.mod" -nt "$BIN" ]; then
  build
fi
PROP="${1:?property id}"; shift
TIER="${VERIF_TIER:-quick}"
if [ "${1:-}" = "quick" ] || [ "${1:-}" = "thorough" ]; then TIER="$1"; shift; fi
exec "$BIN" -repo "$REPO" -verif "$HERE" -property "$PROP" -tier "$TIER" "$@"
