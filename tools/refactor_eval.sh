#!/bin/bash
# Usage: refactor_eval.sh <R-id> <n>   — applies a behaviour-preserving refactoring produced by a sub-agent to a scratch worktree,
# checks that the pinned suite still passes, and runs ALL checks on it: any VIOLATION / ERROR is a false alarm to investigate.
set -u
export GOFLAGS=-mod=mod GOPROXY=off GOSUMDB=off GOTOOLCHAIN=local
R="$1"; N="$2"; SRC="/verif/refactorings/$R-$N"
S=$(mktemp -d /tmp/refeval.XXXXXX)
trap 'git -C /repo worktree remove --force "$S/w" >/dev/null 2>&1; rm -rf "$S"' EXIT
git -C /repo worktree add -q --detach "$S/w" HEAD || exit 3
cd "$S/w"
git apply "$SRC/patch.diff" || { echo "RESULT $R/$N PATCH-DOES-NOT-APPLY"; exit 0; }
go test -vet=off -count=1 -timeout 300s ./... > "$S/test.log" 2>&1; T=$?
OUT=$(VERIF_REPO="$S/w" /verif/run.sh all quick -no-evidence 2>&1 | grep -E "VIOLATION|^  (violated|undecided)|ERROR|^    " | head -40)
if [ -z "$OUT" ]; then echo "RESULT $R/$N suite_exit=$T alarms=0  ($(head -c 120 "$SRC/note.txt" | tr '\n' ' '))"; else echo "RESULT $R/$N suite_exit=$T ALARMS:"; echo "$OUT"; fi
