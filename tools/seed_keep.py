#!/usr/bin/env python3
"""seed_keep.py PROP N SLUG 'caught-by keys (space separated) or MISSED' ['note']
Copies a validated sub-agent change from /tmp/wt/PROP/out/N into /verif/seeded/PROP-SLUG/ and registers it for the
thorough-tier sensitivity replay (mutants/seeded.mut)."""
import json, os, shutil, sys, glob
prop, n, slug, caught = sys.argv[1:5]
note = sys.argv[5] if len(sys.argv) > 5 else ""
src = os.environ.get("SEED_SRC") or f"/tmp/wt/{prop}.out/{n}"
dst = f"/verif/seeded/{prop}-{slug}"
os.makedirs(dst, exist_ok=True)
shutil.copy(f"{src}/patch.diff", f"{dst}/patch.diff")
demo = sorted(glob.glob(f"{src}/*_test.go"))[0]
shutil.copy(demo, f"{dst}/demo_test.go")
meta = json.load(open(f"{src}/meta.json"))
meta["property"] = prop
meta["what_i_ran"] = ("tools/seed_eval.sh %s %s: fresh worktree of /repo HEAD; demo passes on the clean tree; with patch.diff applied the "
                      "existing suite (go test -vet=off -count=1 ./...) passes and the demo fails; then ./run.sh %s quick on the patched tree" % (prop, n, prop))
meta["caught_by"] = [] if caught == "MISSED" else caught.split()
meta["detected"] = caught != "MISSED"
if note:
    meta["note"] = note
json.dump(meta, open(f"{dst}/meta.json", "w"), indent=1)
if caught != "MISSED":
    with open("/verif/mutants/seeded.mut", "a") as f:
        f.write(f"== mutant seeded-{prop}-{slug}\nproperty: {prop}\nexpect: {' '.join(k for k in caught.split())}\nnote: independent sub-agent change; see seeded/{prop}-{slug}/meta.json\npatch: seeded/{prop}-{slug}/patch.diff\n\n")
print("kept", dst)
