#!/bin/bash
# Usage: refactor_all.sh <outfile> <R-id>...   — evaluates refactorings 1..6 of every R-id given (4 at a time)
OUT="$1"; shift
: > "$OUT"
for r in "$@"; do for n in 1 2 3 4 5 6; do echo "$r $n"; done; done | xargs -P 4 -L 1 bash -c '/verif/tools/refactor_eval.sh $0 $1 2>&1 | grep -E "^(RESULT|  )" | cut -c1-400 | head -14 > /tmp/refeval.$0.$1.txt'
for r in "$@"; do for n in 1 2 3 4 5 6; do cat /tmp/refeval.$r.$n.txt >> "$OUT"; rm -f /tmp/refeval.$r.$n.txt; done; done
