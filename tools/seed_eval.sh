#!/bin/bash
# Usage: seed_eval.sh <PROP> <n> [src-out-dir]   — validates a seeded change produced by a sub-agent and runs the check on it.
# 1. clean scratch worktree + demo  -> must PASS      2. patched + existing suite -> must PASS
# 3. patched + demo -> must FAIL                       4. ./run.sh <PROP> quick on the patched tree -> want exit 1
set -u
export GOFLAGS=-mod=mod GOPROXY=off GOSUMDB=off GOTOOLCHAIN=local
P="$1"; N="$2"; SRC="${3:-/tmp/wt/$P.out/$N}"
S=$(mktemp -d /tmp/seedeval.XXXXXX)
trap 'git -C /repo worktree remove --force "$S/w" >/dev/null 2>&1; rm -rf "$S"' EXIT
BASE="${SEED_BASE:-HEAD}"
git -C /repo worktree add -q --detach "$S/w" "$BASE" || exit 3
cd "$S/w"
DEMO=$(ls "$SRC"/*_test.go 2>/dev/null | head -1)
DIR=$(python3 -c "import json;print(json.load(open('$SRC/meta.json')).get('demo_dir','').strip('/'))" 2>/dev/null)
[ -z "$DIR" ] && DIR=$(head -1 "$DEMO" | sed -n 's#.*place in: *\([^ ]*\).*#\1#p' | sed 's#/$##')
echo "demo=$DEMO dir=$DIR"
cp "$DEMO" "$DIR/zz_seed_demo_test.go"
PKG="./$DIR/"
echo "--- clean + demo (want PASS)"; go test -vet=off -count=1 -timeout 180s -run "$(grep -o 'func Test[A-Za-z0-9_]*' "$DEMO" | sed 's/func //' | paste -sd'|')" "$PKG" 2>&1 | tail -3; C1=${PIPESTATUS[0]}
rm -f "$DIR/zz_seed_demo_test.go"
git apply "$SRC/patch.diff" || { echo "PATCH DOES NOT APPLY"; exit 4; }
echo "--- patched + suite (want PASS)"; go test -vet=off -count=1 -timeout 300s ./... 2>&1 | grep -v "no test files" | tail -8; C2=${PIPESTATUS[0]}
cp "$DEMO" "$DIR/zz_seed_demo_test.go"
echo "--- patched + demo (want FAIL)"; go test -vet=off -count=1 -timeout 180s -run "$(grep -o 'func Test[A-Za-z0-9_]*' "$DEMO" | sed 's/func //' | paste -sd'|')" "$PKG" 2>&1 | tail -4; C3=${PIPESTATUS[0]}
rm -f "$DIR/zz_seed_demo_test.go"
echo "--- check on patched tree (current /repo HEAD + patch)"
if [ "$BASE" != "HEAD" ]; then
  git -C /repo worktree remove --force "$S/w" >/dev/null 2>&1
  git -C /repo worktree add -q --detach "$S/w" HEAD || exit 3
  cd "$S/w"
  if ! git apply "$SRC/patch.diff" 2>/dev/null; then
    if ! patch -p1 -s -f --no-backup-if-mismatch -i "$SRC/patch.diff" >/dev/null 2>&1; then echo "PATCH NEEDS PORT to current HEAD"; echo "RESULT prop=$P n=$N clean_demo_exit=$C1 suite_exit=$C2 patched_demo_exit=$C3 check_exit=NEEDS_PORT"; exit 0; fi
  fi
fi
VERIF_REPO="$S/w" /verif/run.sh "$P" quick -no-evidence 2>&1 | grep -E "^C[0-9]+ tier|VIOLATION|violated|undecided|ERROR" | head -12; C4=${PIPESTATUS[0]}
echo "RESULT prop=$P n=$N clean_demo_exit=$C1 suite_exit=$C2 patched_demo_exit=$C3 check_exit=$C4"
