#!/usr/bin/env python3
"""Generates /verif/MANIFEST.json from the table below (kept here so the manifest stays valid and consistent)."""
import json, os, sys
HERE = os.path.dirname(os.path.dirname(os.path.abspath(__file__)))

TRUST = ("Trusted: go/types + go/ssa (x/tools v0.29.0) and the checker's own engines (each rule is exercised both ways by "
         "/verif/mutants and /verif/seeded). Decides the structural clauses named in level_claimed.text, not the run-time behaviour; "
         "clauses listed as 'not covered' in DESIGN.md section 5 are outside this check. Obligations added after the seeded and "
         "benign rounds (who-may-write / every-path clauses, rules imported from sibling properties and decided on the same tree) "
         "are listed in DESIGN.md section 8 and, with their counts, in the rule list of each evidence file.")

# id -> (technique, claim text, design ref)   — only properties whose check exists
CLAIMED = {
 "C05": ("all-paths must-pass-through + provenance + must-lockset over go/ssa",
         "Static: on every CFG path, constructor and every post-OnSample path pass strategy.SetLimit(limit.EstimatedLimit()) on the same limiter's pair under its exclusive mutex; every Strategy.SetLimit stores exactly max(1,arg) and forwards it to all share updates; no other writer of the enforced limit. Necessary structural conditions of 'enforcement follows the estimate', decided for all paths/inputs; the estimate's values are not decided.",
         "5/C05"),
 "C16": ("all-paths store=>notify typestate + provenance over go/ssa",
         "Static: every post-construction store of a limit's estimate is followed on every path to return by the notification routine carrying that value through EstimatedLimit's own conversion; the routine reaches every registered listener; NotifyOnChange registers (or forwards) on every path under the mutex; wrappers report and forward unchanged. Decided for all paths of all limit implementations; notification order under concurrent SetLimit is not decided.",
         "5/C16"),
 "C14": ("all-paths gate/typestate analysis + field provenance + sibling agreement over go/ssa",
         "Static: for the four gRPC wrappers, on every path: wrapped call only after a successful Acquire on a config limiter; same limiter field for Acquire and the limit-exceeded classifier, disjoint between RecvMsg/SendMsg and matching the option named for the direction; refusal returns status.Error(classifier code) with no wrapped call and no completion; exactly one completion on the token after the call with the Success/Ignore/Dropped mapping exhaustive over the declared constants; results returned unchanged; defaults before options. Handler panics and out-of-enum classifier results are not covered.",
         "5/C14"),
 "C11": ("field provenance (config -> backlog), path-sensitive end/constant agreement, must-lockset over go/ssa",
         "Static: the backlog's ordering is stored from the config's ordering read after ApplyDefaults; given the end at which push inserts, the FIFO case reads the opposite list end and the LIFO case the same end, exhaustively over the two constants; eviction removes exactly the selected element under the queue mutex; named constructors, the default and the pool orderings map to the like-named constants; unblock's peek/acquire/evict/deliver are one exclusive critical section. Necessary conditions of 'served in configured order'; arrival-order = push-order and scheduler effects are not decided.",
         "5/C11"),
 "C09": ("argument provenance + all-paths close/reset typestate + branch-fact dominance + symbolic bound proof + call-graph reachability over go/ssa",
         "Static: delegate OnSample arguments are W.Candidate/AverageRTT, W.MaxInFlight, W.DidDrop of the one window being replaced; every closing path resets to the empty window and advances nextUpdateTime by a value proved within [minWindowTime,maxWindowTime], other paths do neither; closing is dominated by endTime > nextUpdateTime (read under the lock) and a strict readiness comparison; AddSample/AddDroppedSample are pure folds (min/max selections, +rtt, +1, sticky drop); threshold filter precedes every recording and nothing reachable from OnIgnore touches a window. Concurrent completions between snapshot and re-lock are not decided.",
         "5/C09"),
 "C13": ("select-case classification + dominator/edge analysis + all-paths outcome check + symbolic bound proof (> 0) over go/ssa",
         "Static: every blocking select in the limiter package has wake-up, ctx.Done and (when the configured bound is positive) timer cases, no bare blocking channel operation exists, only the wake-up case yields success; ctx.Err()/deadline tests dominate every delegate.Acquire, their failing edges refuse untouched, a post-wait Acquire requires the signalled result; a computed remaining-time bound is proved > 0 before it reaches the wait primitive. Existence and ordering of the give-up mechanisms only: exact instants on a virtual clock are not decided.",
         "5/C13"),
 "C02": ("all-paths effect counting + acquire/consume typestate (incl. loop-back paths) + closure/provenance resolution + must-lockset over go/ssa",
         "Static: every outcome of the capacity-owning listener gives back gauge -1 and one token.Release on every path; wrappers forward the same outcome once; every listener/token obtained from a delegate or strategy is consumed exactly once on every path where it may hold capacity (returned, wrapped, delivered or completed) including refused hand-off, timeout, cancel and loop-back paths; results obey 'listener iff ok'; the hand-off channel protocol cannot strand a token; partition grant/release closures charge and return the same bin and the total once each under the mutex; the gauge is incremented only on the grant path; StaticStrategyToken.Release runs its function once. Caller misuse is outside the statement.",
         "5/C02"),
 "C17": ("interprocedural must-lockset analysis with inferred guarded-by relations, atomic-access recognition and owner-encapsulation check over go/ssa",
         "Static lockset discipline sufficient for data-race freedom: every field (or referent of a pointer/map/slice/list field) of the shared public objects that is written after construction is accessed only through sync/atomic, or under one common mutex of its object on every path and from every call site (exclusive for writes), or through a verified encapsulating owner holding its mutex; package variables are written only during initialisation. Holds for all goroutine schedules because must-locksets are schedule-independent. Assumes objects are not copied, user callbacks are safe, third-party objects are used under our lock or documented safe.",
         "5/C17"),
 "C20": ("all-paths emission counting + argument provenance + bound-method/closure resolution + kind-tag dispatch agreement + life-cycle typestate with lockset (blocked-wait rule) over go/ssa",
         "Static: Sample emits rtt/in-flight once each with the parameters and the drop counter iff didDrop; every sampler-owning OnSample calls Sample exactly once with its own parameters; strategy emissions carry the decision's counter (post-increment on grants); gauge suppliers are bound to the constructed object and limit gauges read the enforced-limit field; both registries dispatch a listener's kind tag to the backend call of the same kind under prefix+ID and reuse existing listeners; Start spawns once and sets started, Stop signals, clears and awaits outside any mutex the poller takes, the loop returns on the stop signal and gauges are polled only inside it. Units and poll-time numeric equality are not covered.",
         "5/C20"),
 "C18": ("mod/ref (written-field) sets through owned sub-measurements vs Reset's re-initialised set, constructor-value agreement, all-paths flag-polarity check over go/ssa",
         "Static, structural clauses only: Reset re-initialises every field Add/Update can write (followed through owned sub-measurements) to the constructor's initial value; no ImmutableSampleWindow method stores through its receiver and the folds return new values; Add's flag is true or an old != new comparison whenever the reported field can change (never old == new); SingleMeasurement.Add stores exactly its argument. The numeric clauses of the property (means, hull bounds, variance sign, percentile accuracy) are not applicable to this technique.",
         "5/C18"),
 "C15": ("who-may-write analysis of the baseline measurement + branch-fact minimum discipline + all-paths probe bookkeeping over go/ssa",
         "Static, structural clauses: the no-load baseline of Vegas and Gradient is written only by Add(float64(this sample's rtt)), Reset() or replacement with a fresh measurement; MinimumMeasurement.Add stores exactly the sample and only when unset or lower; every OnSample path leaves the baseline reset, fed this rtt, or established <= rtt; the probe counter advances exactly once per sample when probing is enabled and the probe branch re-arms it from a fresh random draw and resets the baseline on the same path. The numeric recurrence bounds of the resets are not applicable.",
         "5/C15"),
 "C19": ("all-paths construction/provenance analysis of the pool constructors over go/ssa",
         "Static, composition only: on every returning path of NewFixedPool the same limit parameter sizes the fixed limit and a precise strategy, the default limiter built from that pair is wrapped by a blocking/queue limiter for every ordering case (none left unset), backlog size and the normalised (non-negative) timeout reach the wrapper; NewPool wraps the caller's delegate on every case; pool Acquire passes the wrapped limiter's results through unchanged. The safety half follows through C01/C02 on the composed stack; the liveness half (every queued caller eventually granted within the timeout) is not applicable to static analysis.",
         "5/C19"),
 "C03": ("path-sensitive admission-predicate check (branch facts + operand provenance), exact share-formula match, share-coverage (who-gets-UpdateLimit / who-may-write) and must-lockset over go/ssa",
         "Static: a request whose partition was found is refused on exactly the paths that established total.busy >= total.limit and bin.busy >= bin.limit, and granted otherwise; the first registered match decides; UpdateLimit stores exactly max(1, ceil(float(total) x immutable fraction)); every selectable partition (container elements and the unknown bucket) is given its share in the constructor, in SetLimit and when added dynamically, with no other writer of a bin limit; the whole decision and add/remove are exclusive critical sections of the strategy mutex. Exact bins are C02/O5. Floating error of the product and user predicates are not covered.",
         "5/C03"),
 "C01": ("must-lockset at the strategy call sites + all-paths counter typestate with closure/bound-method resolution + branch-fact comparator check + bound proof (>= 1) over go/ssa; linearisation argument on paper",
         "Static premises of the atomic gate: TryAcquire and post-construction SetLimit on a limiter's strategy run under the limiter's exclusive mutex; in the simple and precise strategies every grant increments the in-flight counter by 1 once, refusals write nothing, the token's release function (resolved through bound methods / closure factories) decrements that same counter by 1 once, no other writer; grant iff counter < limit and refuse iff counter >= limit on the strategy's own fields; every stored limit is proved >= 1; results agree with ok. The step from these premises to the gate property is the paper argument in DESIGN.md 5/C01.",
         "5/C01"),
 "C10": ("must-lockset at predicate / wait / signal sites (cond-var discipline incl. lock hand-over), all-paths completion->wake-up and retry checks, critical-section and channel-capacity analysis of the queue hand-off over go/ssa",
         "Static protocol discipline sufficient to exclude lost wake-ups: the failed delegate.Acquire and the registration on the condition are one critical section of the condition's lock (handed to the waiting goroutine, whose first action is Wait), every Broadcast is issued under that lock after the delegate's completion (Signal rejected), every completion of a wrapping listener reaches the wake-up, a signalled waiter re-tries; in the queue limiter attempt + bound check + enqueue are one exclusive critical section with unblock, delivery to a queued waiter cannot be refused (capacity >= 1), eviction only with a token in hand, give-up paths drain under the mutex. Decided for all interleavings because locksets are schedule-independent; fairness and limit-increase wake-ups are not covered.",
         "5/C10"),
 "C12": ("dominating branch-fact bound check + must-lockset + eviction typestate through the select cases and helper summaries + gauge provenance over go/ssa",
         "Static: the enqueue is reachable only with backlog length < configured (defaulted) maximum, checked and enqueued in one exclusive critical section, the full edge refuses at once without blocking; after the enqueue every give-up path evicts the caller's own element exactly once and the hand-off path relies on the sender, which evicts exactly once before delivering; the reported size is the list's own length under the queue mutex; queue_size/queue_limit gauges are wired to that accessor and to the configured bound. Numeric equality at every instant of a concurrent history is their consequence, not separately decided.",
         "5/C12"),
 "C04": ("path-sensitive symbolic bound prover (real arithmetic: Max/Min/Ceil algebra, convex smoothing idiom, branch facts, constructor-derived field invariants, call-site entry facts) over go/ssa",
         "Static, real arithmetic (IEEE rounding and overflow not modelled): every post-construction store of the estimate of AIMD, Vegas, Gradient and Gradient2 is proved on every path >= 1, >= the configured minimum and <= max(configured maximum, old estimate) under the configuration assumptions the property grants and the inductive hypothesis; every division / Sqrt / Log10 that can run during a sample has its divisor proved != 0 (argument in domain), so no NaN or panic source is unguarded; every lookup-table index is proved within [0, len); wrappers report the delegate's estimate. NaN propagation, rounding and user-supplied functions are not covered.",
         "5/C04"),
 "C06": ("path-sensitive symbolic bound proof on drop paths + function-field role recovery from default closures + all-paths drop routing over go/ssa",
         "Static direction clauses in real arithmetic: on every path that took the drop flag's true edge, the estimate stored by AIMD, Vegas and Gradient is proved <= max(old estimate, the algorithm's lower clamp), AIMD additionally strictly below the old limit unless at the floor; in Vegas the drop candidate is the decrease function (built-in default x - g(x) with g >= 0 from the table initialiser) applied to the current estimate; every drop path stores a decrease before any demand gate (probe / baseline returns excepted). The exact AIMD value and the bounded-steps convergence to the floor are not decided.",
         "5/C06"),
 "C07": ("path-sensitive classification of estimate stores (proved non-raising vs gated) with comparator / operand-provenance check of the demand gate over go/ssa",
         "Static: every store of the estimate on a non-drop path that is not proved <= the old estimate lies behind the established fact ratio x inFlight >= estimate (ratio 2 for Vegas/Gradient/Gradient2, 1 for AIMD) on the sample's in-flight parameter and the current estimate; every path that computes a new estimate stores it. One recorded known finding (Gradient's probe reset is not gated). The recovery half (bounded-steps return to the ceiling) is not applicable.",
         "5/C07"),
 "C08": ("monotonic-polarity analysis of SSA expressions along paths (with sign side-conditions from the bound prover) + classification of every rtt-dependent branch against a closed list of monotone idioms over go/ssa",
         "Static necessary sign conditions for Vegas and Gradient: Vegas's queue estimate is non-decreasing in rtt and every raise / lower outcome is decided by an upper / lower bound on it; every estimate stored by Gradient is a non-increasing function of rtt on its path; rtt reaches control flow only through the baseline test (excluded by the property), a guard whose low-rtt side is proved >= its high-rtt side, the self-guarded smoothing idiom whose pieces meet at the old estimate, threshold comparisons of the control signal and effect-free logging diamonds. Gradient2, threshold ordering and rounding are not covered.",
         "5/C08"),
}

PENDING_REASON = "check not built yet in this session; see DESIGN.md section 5 for the planned static obligations"
NOT_APPLICABLE = {}

def main():
    props = [json.loads(l) for l in open(os.path.join(HERE, "properties.jsonl"))]
    checks, na = [], []
    for p in props:
        pid = p["id"]
        if pid in CLAIMED:
            tech, text, ref = CLAIMED[pid]
            checks.append({
                "property_id": pid,
                "quick_cmd": f"./run.sh {pid} quick",
                "thorough_cmd": f"./run.sh {pid} thorough",
                "evidence_file": f"evidence/{pid}.json",
                "replay_cmd_template": f"./run.sh {pid} quick --replay {{path}}",
                "engine": "gclverify",
                "level_claimed": {"category": "other", "text": text, "design_ref": "DESIGN.md " + ref},
                "level_note": TRUST,
                "technique": tech,
            })
        else:
            na.append({"property_id": pid, "reason": NOT_APPLICABLE.get(pid, PENDING_REASON)})
    m = {
        "version": 1,
        "setup_cmd": "./run.sh --build",
        "hooks": {
            "guard": "verif",
            "enable": "none needed: the checks analyse /repo's source as it is (no instrumentation, no hook commits)",
            "baseline_off_cmd": "cd /repo && go test -vet=off -count=1 -timeout 25m ./...",
            "source_commits": [],
            "add_only": True,
        },
        "engines": [{
            "name": "gclverify", "path": "checker/",
            "serves_properties": sorted(CLAIMED),
            "kind_free_text": "repository-specific static analyser over go/packages + go/ssa (x/tools v0.29.0): all-paths effect/typestate engine, must-lockset analysis, guard/bound facts, provenance; obligation ledger with known findings",
        }],
        "checks": checks,
        "notes": "Every check re-loads and re-type-checks /repo's working tree on each run (no cache). Exit 0 held / 1 VIOLATION / 2 infrastructure or vacuity failure. thorough = quick + second load under GOARCH=386 + sensitivity replay of /verif/mutants in scratch copies under $TMPDIR.",
        "not_applicable": na,
    }
    json.dump(m, open(os.path.join(HERE, "MANIFEST.json"), "w"), indent=1)
    print("claimed", len(checks), "not_applicable", len(na))

if __name__ == "__main__":
    main()
