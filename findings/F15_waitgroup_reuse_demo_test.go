// place in: metric_registry/gometrics/   (run with: go test -race -run TestConcurrentStartStop ./metric_registry/gometrics/)
// On the tree before the fix: "WARNING: DATA RACE" between (*MetricRegistry).Start (wg.Add) and (*MetricRegistry).Stop (wg.Wait),
// followed by "panic: sync: WaitGroup is reused before previous Wait has returned". On the repaired tree: ok.
package gometrics

import (
	"sync"
	"testing"
	"time"

	gometrics "github.com/rcrowley/go-metrics"
)

func TestConcurrentStartStop(t *testing.T) {
	r, err := NewGoMetricsMetricRegistry(gometrics.NewRegistry(), "", "p", time.Millisecond)
	if err != nil {
		t.Fatal(err)
	}
	var wg sync.WaitGroup
	for g := 0; g < 4; g++ {
		wg.Add(1)
		go func() {
			defer wg.Done()
			for i := 0; i < 2000; i++ {
				r.Start()
				r.Stop()
			}
		}()
	}
	wg.Wait()
}
