package limiter

import (
	"context"
	"sync"
	"testing"
	"time"

	"github.com/platinummonkey/go-concurrency-limits/core"
)

// racyDelegate has one slot. Its failing Acquire lets the holder complete right after the failure was
// decided, i.e. in the window between "acquire failed" and "asleep".
type racyDelegate struct {
	mu       sync.Mutex
	busy     bool
	onFailed func()
}

type racyListener struct{ d *racyDelegate }

func (l racyListener) OnSuccess() { l.d.mu.Lock(); l.d.busy = false; l.d.mu.Unlock() }
func (l racyListener) OnIgnore()  { l.OnSuccess() }
func (l racyListener) OnDropped() { l.OnSuccess() }

func (d *racyDelegate) Acquire(ctx context.Context) (core.Listener, bool) {
	d.mu.Lock()
	if !d.busy {
		d.busy = true
		d.mu.Unlock()
		return racyListener{d}, true
	}
	f := d.onFailed
	d.onFailed = nil
	d.mu.Unlock()
	if f != nil {
		f()
	}
	return nil, false
}

func TestF12NoLostWakeup(t *testing.T) {
	d := &racyDelegate{}
	bl := NewBlockingLimiter(d, 0, nil)
	holder, ok := bl.Acquire(context.Background())
	if !ok {
		t.Fatal("first acquire failed")
	}
	released := make(chan struct{})
	d.mu.Lock()
	d.onFailed = func() {
		// the holder completes while the waiter is between its failed attempt and going to sleep
		go func() { holder.OnSuccess(); close(released) }()
		select {
		case <-released:
		case <-time.After(200 * time.Millisecond): // the release may have to wait for the waiter to register
		}
	}
	d.mu.Unlock()
	got := make(chan bool, 1)
	go func() { _, ok := bl.Acquire(context.Background()); got <- ok }()
	select {
	case ok := <-got:
		if !ok {
			t.Fatal("refused")
		}
	case <-time.After(3 * time.Second):
		t.Fatal("capacity is free but the blocked caller was never woken (lost wake-up)")
	}
}
