// place in: limit/
// Known finding F14 (C07/O1): GradientLimit's probe reset stores max(minLimit, queue allowance) before the demand gate,
// so an idle, drop-free sample can RAISE the estimate when it is below the queue allowance.
package limit

import "testing"

func TestF14GradientProbeRaisesEstimateOnIdleSample(t *testing.T) {
	// initial limit 2, minLimit 1, default sqrt queue allowance (>= 4), probe every sample
	l := NewGradientLimitWithRegistry("g", 2, 1, 200, 0.2, nil, 2.0, 1, nil, nil)
	before := l.EstimatedLimit()
	l.OnSample(0, 1e6, 0, false) // in-flight 0: app-limited, no drop
	if after := l.EstimatedLimit(); after > before {
		t.Fatalf("an idle non-drop sample raised the estimate from %d to %d", before, after)
	}
}
