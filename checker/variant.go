package main

// Equivalent-program variants. A rule reads the shape of one function at a time; a refactoring that moves a few
// statements into an unexported helper (or a constructor call behind a helper) changes that shape but not the
// behaviour. When the rules do not discharge everything on the program as written, the same rules are run on a variant
// of the program in which the module's unexported, non-address-taken helpers are inlined at their static call sites
// (xt/ssa/inline.go). Inlining preserves every memory access, lock operation, call to a non-inlined function and their
// order, so a property decided on the variant is decided for the program.

import (
	"go/token"
	"strings"
	"os"
	"bytes"
	"fmt"
	"go/types"
	"sort"

	"gclverify/xt/ssa"
)

const (
	inlineMaxInstrs = 120
	inlineRounds    = 6
)

// helperEligible: a named (not anonymous) module function. (One that is also used as a value is inlined at
// its static call sites but never dropped from the function list.)
func (p *Prog) helperEligible(g *ssa.Function) bool {
	if g == nil || !p.InModule(g) || g.Blocks == nil {
		return false
	}
	if par := g.Parent(); par != nil {
		// a function literal that initialises a package-level variable (var startTimer = func(...) {...}) captures
		// nothing and is, once calls through the variable are resolved, a helper like any other
		return par.Name() == "init" && par.Synthetic != "" && len(g.FreeVars) == 0
	}
	if g.Synthetic != "" && !strings.HasPrefix(g.Synthetic, "instance of") {
		return false // wrappers and thunks; a monomorphised instance of a generic helper has an ordinary body
	}
	// (exported functions too: every function of the validated tree, exported or not, is listed in helpers_baseline.txt
	// and therefore left alone; what gets inlined is what a later change introduced - a new accessor such as Remaining()
	// that the function a rule reads now goes through)
	if g.Name() == "init" || g.Name() == "main" {
		return false
	}
	// an exported method whose name the validated tree already uses for some method (Acquire, Release, UpdateLimit,
	// OnSample, ...) carries a role the rules look for by that name: it stays a call
	if token.IsExported(g.Name()) && p.baselineNames != nil && p.baselineNames[g.Name()] {
		return false
	}
	if g.TypeParams().Len() > 0 && len(g.TypeArgs()) == 0 {
		return false // the generic body itself
	}
	return true
}

// InlineHelpers rewrites the SSA of the module in place and returns what it did. The Prog must not be used for the
// as-written analysis afterwards.
func (p *Prog) InlineHelpers(noInline map[string]bool) (inlined []string, removed []string, err error) {
	ifaceMethods := map[string]bool{}
	for _, tp := range p.TPkgs {
		sc := tp.Scope()
		for _, n := range sc.Names() {
			if tn, ok := sc.Lookup(n).(*types.TypeName); ok {
				if it, ok := tn.Type().Underlying().(*types.Interface); ok {
					for i := 0; i < it.NumMethods(); i++ {
						ifaceMethods[it.Method(i).Name()] = true
					}
				}
			}
		}
	}
	p.baselineNames = map[string]bool{}
	for k := range noInline {
		if i := strings.LastIndex(k, "."); i >= 0 {
			p.baselineNames[k[i+1:]] = true
		}
	}
	everInlined := map[*ssa.Function]bool{}
	devirt := false
	// calls through package-level function variables that hold one function for ever are calls of that function
	for _, f := range p.Funcs {
		if n := ssa.DevirtualizeGlobals(f); n > 0 {
			var buf bytes.Buffer
			if e := ssa.FinishInlining(f, &buf); e != nil {
				return inlined, removed, fmt.Errorf("global function variables: %v: %s", e, buf.String())
			}
			inlined = append(inlined, fmt.Sprintf("%s: %d call(s) through constant package-level function variables resolved", p.Key(f), n))
		}
	}
	for round := 0; round < inlineRounds; round++ {
		changedAny := false
		for _, f := range p.Funcs {
			changed := false
			for again := true; again; {
				again = false
			scan:
				for _, b := range f.Blocks {
					for _, ins := range b.Instrs {
						c, ok := ins.(*ssa.Call)
						if !ok {
							continue
						}
						g := c.Call.StaticCallee()
						if g == nil || g == f {
							continue
						}
						if mc, isClosure := c.Call.Value.(*ssa.MakeClosure); isClosure {
							// a closure created in f and called in f (typically after the helper it was handed to was inlined)
							if mc.Parent() != f || g.Parent() == nil || !p.InModule(g) || g.Blocks == nil || noInline[p.Key(g)] {
								continue
							}
						} else if !p.helperEligible(g) || noInline[p.Key(g)] {
							continue
						}
						if p.PkgOf(g) != p.PkgOf(f) {
							continue
						}
						if !ssa.Inlinable(g, ssa.IsTailCall(c), inlineMaxInstrs) {
							continue
						}
						if calls(g, f) {
							continue // mutual recursion
						}
						site := fmt.Sprintf("%s <- %s at %s", p.Key(f), p.Key(g), p.Pos(c.Pos()))
						if ssa.InlineCall(c) {
							inlined = append(inlined, site)
							everInlined[g] = true
							changed, again = true, true
							break scan
						}
					}
				}
			}
			if changed {
				changedAny = true

				var buf bytes.Buffer
				if e := ssa.FinishInlining(f, &buf); e != nil {
					return inlined, removed, fmt.Errorf("%v: %s", e, buf.String())
				}
				dv, dt := ssa.Devirtualize(f), ssa.DevirtualizeTables(f)
				if os.Getenv("GCLVERIFY_DEBUG") != "" {
					fmt.Printf("DEBUG devirt %s: %d %d\n", p.Key(f), dv, dt)
				}
				if dv+dt > 0 {
					devirt = true
					if e := ssa.FinishInlining(f, &buf); e != nil {
						return inlined, removed, fmt.Errorf("devirtualisation: %v: %s", e, buf.String())
					}
				}
				if ssa.SimplifyBooleans(f) > 0 {
					if e := ssa.FinishInlining(f, &buf); e != nil {
						return inlined, removed, fmt.Errorf("boolean simplification: %v: %s", e, buf.String())
					}
				}
				if ssa.FoldConstantBranches(f) > 0 {
					if e := ssa.FinishInlining(f, &buf); e != nil {
						return inlined, removed, fmt.Errorf("constant branches: %v: %s", e, buf.String())
					}
				}
				if ssa.ThreadJumps(f) > 0 {
					if e := ssa.FinishInlining(f, &buf); e != nil {
						return inlined, removed, fmt.Errorf("jump threading: %v: %s", e, buf.String())
					}
				}
			}
		}
		if !changedAny && !devirt {
			break
		}
		devirt = false
	}
	// helpers without remaining static call sites are dead code now: take them out of the function list
	remaining := map[*ssa.Function]int{}
	for _, f := range p.Funcs {
		for _, b := range f.Blocks {
			for _, ins := range b.Instrs {
				if c, ok := ins.(ssa.CallInstruction); ok {
					if g := c.Common().StaticCallee(); g != nil && g != f {
						remaining[g]++
					}
				}
			}
		}
	}
	var keep []*ssa.Function
	for _, f := range p.Funcs {
		if f.Parent() == nil && everInlined[f] && remaining[f] == 0 && !ifaceMethods[f.Name()] && !p.addrTaken[f] {
			removed = append(removed, p.Key(f))
			if p.removed == nil {
				p.removed = map[*ssa.Function]bool{}
			}
			p.removed[f] = true
			continue
		}
		keep = append(keep, f)
	}
	// closures whose every creation site has been inlined away no longer exist in the variant
	made := map[*ssa.Function]bool{}
	for _, f := range keep {
		for _, b := range f.Blocks {
			for _, ins := range b.Instrs {
				if mc, ok := ins.(*ssa.MakeClosure); ok {
					made[mc.Fn.(*ssa.Function)] = true
				}
			}
		}
	}
	var keep2 []*ssa.Function
	for _, f := range keep {
		if f.Parent() != nil && !made[f] {
			// (a closure is only ever referenced through a MakeClosure instruction)
			{
				if p.removed == nil {
					p.removed = map[*ssa.Function]bool{}
				}
				p.removed[f] = true
				continue
			}
		}
		keep2 = append(keep2, f)
	}
	keep = keep2
	p.Funcs = keep
	p.computeAddrTaken()
	p.ByKey = map[string]*ssa.Function{}
	for _, f := range p.Funcs {
		p.ByKey[p.Key(f)] = f
	}
	p.lockInfo = nil
	p.Variant = "helpers-inlined"
	sort.Strings(inlined)
	sort.Strings(removed)
	return inlined, removed, nil
}

func calls(g, f *ssa.Function) bool {
	for _, b := range g.Blocks {
		for _, ins := range b.Instrs {
			if c, ok := ins.(ssa.CallInstruction); ok {
				if c.Common().StaticCallee() == f {
					return true
				}
			}
		}
	}
	return false
}

// claimsOf: the helpers the first fallback variant leaves alone — those a rule claimed explicitly by role, and those
// that already existed on the tree the rules were developed against (helpers_baseline.txt). What remains are helpers
// introduced by later changes: inlining them gives back the shape the code had before they were extracted.
func claimsOf(p *Prog, l *Ledger, verif string) map[string]bool {
	out := loadHelperBaseline(verif)
	for k := range l.claimed {
		out[k] = true
	}
	return out
}
