package main

import (
	"go/token"
	"fmt"
	"go/types"
	"sort"
	"strings"

	"gclverify/xt/ssa"
)

func init() {
	register("C17", &ruleSet{
		run:    runC17,
		floors: map[string]int{"O1": 30, "O5": 1, "O6": 1, "O7": 1, "O8": 2},
		explain: "Lockset discipline, sufficient for data-race freedom under the stated assumptions: for every struct type of the shared public objects (limits, " +
			"strategies, partitions, limiters, listeners, measurements, registries and the objects they own) and every field - or what a pointer/map/slice/list field " +
			"refers to - that is written anywhere outside a constructor, every access in the module either goes through sync/atomic, or holds one common mutex of the " +
			"object (exclusively for writes, at least shared for reads), or is made through an owner object that provably encapsulates the instance and holds the owner's " +
			"mutex around every use, or holds - at every access, exclusively at every write - one and the same mutex field of one other type (an element of a container protected by the container's mutex; that an instance is reached under one such mutex only is assumed and said so in the evidence). append(field, ...) counts as a write to what the field refers to; writes made by a functional option (a literal only returned as a named function type and only ever applied to an object its caller has just built) are construction-time. Guarded-by relations are inferred on each run from must-locksets (intersection over paths and over call sites of unexported helpers); " +
			"no field table is frozen. Package-level variables are written only during package initialisation. Copied structs, user callbacks and third-party types used " +
			"outside our locks are assumptions, listed in the evidence.",
	})
}

// types that are values handed around by the caller, not shared concurrent objects
var c17Excluded = map[string]string{
	"limiter.QueueLimiterConfig": "plain configuration value, passed to constructors by value and defaulted on the constructor's private copy",
}

var c17Pkgs = []string{"limit", "limit/functions", "strategy", "strategy/matchers", "limiter", "measurements", "metric_registry/gometrics", "metric_registry/datadog", "core"}

type c17Access struct {
	a      FieldAccess
	fn     *ssa.Function
	held   LockSet
	baseAP AP
	guard  string // "atomic", "own:<mu>:excl", "own:<mu>:shared", "owner:<T>.<mu>:excl|shared:<field>", "none"
}

func runC17(p *Prog, l *Ledger) {
	l.Rule("O1", "every field (or referent of a pointer/map/slice/list field) written after construction is accessed only atomically, or under one common mutex of its object (exclusive for writes), or through a verified owner holding the owner's mutex")
	l.Rule("O3", "ownership: an owner-guarded instance is reachable only through an unexported field that never escapes, and every method call through that field holds the owner's mutex (exclusively when the callee writes)")
	l.Rule("O5", "package-level variables are written only during package initialisation")
	l.Rule("O8", "a sync.WaitGroup held in a shared object is not reused while a Wait is still in progress: every Add and every Wait on it hold one common mutex exclusively (an Add that starts the next round concurrently with a Wait of the previous one is a reported race and can panic the runtime: 'WaitGroup is reused before previous Wait has returned')")
	l.Rule("O6", "instances do not share mutable state through package-level variables: no field of a concurrent object is initialised (directly, or through a constructor argument at a call site in the module) from a package-level variable that refers to mutable memory - each instance's lock only protects its own")
	l.Rule("O7", "a type that holds a sync mutex by value is used through pointers: all its methods have pointer receivers (a value receiver copies the lock and reads every field without it)")
	l.NotCovered = []string{"structs copied after first use", "user callbacks (predicates, lookup functions, measurement Update operations, metric suppliers) are assumed safe themselves", "third-party types (container/list, go-metrics, statsd client) are used under our lock or are documented concurrency-safe", "the logical race between snapshot and re-lock in DefaultListener (not a data race)", "deadlocks"}
	l.Assume("objects are not copied after first use; user-supplied callbacks are themselves race-free")
	locks := p.Locksets()

	inScope := func(nt *types.Named) bool {
		if nt == nil || nt.Obj().Pkg() == nil {
			return false
		}
		rel := p.relPkg(nt.Obj().Pkg().Path())
		ok := false
		for _, k := range c17Pkgs {
			if rel == k {
				ok = true
			}
		}
		if !ok {
			return false
		}
		if _, ex := c17Excluded[p.TypeKey(nt)]; ex {
			return false
		}
		_, isS := nt.Underlying().(*types.Struct)
		return isS
	}
	for k, why := range c17Excluded {
		l.Note("excluded type %s: %s", k, why)
	}

	// dead unexported functions (no call site, value never taken) are not reachable by any goroutine
	dead := map[*ssa.Function]bool{}
	for _, f := range p.Funcs {
		if isExportedFunc(f) || f.Parent() != nil || p.addrTaken[f] || strings.HasPrefix(f.Synthetic, "package initializer") || f.Name() == "init" || strings.HasPrefix(f.Name(), "init#") {
			continue
		}
		if len(locks.sites[f]) == 0 && f.Signature.Recv() != nil && !token_IsExported(f.Name()) {
			// unexported method never called and never taken as a value (interface satisfaction needs an exported or matching name)
			if !p.satisfiesSomeInterface(f) {
				dead[f] = true
				l.Note("unreachable unexported method ignored: %s", p.Key(f))
			}
		}
	}

	// likewise unexported plain functions that nothing calls, defers, spawns or takes as a value (a seam only tests use),
	// and the function literals inside dead functions
	called := map[*ssa.Function]bool{}
	for _, f := range p.Funcs {
		allInstrs(f, func(ins ssa.Instruction) {
			if ci, ok := ins.(ssa.CallInstruction); ok {
				if g := ci.Common().StaticCallee(); g != nil {
					called[p.unwrap(g)] = true
				}
			}
		})
	}
	for _, f := range p.Funcs {
		if f.Parent() != nil || f.Signature.Recv() != nil || isExportedFunc(f) || p.addrTaken[f] || called[f] || f.Synthetic != "" || f.Name() == "init" || f.Name() == "main" || strings.HasPrefix(f.Name(), "init#") {
			continue
		}
		dead[f] = true
		l.Note("unreachable unexported function ignored: %s", p.Key(f))
	}
	for _, f := range p.Funcs {
		for par := f.Parent(); par != nil; par = par.Parent() {
			if dead[par] {
				dead[f] = true
			}
		}
	}

	byLoc := map[string][]*c17Access{}
	locField := map[string]FieldRef{}
	nacc := 0
	for _, f := range p.Funcs {
		if dead[f] || strings.HasPrefix(p.PkgOf(f), "examples") {
			continue
		}
		for _, a := range p.Accesses(f) {
			if !inScope(a.Field.Type) {
				continue
			}
			if freshBase(a) {
				continue
			}
			if c17ConstructionOption(p, f, a) {
				continue
			}
			nacc++
			ca := &c17Access{a: a, fn: f, held: locks.Held(a.Instr), baseAP: AccessPath(a.Base)}
			ca.guard = c17Guard(ca)
			k := p.FieldKey(a.Field)
			if a.Pointee {
				k += "[referent]"
			}
			byLoc[k] = append(byLoc[k], ca)
			locField[k] = a.Field
		}
	}
	l.Count("field_accesses", nacc)
	var keys []string
	for k := range byLoc {
		keys = append(keys, k)
	}
	sort.Strings(keys)
	nMutable, nImm := 0, 0
	ownerRel := map[string][]*c17Access{} // "Owner.field" -> owner-guarded accesses relying on it
	for _, k := range keys {
		accs := byLoc[k]
		written := false
		for _, a := range accs {
			if a.a.Write {
				written = true
			}
		}
		if !written {
			nImm++
			continue
		}
		nMutable++
		// decide
		var bad []string
		allAtomic := true
		for _, a := range accs {
			if !a.a.Atomic {
				allAtomic = false
			}
		}
		guards := map[string]int{}
		// one mutex field of one type held at every access (exclusively at every write), although the object is not
		// reached through that owner: an element of a container protected by the container's mutex
		foreign := ""
		if !allAtomic {
			var common map[string]bool
			for i, a := range accs {
				ids := c17TypedLocks(a)
				mine := map[string]bool{}
				for id, ex := range ids {
					if ex || !a.a.Write {
						mine[id] = true
					}
				}
				if i == 0 {
					common = mine
				} else {
					for id := range common {
						if !mine[id] {
							delete(common, id)
						}
					}
				}
			}
			var ids []string
			for id := range common {
				ids = append(ids, id)
			}
			sort.Strings(ids)
			if len(ids) > 0 {
				foreign = ids[0]
			}
		}
		if !allAtomic {
			muName := ""
			for _, a := range accs {
				g := a.guard
				if g == "none" && foreign != "" {
					guards["foreign"]++
					continue
				}
				guards[strings.SplitN(g, ":", 3)[0]]++
				at := fmt.Sprintf("%s in %s", p.At(a.a.Instr), p.Key(a.fn))
				kind := "read"
				if a.a.Write {
					kind = "write"
				}
				if a.a.Via != "" {
					kind += " (" + a.a.Via + ")"
				}
				switch {
				case a.a.Atomic:
					bad = append(bad, fmt.Sprintf("%s: atomic %s mixed with non-atomic accesses of the same location", at, kind))
				case strings.HasPrefix(g, "own:"):
					parts := strings.Split(g, ":")
					if muName == "" {
						muName = parts[1]
					} else if muName != parts[1] {
						bad = append(bad, fmt.Sprintf("%s: %s under mutex %s but other accesses use %s", at, kind, parts[1], muName))
					}
					if a.a.Write && parts[2] != "excl" {
						bad = append(bad, fmt.Sprintf("%s: %s while holding the mutex only shared (RLock)", at, kind))
					}
				case strings.HasPrefix(g, "outer:"):
					parts := strings.Split(g, ":")
					if a.a.Write && parts[2] != "excl" {
						bad = append(bad, fmt.Sprintf("%s: %s while the enclosing object's mutex is held only shared", at, kind))
					}
				case strings.HasPrefix(g, "owner:"):
					parts := strings.Split(g, ":")
					if a.a.Write && parts[2] != "excl" {
						bad = append(bad, fmt.Sprintf("%s: %s through the owner while holding the owner's mutex only shared", at, kind))
					}
					ownerRel[parts[3]] = append(ownerRel[parts[3]], a)
				default:
					bad = append(bad, fmt.Sprintf("%s: unguarded %s of %s (locks held: %s)", at, kind, a.baseAP.String()+"."+a.a.Field.Name, a.held))
				}
			}
		}
		sort.Strings(bad)
		if len(bad) > 6 {
			bad = append(bad[:6], fmt.Sprintf("... and %d more", len(bad)-6))
		}
		how := "all accesses atomic"
		if !allAtomic {
			how = fmt.Sprintf("%d accesses, all under the object's mutex (writes exclusive)", len(accs))
			if guards["owner"] > 0 {
				how += fmt.Sprintf(", %d through a verified owner", guards["owner"])
			}
			if guards["foreign"] > 0 {
				how = fmt.Sprintf("%d accesses, every one holding %s (writes exclusively); that an instance is reached under one such mutex only is taken from the container discipline, not proved", len(accs), foreign)
			}
		}
		l.Check(len(bad) == 0, "O1", k, p.At(accs[0].a.Instr), how, "a mutable location can be accessed without a common lock: data race", bad...)
	}
	l.Count("mutable_locations", nMutable)
	l.Count("immutable_locations", nImm)

	// ---- O6 / O7
	c17SharedGlobals(p, l, inScope)
	c17PointerReceivers(p, l, inScope)
	// ---- O8
	c17WaitGroups(p, l, locks, dead)

	// ---- O3 ownership relations actually relied upon
	var rels []string
	for r := range ownerRel {
		rels = append(rels, r)
	}
	sort.Strings(rels)
	for _, r := range rels {
		a := ownerRel[r][0]
		ofr := a.baseAP.Fields[len(a.baseAP.Fields)-1] // the owner's field through which the instance is reached
		why := c17VerifyOwner(p, locks, ofr)
		l.Check(why == "", "O3", r, p.At(a.a.Instr), "instance reachable only through the owner's unexported, non-escaping field; every call through it holds the owner's mutex", "owner-guarded access relies on an ownership that does not hold: "+why)
	}

	// ---- O5 globals
	nglob := 0
	var gbad []string
	for _, f := range p.Funcs {
		if strings.HasPrefix(p.PkgOf(f), "examples") {
			continue
		}
		allInstrs(f, func(ins ssa.Instruction) {
			st, ok := ins.(*ssa.Store)
			if !ok {
				return
			}
			g, ok := st.Addr.(*ssa.Global)
			if !ok {
				// element store into a global slice/map
				if ia, ok := st.Addr.(*ssa.IndexAddr); ok {
					if u, ok := ia.X.(*ssa.UnOp); ok {
						g, _ = u.X.(*ssa.Global)
					}
				}
				if g == nil {
					return
				}
			}
			if g.Pkg == nil || !p.InModule(f) {
				return
			}
			nglob++
			if !c17InitOnly(p, locks, f, 0) {
				gbad = append(gbad, fmt.Sprintf("%s: package variable %s written in %s, which can run after initialisation", p.At(ins), g.Name(), p.Key(f)))
			}
		})
	}
	l.Count("global_stores", nglob)
	l.Check(len(gbad) == 0, "O5", "package-variables", "", fmt.Sprintf("%d stores to package-level variables, all during package initialisation", nglob), "a package-level variable is written after initialisation without synchronisation", gbad...)
}

func (p *Prog) satisfiesSomeInterface(f *ssa.Function) bool {
	// unexported methods can only satisfy interfaces of their own package; the module declares none with unexported methods
	for _, tp := range p.TPkgs {
		for _, n := range tp.Scope().Names() {
			tn, ok := tp.Scope().Lookup(n).(*types.TypeName)
			if !ok {
				continue
			}
			it, ok := tn.Type().Underlying().(*types.Interface)
			if !ok {
				continue
			}
			for i := 0; i < it.NumMethods(); i++ {
				if it.Method(i).Name() == f.Name() {
					return true
				}
			}
		}
	}
	return false
}

func c17InitOnly(p *Prog, locks *LockInfo, f *ssa.Function, depth int) bool {
	if strings.HasPrefix(f.Synthetic, "package initializer") || f.Name() == "init" || strings.HasPrefix(f.Name(), "init#") {
		return true
	}
	if depth > 4 || isExportedFunc(f) || p.addrTaken[f] {
		return false
	}
	sites := locks.sites[f]
	if len(sites) == 0 {
		return false
	}
	for _, c := range sites {
		if !c17InitOnly(p, locks, c.Instr.Parent(), depth+1) {
			return false
		}
	}
	return true
}

// c17Guard classifies how an access is protected.
func c17Guard(a *c17Access) string {
	if a.a.Atomic {
		return "atomic"
	}
	bap := a.baseAP.String()
	for _, m := range mutexFields(a.a.Field.Type) {
		if ex, ok := a.held[bap+"."+m]; ok {
			if ex {
				return "own:" + m + ":excl"
			}
			return "own:" + m + ":shared"
		}
	}
	// part of a locked object: the access is made in a helper that was handed a by-value part of an object whose mutex the
	// caller holds at every call site (lockset translation names it <part>.^.<mutex>)
	for k, ex := range a.held {
		if strings.HasPrefix(k, bap+".^") {
			if ex {
				return "outer:" + k[len(bap)+1:] + ":excl"
			}
			return "outer:" + k[len(bap)+1:] + ":shared"
		}
	}
	// owner: the object is reached as <owner>.<field>, and the owner's mutex is held
	if n := len(a.baseAP.Fields); n >= 1 {
		ownerT := a.baseAP.Fields[n-1].Type
		par := a.baseAP.Parent().String()
		for _, m := range mutexFields(ownerT) {
			if ex, ok := a.held[par+"."+m]; ok {
				mode := "shared"
				if ex {
					mode = "excl"
				}
				return fmt.Sprintf("owner:%s.%s:%s:%s.%s", ownerT.Obj().Name(), m, mode, ownerT.Obj().Name(), a.baseAP.Fields[n-1].Name)
			}
		}
	}
	return "none"
}

// c17VerifyOwner checks that instances stored in owner field ofr are encapsulated: unexported field, stored only
// in the owner's constructor from a constructor call, loaded values used only as method receivers / field bases,
// and every method call through the field holds the owner's mutex (exclusive when the callee writes its state).
func c17VerifyOwner(p *Prog, locks *LockInfo, ofr FieldRef) string {
	if token_IsExported(ofr.Name) {
		return "the field " + ofr.Name + " is exported"
	}
	if st := structOf(ofr.Type); st != nil && ofr.Index < st.NumFields() {
		if _, byValue := st.Field(ofr.Index).Type().Underlying().(*types.Struct); byValue {
			// a part held by value lives inside its owner: it cannot be shared with another owner, and every access
			// through the owner was checked against the owner's mutex where it is made
			return ""
		}
	}
	owner := ofr.Type
	writesState := map[*ssa.Function]bool{}
	var writes func(f *ssa.Function, depth int) bool
	writes = func(f *ssa.Function, depth int) bool {
		if v, ok := writesState[f]; ok {
			return v
		}
		writesState[f] = false
		res := false
		for _, a := range p.Accesses(f) {
			if a.Write && !freshBase(a) {
				res = true
			}
		}
		if !res && depth < 4 {
			for _, g := range p.callees(f) {
				if g.Signature.Recv() != nil && writes(g, depth+1) {
					res = true
				}
			}
		}
		writesState[f] = res
		return res
	}
	for _, f := range p.Funcs {
		var why string
		allInstrs(f, func(ins ssa.Instruction) {
			if why != "" {
				return
			}
			// stores into the field
			if st, ok := ins.(*ssa.Store); ok {
				if fa, ok := st.Addr.(*ssa.FieldAddr); ok {
					if fr, _, _ := fieldOf(fa); sameField(fr, ofr) {
						if _, isAlloc := AccessPath(fa.X).Root.(*ssa.Alloc); !isAlloc {
							why = fmt.Sprintf("%s: the field is re-assigned outside the owner's constructor", p.At(ins))
							return
						}
						v := strip(st.Val, false)
						if ex, ok := v.(*ssa.Extract); ok {
							v = ex.Tuple
						}
						if _, isCall := v.(*ssa.Call); !isCall {
							if _, isNew := v.(*ssa.Alloc); !isNew {
								why = fmt.Sprintf("%s: the owned instance is not freshly constructed (it may be shared)", p.At(ins))
							}
						}
					}
				}
				return
			}
			// loads of the field: every use must be a method receiver or a field base
			u, ok := ins.(*ssa.UnOp)
			if !ok {
				return
			}
			fr, base, ok := fieldPointerLoad(u)
			if !ok || !sameField(fr, ofr) {
				return
			}
			if refs := u.Referrers(); refs != nil {
				for _, r := range *refs {
					switch x := r.(type) {
					case *ssa.FieldAddr:
						// direct field access: judged by O1 itself
					case *ssa.Call:
						c := p.CallOf(x)
						if c.Recv != ssa.Value(u) || c.Static == nil {
							why = fmt.Sprintf("%s: the owned instance escapes as an argument", p.At(x))
							return
						}
						held := locks.Held(x)
						par := AccessPath(base).String()
						okLock := false
						for _, m := range mutexFields(owner) {
							if ex, ok := held[par+"."+m]; ok && (ex || !writes(c.Static, 0)) {
								okLock = true
							}
						}
						if !okLock {
							why = fmt.Sprintf("%s: %s is called through the owned field without the owner's mutex (held %s)", p.At(x), p.Key(c.Static), held)
							return
						}
					case *ssa.DebugRef:
					default:
						why = fmt.Sprintf("%s: the owned instance escapes (%T)", p.At(r), r)
						return
					}
				}
			}
		})
		if why != "" {
			return why
		}
	}
	return ""
}

// c17MutableGlobal: the package-level variable refers to memory that can be written through it: a slice, map or channel,
// a pointer to a struct that has fields, or an interface initialised with such a pointer.
func c17MutableGlobal(p *Prog, g *ssa.Global) bool {
	if g == nil || g.Pkg == nil || !strings.HasPrefix(g.Pkg.Pkg.Path(), p.Mod) {
		return false
	}
	t := g.Type().(*types.Pointer).Elem()
	hasFields := func(t types.Type) bool {
		if pt, ok := t.Underlying().(*types.Pointer); ok {
			if st, ok := pt.Elem().Underlying().(*types.Struct); ok {
				return st.NumFields() > 0
			}
			return true
		}
		return false
	}
	switch t.Underlying().(type) {
	case *types.Slice, *types.Map, *types.Chan:
		return true
	case *types.Pointer:
		return hasFields(t)
	case *types.Interface:
		// what the package initialiser stores into it
		mutable := false
		for _, m := range g.Pkg.Members {
			f, ok := m.(*ssa.Function)
			if !ok || f.Name() != "init" {
				continue
			}
			allInstrs(f, func(ins ssa.Instruction) {
				if st, ok := ins.(*ssa.Store); ok && st.Addr == ssa.Value(g) {
					if mi, ok := st.Val.(*ssa.MakeInterface); ok && hasFields(mi.X.Type()) {
						mutable = true
					}
				}
			})
		}
		return mutable
	}
	return false
}

func c17SharedGlobals(p *Prog, l *Ledger, inScope func(*types.Named) bool) {
	var bad []string
	n := 0
	isSharedLoad := func(v ssa.Value) *ssa.Global {
		v = strip(v, false)
		if u, ok := v.(*ssa.UnOp); ok && u.Op == token.MUL {
			if g, ok := u.X.(*ssa.Global); ok && c17MutableGlobal(p, g) {
				return g
			}
		}
		return nil
	}
	for _, f := range p.Funcs {
		if p.PkgOf(f) == "" || strings.HasPrefix(p.PkgOf(f), "examples") {
			continue
		}
		for _, a := range p.Accesses(f) {
			if !a.Write || a.Pointee || !inScope(a.Field.Type) || !freshBase(a) {
				continue
			}
			n++
			if g := isSharedLoad(a.Val); g != nil {
				bad = append(bad, fmt.Sprintf("%s: %s initialises %s.%s from the package-level variable %s, which every instance then shares", p.At(a.Instr), p.Key(f), a.Field.Type.Obj().Name(), a.Field.Name, g.Name()))
				continue
			}
			// a constructor parameter (possibly defaulted when nil): what the module's own call sites pass
			var prms []*ssa.Parameter
			seenV := map[ssa.Value]bool{}
			var gather func(v ssa.Value, d int)
			gather = func(v ssa.Value, d int) {
				v = strip(v, false)
				if d > 6 || seenV[v] {
					return
				}
				seenV[v] = true
				switch x := v.(type) {
				case *ssa.Parameter:
					prms = append(prms, x)
				case *ssa.Phi:
					for _, e := range x.Edges {
						gather(e, d+1)
					}
				case *ssa.UnOp:
					if g := isSharedLoad(x); g != nil {
						bad = append(bad, fmt.Sprintf("%s: %s initialises %s.%s from the package-level variable %s, which every instance then shares", p.At(a.Instr), p.Key(f), a.Field.Type.Obj().Name(), a.Field.Name, g.Name()))
					}
				}
			}
			gather(a.Val, 0)
			for _, prm := range prms {
				idx := -1
				for i, q := range f.Params {
					if q == prm {
						idx = i
					}
				}
				if idx < 0 {
					continue
				}
				for _, g2 := range p.Funcs {
					allInstrs(g2, func(ins ssa.Instruction) {
						ci, ok := ins.(ssa.CallInstruction)
						if !ok || ci.Common().StaticCallee() != f || idx >= len(ci.Common().Args) {
							return
						}
						if g := isSharedLoad(ci.Common().Args[idx]); g != nil {
							bad = append(bad, fmt.Sprintf("%s: %s passes the package-level variable %s to %s, which stores it into %s.%s: every object built this way shares it", p.At(ins), p.Key(g2), g.Name(), p.Key(f), a.Field.Type.Obj().Name(), a.Field.Name))
						}
					})
				}
			}
		}
	}
	sort.Strings(bad)
	if len(bad) > 6 {
		bad = bad[:6]
	}
	l.Check(len(bad) == 0 && n > 0, "O6", "module/shared-globals", "", fmt.Sprintf("%d construction-time field initialisations examined", n), "two instances share mutable memory that each protects with its own lock", bad...)
}

func c17PointerReceivers(p *Prog, l *Ledger, inScope func(*types.Named) bool) {
	var bad []string
	n := 0
	for _, f := range p.Funcs {
		recv := f.Signature.Recv()
		if recv == nil || f.Parent() != nil || f.Synthetic != "" {
			continue
		}
		nt, isNamed := recv.Type().(*types.Named)
		if !isNamed {
			continue // pointer receiver
		}
		if !inScope(nt) || len(mutexFields(nt)) == 0 {
			continue
		}
		n++
		bad = append(bad, fmt.Sprintf("%s: %s has a value receiver although %s holds a mutex by value: every call copies the lock and all fields unsynchronised", p.FuncPos(f), p.Key(f), nt.Obj().Name()))
	}
	cnt := 0
	for _, f := range p.Funcs {
		if recv := f.Signature.Recv(); recv != nil && f.Parent() == nil {
			if d := derefNamed(recv.Type()); d != nil && inScope(d) && len(mutexFields(d)) > 0 {
				cnt++
			}
		}
	}
	sort.Strings(bad)
	l.Check(len(bad) == 0 && cnt > 0, "O7", "module/pointer-receivers", "", fmt.Sprintf("%d methods of mutex-holding types, all with pointer receivers", cnt), "a method copies a lock", bad...)
}

// c17ConstructionOption: the access is made by a functional option - a function literal that its enclosing function
// only returns as a named function type T - on its own parameter, and every call of a value of type T in the module
// passes an object its caller has just built (allocated there, or returned by a constructor that allocates it): the
// option runs while nobody else can reach the object.
func c17ConstructionOption(p *Prog, f *ssa.Function, a FieldAccess) bool {
	par := f.Parent()
	if par == nil {
		return false
	}
	prm, ok := AccessPath(a.Base).Root.(*ssa.Parameter)
	if !ok || prm.Parent() != f {
		return false
	}
	idx := -1
	for i, q := range f.Params {
		if q == prm {
			idx = i
		}
	}
	if idx < 0 || len(f.FreeVars) > 0 && false {
		return false
	}
	key := "opt:" + p.Key(f)
	if p.optCache == nil {
		p.optCache = map[string]bool{}
	}
	if v, ok := p.optCache[key]; ok {
		return v
	}
	p.optCache[key] = false
	// the literal is only returned, as a named function type
	var T *types.Named
	bad := false
	allInstrs(par, func(ins ssa.Instruction) {
		mc, ok := ins.(*ssa.MakeClosure)
		if !ok || mc.Fn != ssa.Value(f) {
			return
		}
		var follow func(v ssa.Value, d int)
		follow = func(v ssa.Value, d int) {
			refs := v.Referrers()
			if refs == nil || d > 3 {
				bad = true
				return
			}
			for _, r := range *refs {
				switch x := r.(type) {
				case *ssa.ChangeType:
					if nt, ok := x.Type().(*types.Named); ok {
						if T != nil && T != nt {
							bad = true
						}
						T = nt
						follow(x, d+1)
					} else {
						bad = true
					}
				case *ssa.Return:
					if nt, ok := v.Type().(*types.Named); ok {
						if T != nil && T != nt {
							bad = true
						}
						T = nt
					} else if par.Signature.Results().Len() == 1 {
						if nt, ok := par.Signature.Results().At(0).Type().(*types.Named); ok {
							T = nt
						} else {
							bad = true
						}
					}
				case *ssa.DebugRef:
				default:
					bad = true
				}
			}
		}
		follow(mc, 0)
	})
	if bad || T == nil {
		return false
	}
	if _, isSig := T.Underlying().(*types.Signature); !isSig {
		return false
	}
	// every call through a value of type T passes a just-built object
	ncalls := 0
	okAll := true
	for _, g := range p.Funcs {
		if !okAll {
			break
		}
		allInstrs(g, func(ins ssa.Instruction) {
			call, ok := ins.(ssa.CallInstruction)
			if !ok {
				return
			}
			cc := call.Common()
			if cc.IsInvoke() || cc.StaticCallee() != nil {
				return
			}
			nt, ok := cc.Value.Type().(*types.Named)
			if !ok || nt.Obj() != T.Obj() {
				return
			}
			if _, isGo := ins.(*ssa.Go); isGo {
				okAll = false
				return
			}
			ncalls++
			if idx >= len(cc.Args) {
				okAll = false
				return
			}
			root := AccessPath(cc.Args[idx]).Root
			if ex, ok := root.(*ssa.Extract); ok {
				root = ex.Tuple
			}
			switch x := root.(type) {
			case *ssa.Alloc:
			case *ssa.Call:
				if !p.returnsFresh(x.Call.StaticCallee(), 2) {
					okAll = false
				}
			default:
				okAll = false
			}
		})
	}
	res := okAll && ncalls > 0
	p.optCache[key] = res
	return res
}

// c17TypedLocks names the locks held at an access by the mutex field's identity (package.Type.field) instead of by the
// path they are reached through: identity -> held exclusively.
func c17TypedLocks(a *c17Access) map[string]bool {
	out := map[string]bool{}
	for k, ex := range a.held {
		parts := strings.Split(k, ".")
		if len(parts) < 2 || strings.ContainsAny(k, "^[]*()") {
			continue
		}
		var root ssa.Value
		for _, q := range a.fn.Params {
			if q.Name() == parts[0] {
				root = q
			}
		}
		for _, q := range a.fn.FreeVars {
			if q.Name() == parts[0] {
				root = q
			}
		}
		if root == nil {
			allInstrs(a.fn, func(ins ssa.Instruction) {
				if v, ok := ins.(ssa.Value); ok && v.Name() == parts[0] {
					root = v
				}
			})
		}
		if root == nil {
			continue
		}
		t := root.Type()
		var owner *types.Named
		ok := true
		for i := 1; i < len(parts); i++ {
			nt := derefNamed(t)
			if nt == nil {
				// a captured variable is a pointer to the variable
				if pt, isP := t.Underlying().(*types.Pointer); isP {
					nt = derefNamed(pt.Elem())
				}
			}
			if nt == nil {
				ok = false
				break
			}
			st, isS := nt.Underlying().(*types.Struct)
			if !isS {
				ok = false
				break
			}
			found := false
			for j := 0; j < st.NumFields(); j++ {
				if st.Field(j).Name() == parts[i] {
					owner = nt
					t = st.Field(j).Type()
					found = true
				}
			}
			if !found {
				ok = false
				break
			}
		}
		if !ok || owner == nil || owner.Obj().Pkg() == nil {
			continue
		}
		id := owner.Obj().Pkg().Path() + "." + owner.Obj().Name() + "." + parts[len(parts)-1]
		if ex {
			out[id] = true
		} else if _, seen := out[id]; !seen {
			out[id] = false
		}
	}
	return out
}

// c17WaitGroups: for every struct field of type sync.WaitGroup in the module, the Add and Wait call sites on it share one
// exclusively held mutex (identified by its field: package.Type.field).
func c17WaitGroups(p *Prog, l *Ledger, locks *LockInfo, dead map[*ssa.Function]bool) {
	type site struct {
		fn   *ssa.Function
		ins  ssa.Instruction
		what string
	}
	sites := map[string][]site{}
	for _, f := range p.Funcs {
		if !p.InModule(f) || strings.HasPrefix(p.PkgOf(f), "examples") || dead[f] {
			continue
		}
		allInstrs(f, func(ins ssa.Instruction) {
			c := p.CallOf(ins)
			if c == nil || c.Recv == nil || !c.Is("(*sync.WaitGroup).Add", "(*sync.WaitGroup).Wait") {
				return
			}
			fa, ok := strip(c.Recv, false).(*ssa.FieldAddr)
			if !ok {
				return
			}
			fr, _, ok := fieldOf(fa)
			if !ok || fr.Type == nil || !p.InPkgType(fr.Type) {
				return
			}
			what := "Wait"
			if c.Is("(*sync.WaitGroup).Add") {
				what = "Add"
			}
			k := p.FieldKey(fr)
			sites[k] = append(sites[k], site{f, ins, what})
		})
	}
	var keys []string
	for k := range sites {
		keys = append(keys, k)
	}
	sort.Strings(keys)
	for _, k := range keys {
		ss := sites[k]
		nAdd, nWait := 0, 0
		var common map[string]bool
		for i, s := range ss {
			if s.what == "Add" {
				nAdd++
			} else {
				nWait++
			}
			ids := c17TypedLocks(&c17Access{fn: s.fn, held: locks.Held(s.ins)})
			mine := map[string]bool{}
			for id, ex := range ids {
				if ex {
					mine[id] = true
				}
			}
			if i == 0 {
				common = mine
			} else {
				for id := range common {
					if !mine[id] {
						delete(common, id)
					}
				}
			}
		}
		if nAdd == 0 || nWait == 0 {
			continue
		}
		var bad []string
		if len(common) == 0 {
			for _, s := range ss {
				bad = append(bad, fmt.Sprintf("%s in %s: %s (locks held: %s)", p.At(s.ins), p.Key(s.fn), s.what, locks.Held(s.ins)))
			}
			sort.Strings(bad)
		}
		var ids []string
		for id := range common {
			ids = append(ids, id)
		}
		sort.Strings(ids)
		l.Check(len(bad) == 0, "O8", k, p.At(ss[0].ins), fmt.Sprintf("%d Add and %d Wait site(s), all holding %s exclusively", nAdd, nWait, strings.Join(ids, ", ")),
			"Add and Wait on this WaitGroup can run concurrently: the next round's Add can overlap a Wait of the previous one (a reported race; the runtime panics with 'WaitGroup is reused before previous Wait has returned')", bad...)
	}
}
