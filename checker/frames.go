package main

// Frames: access paths across function boundaries. A value inside a closure, a bound method or a small factory is
// named in the frame of the function that created it: free variables and parameters are replaced by what was bound to
// them, and a field of a struct literal built only to carry values (simpleCounterRef{counter: s.inFlight},
// &queueEviction{q: q, e: e}) is replaced by the value stored into that field.

import (
	"go/token"
	"go/types"
	"strings"

	"gclverify/xt/ssa"
)

type frame struct {
	env    map[ssa.Value]ssa.Value // parameter / free variable of this frame -> value in the parent frame
	parent *frame
}

// closureFrame: the function that runs when the closure value is called, and the frame that binds its free variables
// (plain closure) or its receiver (bound method value) to values of the creating function's frame.
func (p *Prog) closureFrame(mc *ssa.MakeClosure, parent *frame) (*ssa.Function, *frame) {
	fn := mc.Fn.(*ssa.Function)
	if strings.HasPrefix(fn.Synthetic, "bound method wrapper") {
		m := p.unwrap(fn)
		if m == nil || m == fn || len(m.Params) == 0 || len(mc.Bindings) != 1 {
			return nil, nil
		}
		return m, &frame{env: map[ssa.Value]ssa.Value{m.Params[0]: mc.Bindings[0]}, parent: parent}
	}
	fr := &frame{env: map[ssa.Value]ssa.Value{}, parent: parent}
	for i, fv := range fn.FreeVars {
		if i < len(mc.Bindings) {
			fr.env[fv] = mc.Bindings[i]
		}
	}
	return fn, fr
}

// callFrame binds the parameters of a statically called function to the arguments of the call.
func callFrame(callee *ssa.Function, args []ssa.Value, parent *frame) *frame {
	fr := &frame{env: map[ssa.Value]ssa.Value{}, parent: parent}
	for i, prm := range callee.Params {
		if i < len(args) {
			fr.env[prm] = args[i]
		}
	}
	return fr
}

// funcValueFrame resolves a func-typed value to (function, frame): a closure, a bound method, or the closure returned
// by a directly called factory (a function or an immediately called closure whose returns all yield one closure).
func (p *Prog) funcValueFrame(v ssa.Value, parent *frame) (*ssa.Function, *frame) {
	v = strip(v, false)
	switch x := v.(type) {
	case *ssa.MakeClosure:
		fn, fr := p.closureFrame(x, parent)
		// a closure that only forwards to a module function (func() { s.releasePartition(p) }) is that function, bound
		// to the forwarded arguments
		if fn != nil && fr != nil && len(fn.Blocks) == 1 {
			var only *ssa.Call
			thin := true
			for _, ins := range fn.Blocks[0].Instrs {
				switch y := ins.(type) {
				case *ssa.Call:
					if only != nil {
						thin = false
					}
					only = y
				case *ssa.UnOp, *ssa.FieldAddr, *ssa.Return, *ssa.DebugRef, *ssa.ChangeType, *ssa.MakeInterface:
				default:
					thin = false
				}
			}
			if thin && only != nil {
				if g := only.Call.StaticCallee(); g != nil && p.InModule(g) && g.Blocks != nil {
					return p.unwrap(g), callFrame(g, only.Call.Args, fr)
				}
			}
		}
		return fn, fr
	case *ssa.Function:
		return p.unwrap(x), &frame{env: map[ssa.Value]ssa.Value{}, parent: parent}
	case *ssa.Call:
		c := p.CallOf(x)
		if c.Static == nil || c.Static.Blocks == nil {
			return nil, nil
		}
		var ffr *frame
		if mc, ok := strip(x.Call.Value, false).(*ssa.MakeClosure); ok {
			_, cf := p.closureFrame(mc, parent)
			if cf == nil {
				return nil, nil
			}
			ffr = cf
			for i, prm := range c.Static.Params {
				if i < len(x.Call.Args) {
					ffr.env[prm] = x.Call.Args[i]
				}
			}
		} else {
			ffr = callFrame(c.Static, x.Call.Args, parent)
		}
		var ret ssa.Value
		n := 0
		for _, b := range c.Static.Blocks {
			if b == c.Static.Recover {
				continue
			}
			if r, ok := b.Instrs[len(b.Instrs)-1].(*ssa.Return); ok && len(r.Results) == 1 {
				n++
				ret = r.Results[0]
			}
		}
		if n != 1 {
			return nil, nil
		}
		return p.funcValueFrame(ret, ffr)
	}
	return nil, nil
}

// OuterAP names v (a value of the frame fr) in the outermost frame.
func (p *Prog) OuterAP(v ssa.Value, fr *frame) AP { return p.outerAP(v, fr, 0) }

func apAppend(base AP, f FieldRef) AP {
	return AP{Root: base.Root, Sel: append(append([]string{}, base.Sel...), f.Name), Fields: append(append([]FieldRef{}, base.Fields...), f)}
}

func (p *Prog) outerAP(v ssa.Value, fr *frame, depth int) AP {
	if depth > 48 || v == nil {
		return AP{Root: v}
	}
	v = strip(v, true)
	switch x := v.(type) {
	case *ssa.Parameter, *ssa.FreeVar:
		if fr != nil {
			if b, ok := fr.env[v]; ok {
				return p.outerAP(b, fr.parent, depth+1)
			}
		}
		return AP{Root: v}
	case *ssa.Convert:
		if isNumeric(x.Type()) && isNumeric(x.X.Type()) {
			return p.outerAP(x.X, fr, depth+1) // where a value comes from, not what it is worth
		}
	case *ssa.FieldAddr:
		if val, vfr, ok := p.carriedField(x.X, x.Field, fr, depth+1); ok {
			return p.outerAP(val, vfr, depth+1)
		}
		f, _, _ := fieldOf(x)
		return apAppend(p.outerAP(x.X, fr, depth+1), f)
	case *ssa.Field:
		if val, vfr, ok := p.carriedField(x.X, x.Field, fr, depth+1); ok {
			return p.outerAP(val, vfr, depth+1)
		}
		f, _, _ := fieldOf(x)
		return apAppend(p.outerAP(x.X, fr, depth+1), f)
	case *ssa.UnOp:
		if x.Op != token.MUL {
			break
		}
		switch y := x.X.(type) {
		case *ssa.Alloc:
			if s := singleStore(y); s != nil {
				return p.outerAP(s, fr, depth+1)
			}
			return AP{Root: y}
		case *ssa.FreeVar:
			// a captured variable cell
			if fr != nil {
				if b, ok := fr.env[y]; ok {
					if al, ok := strip(b, false).(*ssa.Alloc); ok {
						if s := singleStore(al); s != nil {
							return p.outerAP(s, fr.parent, depth+1)
						}
					}
					return p.outerAP(b, fr.parent, depth+1)
				}
			}
			return AP{Root: y}
		default:
			return p.outerAP(x.X, fr, depth+1)
		}
	case *ssa.Alloc:
		return AP{Root: x}
	}
	return AP{Root: v}
}

// carriedField: sv is a struct (value, or address of a struct cell) created by a literal in one of the frames; returns
// the value stored into its field idx and the frame that value lives in. Only cells whose field has exactly one store,
// made by the function that allocates the cell, are followed (for a cell that escapes, the field must also have no other
// writer in the module).
func (p *Prog) carriedField(sv ssa.Value, idx int, fr *frame, depth int) (ssa.Value, *frame, bool) {
	if depth > 48 || sv == nil {
		return nil, nil, false
	}
	sv = strip(sv, false)
	switch x := sv.(type) {
	case *ssa.Parameter, *ssa.FreeVar:
		if fr != nil {
			if b, ok := fr.env[sv]; ok {
				return p.carriedField(b, idx, fr.parent, depth+1)
			}
		}
		return nil, nil, false
	case *ssa.UnOp:
		if x.Op == token.MUL {
			// the struct value loaded from a cell
			return p.carriedField(x.X, idx, fr, depth+1)
		}
	case *ssa.Alloc:
		st := structOf(x.Type())
		if st == nil || idx >= st.NumFields() {
			return nil, nil, false
		}
		var fieldStores, wholeStores []*ssa.Store
		refs := x.Referrers()
		if refs == nil {
			return nil, nil, false
		}
		for _, r := range *refs {
			switch r := r.(type) {
			case *ssa.FieldAddr:
				if r.Field != idx {
					continue
				}
				if rr := r.Referrers(); rr != nil {
					for _, u := range *rr {
						if s, ok := u.(*ssa.Store); ok && s.Addr == ssa.Value(r) {
							fieldStores = append(fieldStores, s)
						}
					}
				}
			case *ssa.Store:
				if r.Addr == ssa.Value(x) {
					wholeStores = append(wholeStores, r)
				}
			}
		}
		switch {
		case len(fieldStores) == 1 && len(wholeStores) == 0:
			if x.Heap && !p.fieldWrittenOnlyBy(x, idx, fieldStores[0]) {
				return nil, nil, false
			}
			return fieldStores[0].Val, fr, true
		case len(fieldStores) == 0 && len(wholeStores) == 1:
			// spilled copy of a struct value (value receiver): the field of the copied value
			return p.carriedField(wholeStores[0].Val, idx, fr, depth+1)
		}
	}
	return nil, nil, false
}

// fieldWrittenOnlyBy: no other instruction of the module stores into field idx of the cell's struct type.
func (p *Prog) fieldWrittenOnlyBy(al *ssa.Alloc, idx int, only *ssa.Store) bool {
	nt := derefNamed(al.Type())
	if nt == nil {
		return false
	}
	if p.onlyWriter == nil {
		p.onlyWriter = map[*ssa.Store]bool{}
	}
	if v, ok := p.onlyWriter[only]; ok {
		return v
	}
	res := p.fieldWrittenOnlyBy1(nt, idx, only)
	p.onlyWriter[only] = res
	return res
}

func (p *Prog) fieldWrittenOnlyBy1(nt *types.Named, idx int, only *ssa.Store) bool {
	for _, f := range p.Funcs {
		for _, a := range p.Accesses(f) {
			if !a.Write || a.Pointee || a.Instr == ssa.Instruction(only) || freshBase(a) {
				continue // stores into other freshly allocated objects do not touch this one
			}
			if a.Field.Index == idx && a.Field.Type != nil && types.Identical(a.Field.Type, nt) {
				return false
			}
		}
	}
	return true
}

// creationFrames: the frames of every place in the module where f becomes a function value (closure or method value).
func (p *Prog) creationFrames(f *ssa.Function) []*frame {
	var out []*frame
	for _, g := range p.Funcs {
		for _, b := range g.Blocks {
			for _, ins := range b.Instrs {
				mc, ok := ins.(*ssa.MakeClosure)
				if !ok {
					continue
				}
				if fn, fr := p.closureFrame(mc, nil); fn == f && fr != nil {
					out = append(out, fr)
				}
			}
		}
	}
	return out
}

// SourceField: the struct field a value was read from, looking through locals, conversions and - inside a closure or a
// method value - the variables captured where it was created.
func (p *Prog) SourceField(f *ssa.Function, v ssa.Value) (FieldRef, bool) {
	var fr *frame
	if frs := p.creationFrames(f); len(frs) == 1 {
		fr = frs[0]
	}
	ap := p.OuterAP(v, fr)
	if len(ap.Fields) > 0 {
		return ap.Fields[len(ap.Fields)-1], true
	}
	if fr, _, ok := loadedField(strip(v, true)); ok {
		return fr, true
	}
	return FieldRef{}, false
}
