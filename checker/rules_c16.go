package main

import (
	"fmt"
	"go/token"
	"go/types"

	"gclverify/xt/ssa"
)

func init() {
	register("C16", &ruleSet{
		run:    runC16,
		floors: map[string]int{"O1": 6, "O2": 5, "O3": 7, "O4": 3, "O5": 1},
		explain: "Decides from SSA paths that (O1) every post-construction store of a limit type's estimate is followed on every path to return by " +
			"the type's notification routine, given the just-stored value (or a re-load of the field after the last store) through the same conversion " +
			"EstimatedLimit applies; (O2) the notification routine calls every registered listener with that value (no skip, break or early return); " +
			"(O3) NotifyOnChange appends its argument to that collection under the type's exclusive mutex, or forwards it unchanged to the delegate; " +
			"(O4) wrappers return the delegate's estimate unchanged and TracedLimit forwards samples unchanged and in order. Ordering of notifications " +
			"between concurrent SetLimit calls is not decided.",
	})
}

// convChain strips conversions from v and reports the root and whether a float->int conversion was crossed.
func convChain(v ssa.Value) (root ssa.Value, floatToInt bool) {
	for i := 0; i < 16; i++ {
		v = strip(v, false)
		cv, ok := v.(*ssa.Convert)
		if !ok {
			return v, floatToInt
		}
		if isFloat(cv.X.Type()) && isIntegral(cv.Type()) {
			floatToInt = true
		} else if !(isIntegral(cv.X.Type()) && isIntegral(cv.Type())) && !(isFloat(cv.X.Type()) && isFloat(cv.Type())) {
			return v, floatToInt // int->float etc: not value preserving for this purpose
		}
		v = cv.X
	}
	return v, floatToInt
}

// listenerFields: fields of T of type []core.LimitChangeListener
func (p *Prog) listenerFields(nt *types.Named) []FieldRef {
	lc := p.coreNamed("LimitChangeListener")
	if lc == nil {
		return nil
	}
	out := fieldsOfType(nt, types.NewSlice(lc))
	// a named slice type over the listener type (type changeListeners []core.LimitChangeListener) is the same collection
	if st, ok := nt.Underlying().(*types.Struct); ok {
		for i := 0; i < st.NumFields(); i++ {
			ft := st.Field(i).Type()
			if _, isNamed := ft.(*types.Named); !isNamed {
				continue
			}
			if sl, ok := ft.Underlying().(*types.Slice); ok && types.Identical(sl.Elem(), lc) {
				out = append(out, FieldRef{Type: nt, Index: i, Name: st.Field(i).Name()})
			}
		}
	}
	// the collection (with its mutex) may be grouped into a struct held by value in the limit type
	if st, ok := nt.Underlying().(*types.Struct); ok {
		for i := 0; i < st.NumFields(); i++ {
			if sub, ok := st.Field(i).Type().(*types.Named); ok && sub.Obj().Pkg() == nt.Obj().Pkg() {
				if _, isStruct := sub.Underlying().(*types.Struct); isStruct {
					out = append(out, fieldsOfType(sub, types.NewSlice(lc))...)
				}
			}
		}
	}
	return out
}

// notifier describes a notification routine: a method that ranges over the listener field and calls elements.
type notifier struct {
	Fn        *ssa.Function
	Field     FieldRef
	Calls     []*ssa.Call // element calls
	ParamFTI  bool        // the routine converts its parameter float->int before delivering
	ParamOK   bool        // every element call delivers the same parameter of the routine (through conversions only)
	ParamIdx  int         // index of that parameter in Fn.Params
	Inline    bool        // the routine also stores the estimate: the loop is the notification itself, the delivered value is checked by O1
}

func (p *Prog) notifiersOf(nt *types.Named) []*notifier {
	var out []*notifier
	lfs := p.listenerFields(nt)
	if len(lfs) == 0 {
		return nil
	}
	for _, m := range p.MethodsOf(nt) {
		n := &notifier{Fn: m, ParamOK: true}
		allInstrs(m, func(ins ssa.Instruction) {
			call, ok := ins.(*ssa.Call)
			if !ok {
				return
			}
			c := p.CallOf(call)
			if c.Name != "dynamic" || len(c.Args) != 1 {
				return
			}
			// function value = load of element of loaded listeners field
			u, ok := strip(c.FnVal, false).(*ssa.UnOp)
			if !ok || u.Op != token.MUL {
				return
			}
			ia, ok := u.X.(*ssa.IndexAddr)
			if !ok {
				return
			}
			fr, _, ok := fieldPointerLoad(ia.X)
			if !ok {
				return
			}
			for _, lf := range lfs {
				if sameField(fr, lf) {
					n.Field = lf
					n.Calls = append(n.Calls, call)
					root, fti := convChain(c.Args[0])
					idx := -1
					for i, prm := range m.Params {
						if i > 0 && root == ssa.Value(prm) {
							idx = i
						}
					}
					if idx < 0 || (n.ParamIdx != 0 && n.ParamIdx != idx) {
						n.ParamOK = false
					} else {
						n.ParamIdx = idx
					}
					if fti {
						n.ParamFTI = true
					}
				}
			}
		})
		if len(n.Calls) > 0 {
			out = append(out, n)
		}
	}
	return out
}

// inlineNotifier: the loop over the listener collection written inside f itself (no separate routine). The notification
// "starts" where the path reaches the loop header; the value delivered is the argument of the element call.
func c16InlineHeader(p *Prog, n *notifier, b *ssa.BasicBlock) *ssa.Call {
	if n == nil || !isLoopHeader(b) || !c16HeaderOverField(p, b, n.Field) {
		return nil
	}
	for _, c := range n.Calls {
		if b.Dominates(c.Block()) {
			return c
		}
	}
	return nil
}

func runC16(p *Prog, l *Ledger) {
	l.Rule("O5", "a limit's listeners are its own (decided by the C17/O6 rule on the same tree): the listener collection is not initialised from a package-level slice whose spare capacity every instance would append into")
	importObligations(p, l, "C17", "O5", func(o *Obligation) bool { return o.Rule == "O6" })
	l.Rule("O1", "every post-construction store of the estimate is followed on every path to return by the notification routine carrying the stored value through EstimatedLimit's conversion")
	l.Rule("O2", "the notification routine calls every element of the listener collection with its parameter: no skipped iteration, no break, no early return")
	l.Rule("O3", "NotifyOnChange appends its parameter to the listener collection under the exclusive mutex, or forwards it unchanged to the delegate's NotifyOnChange (wrappers)")
	l.Rule("O4", "wrappers report exactly the delegate's estimate; TracedLimit.OnSample forwards its four parameters unchanged and in order")
	l.NotCovered = []string{"ordering of notifications between concurrent SettableLimit.SetLimit calls (the property does not quantify over schedules)"}

	limIface := p.coreIface("Limit")
	if limIface == nil {
		l.Infra("core.Limit not found")
		return
	}
	locks := p.Locksets()
	for _, nt := range p.Implementers(limIface) {
		info, why := p.EstimateOf(nt)
		tk := p.TypeKey(nt)
		if info == nil {
			l.Unknown("O4", tk+".EstimatedLimit", "", "cannot determine how the estimate is reported: "+why)
			continue
		}
		if info.Delegate != nil {
			// wrapper
			l.OK("O4", tk+".EstimatedLimit", p.FuncPos(info.Fn), "returns the result of "+p.FieldKey(*info.Delegate)+".EstimatedLimit() unchanged")
			c16Registration(p, l, locks, nt, info, nil, false)
			c16TracedForward(p, l, nt, info)
			continue
		}
		notifs := p.notifiersOf(nt)
		for _, n := range notifs {
			for _, a := range p.Accesses(n.Fn) {
				if a.Write && sameField(a.Field, info.Field) && !freshBase(a) {
					n.Inline = true
				}
			}
		}
		// O1: stores of the estimate outside constructors
		nStores := 0
		for _, f := range p.Funcs {
			writes := map[ssa.Instruction]FieldAccess{}
			for _, a := range p.Accesses(f) {
				if a.Write && sameField(a.Field, info.Field) && !freshBase(a) {
					writes[a.Instr] = a
				}
			}
			if len(writes) == 0 {
				continue
			}
			nStores += len(writes)
			key := fmt.Sprintf("%s/store:%s", p.Key(f), info.Field.Name)
			if len(notifs) == 0 {
				l.Bad("O1", key, p.FuncPos(f), "the estimate is stored but the type has no notification routine over its listener collection")
				continue
			}
			// the storing function may contain the notification loop itself
			var own *notifier
			for _, n := range notifs {
				if n.Fn == f {
					own = n
				}
			}
			npaths := 0
			var bad []string
			_, trunc := EnumPaths(f, 200000, func(pa *Path) bool {
				if !pa.IsReturn() {
					return true
				}
				type ev struct {
					isW  bool
					ins  ssa.Instruction
					step int
					val  ssa.Value
					n    *notifier
				}
				var evs []ev
				pos := map[ssa.Instruction]int{}
				k := 0
				pa.Each(func(step int, ins ssa.Instruction) bool {
					k++
					if _, seen := pos[ins]; !seen {
						pos[ins] = k
					}
					if a, ok := writes[ins]; ok {
						evs = append(evs, ev{isW: true, ins: ins, step: step, val: a.Val})
						return true
					}
					if own != nil && ins == ins.Block().Instrs[0] {
						if ec := c16InlineHeader(p, own, ins.Block()); ec != nil {
							evs = append(evs, ev{ins: ec, step: step, val: ec.Call.Args[0], n: &notifier{Fn: f, Field: own.Field, ParamOK: true}})
						}
					}
					if call, ok := ins.(*ssa.Call); ok {
						c := p.CallOf(call)
						for _, n := range notifs {
							if c.Static == n.Fn && n.ParamOK && n.ParamIdx-1 < len(c.Args) {
								evs = append(evs, ev{ins: ins, step: step, val: c.Args[n.ParamIdx-1], n: n})
							} else if c.Static == n.Fn && !n.Inline {
								evs = append(evs, ev{ins: ins, step: step, val: nil, n: n})
							}
						}
					}
					return true
				})
				hasW := false
				for _, e := range evs {
					if e.isW {
						hasW = true
					}
				}
				if !hasW {
					// told without a change: harmless only if what listeners are told is the estimate as it stands
					for _, e := range evs {
						if e.n == nil || !e.n.ParamOK || e.val == nil {
							continue
						}
						argRoot, _ := convChain(pa.Resolve(e.val, e.step))
						isEst := false
						if fr, _, ok := loadedField(argRoot); ok && sameField(fr, info.Field) {
							isEst = true
						}
						if call, ok := argRoot.(*ssa.Call); ok {
							if c := p.CallOf(call); atomicOpOf(c.Name) == "Load" && len(c.Args) == 1 {
								if fa, ok := c.Args[0].(*ssa.FieldAddr); ok {
									if fr, _, _ := fieldOf(fa); sameField(fr, info.Field) {
										isEst = true
									}
								}
							}
						}
						if !isEst {
							bad = append(bad, fmt.Sprintf("%s: listeners are told %s on a path that does not store the estimate: what they hold then differs from EstimatedLimit(): %s", p.At(e.ins), valueString(argRoot), joinWitness(p.DescribePath(pa))))
						}
					}
					return len(bad) < 3
				}
				npaths++
				last := evs[len(evs)-1]
				if last.isW {
					bad = append(bad, fmt.Sprintf("%s: estimate stored, then the path returns without notifying listeners: %s", p.At(last.ins), joinWitness(p.DescribePath(pa))))
					return len(bad) < 3
				}
				// last event is a notify: find the last write before it
				var lw *ev
				for i := len(evs) - 1; i >= 0; i-- {
					if evs[i].isW {
						lw = &evs[i]
						break
					}
				}
				if !last.n.ParamOK {
					bad = append(bad, fmt.Sprintf("%s: notification routine %s does not deliver its parameter", p.At(last.ins), p.Key(last.n.Fn)))
					return len(bad) < 3
				}
				// the very SSA value that was stored is handed to the routine: only the routine's own conversion matters
				if strip(pa.Resolve(last.val, last.step), false) == strip(pa.Resolve(lw.val, lw.step), false) {
					if last.n.ParamFTI != info.FloatInt {
						bad = append(bad, fmt.Sprintf("%s: the notification routine converts the value differently from EstimatedLimit", p.At(last.ins)))
					}
					return len(bad) < 3
				}
				argRoot, fti := convChain(pa.Resolve(last.val, last.step))
				fti = fti || last.n.ParamFTI
				if fti != info.FloatInt {
					bad = append(bad, fmt.Sprintf("%s: listeners receive the value through a different conversion than EstimatedLimit applies (float->int truncation: notify=%v, EstimatedLimit=%v)", p.At(last.ins), fti, info.FloatInt))
					return len(bad) < 3
				}
				okArg := false
				// (a) reload of the estimate field after the last write
				if fr, base, ok := loadedField(argRoot); ok && sameField(fr, info.Field) {
					if ld, isIns := argRoot.(ssa.Instruction); isIns && pos[ld] > pos[lw.ins] && AccessPath(base).String() == AccessPath(writes[lw.ins].Base).String() {
						okArg = true
					} else {
						bad = append(bad, fmt.Sprintf("%s: listeners are given a value of the estimate read before the store at %s", p.At(last.ins), p.At(lw.ins)))
						return len(bad) < 3
					}
				}
				// atomic load of the field after the store
				if call, ok := argRoot.(*ssa.Call); ok && !okArg {
					c := p.CallOf(call)
					if atomicOpOf(c.Name) == "Load" && len(c.Args) == 1 {
						if fa, ok := c.Args[0].(*ssa.FieldAddr); ok {
							if fr, _, _ := fieldOf(fa); sameField(fr, info.Field) && pos[call] > pos[lw.ins] {
								okArg = true
							}
						}
					}
				}
				// (b) the very value that was stored
				if !okArg {
					wRoot, _ := convChain(pa.Resolve(lw.val, lw.step))
					if wRoot == argRoot {
						okArg = true
					}
				}
				if !okArg {
					bad = append(bad, fmt.Sprintf("%s: listeners are given %s, which is neither the value stored at %s nor a re-load of the estimate", p.At(last.ins), valueString(argRoot), p.At(lw.ins)))
				}
				return len(bad) < 3
			})
			l.Count("paths", npaths)
			if trunc {
				l.Unknown("O1", key, p.FuncPos(f), "path enumeration truncated")
				continue
			}
			l.Check(len(bad) == 0, "O1", key, p.FuncPos(f),
				fmt.Sprintf("%d store sites, %d paths with a store; each ends with the notification routine carrying the stored value", len(writes), npaths),
				"the estimate can change without listeners being told the new value", bad...)
		}
		l.Count("estimate_store_sites", nStores)
		if nStores == 0 {
			l.OK("O1", tk+"/no-post-construction-store", p.FuncPos(info.Fn), "estimate field "+p.FieldKey(info.Field)+" is never stored after construction; nothing to notify")
		}

		// O2: notification routine completeness
		for _, n := range notifs {
			key := p.Key(n.Fn)
			npaths := 0
			var bad []string
			if !n.ParamOK && !n.Inline {
				bad = append(bad, "a listener is called with something other than the routine's parameter")
			}
			callSet := map[ssa.Instruction]bool{}
			for _, c := range n.Calls {
				callSet[c] = true
				if why := c16IndexSweeps(c); why != "" {
					bad = append(bad, fmt.Sprintf("%s: %s", p.At(c), why))
				}
			}
			// loop header: block with the index<len comparison dominating the call
			_, trunc := EnumPaths(n.Fn, 100000, func(pa *Path) bool {
				npaths++
				// walk: after entering the block of a call's loop body, the call must occur before the header is revisited
				inBody := false
				called := false
				var hdr *ssa.BasicBlock
				for i, b := range pa.Blocks {
					if hdr == nil {
						// a loop header is a block that appears twice on the path or that has a back edge
						if isLoopHeader(b) && c16HeaderOverField(p, b, n.Field) {
							hdr = b
							if i+1 < len(pa.Blocks) && pa.Succ[i] == 0 {
								inBody = true
								called = false
							}
							continue
						}
						continue
					}
					if b == hdr {
						if inBody && !called {
							bad = append(bad, "an iteration can reach the next one without calling the listener (skip/continue): "+joinWitness(p.DescribePath(pa)))
						}
						inBody = false
						if i+1 < len(pa.Blocks) && pa.Succ[i] == 0 {
							inBody = true
							called = false
						}
						continue
					}
					if inBody {
						for _, ins := range b.Instrs {
							if callSet[ins] {
								called = true
							}
						}
					}
				}
				if inBody {
					// path ended (return/panic) while still inside the loop body
					if _, isRet := pa.Term().(*ssa.Return); isRet {
						// fine only when the loop edge budget is exhausted: header->body edge already used twice is impossible with loopIter=1,
						// so ending inside the body means break/return out of the loop
						bad = append(bad, "the loop over the listeners can be left early (break/return inside the body): "+joinWitness(p.DescribePath(pa)))
					}
				}
				return len(bad) < 3
			})
			if trunc {
				l.Unknown("O2", key, p.FuncPos(n.Fn), "path enumeration truncated")
				continue
			}
			l.Check(len(bad) == 0, "O2", key, p.FuncPos(n.Fn),
				fmt.Sprintf("%d paths; every iteration over %s calls the element with the parameter", npaths, p.FieldKey(n.Field)),
				"not every registered listener is notified", bad...)
		}
		// O3 registration
		c16Registration(p, l, locks, nt, info, notifs, nStores > 0)
	}
}

func isLoopHeader(b *ssa.BasicBlock) bool {
	for _, pr := range b.Preds {
		if b.Dominates(pr) {
			return true
		}
	}
	return false
}

// c16HeaderOverField: the loop header compares an index against len(load of the listener field).
func c16HeaderOverField(p *Prog, b *ssa.BasicBlock, lf FieldRef) bool {
	if len(b.Instrs) == 0 {
		return false
	}
	iff, ok := b.Instrs[len(b.Instrs)-1].(*ssa.If)
	if !ok {
		return false
	}
	bo, ok := iff.Cond.(*ssa.BinOp)
	if !ok || bo.Op != token.LSS {
		return false
	}
	call, ok := bo.Y.(*ssa.Call)
	if !ok {
		return false
	}
	if bi, ok := call.Call.Value.(*ssa.Builtin); !ok || bi.Name() != "len" {
		return false
	}
	fr, _, ok := fieldPointerLoad(call.Call.Args[0])
	return ok && sameField(fr, lf)
}

// appendedValues returns the values appended by an append(slice, v...) call built from a literal vararg.
func appendedValues(call *ssa.Call) []ssa.Value {
	if len(call.Call.Args) != 2 {
		return nil
	}
	sl, ok := call.Call.Args[1].(*ssa.Slice)
	if !ok {
		return nil
	}
	al, ok := sl.X.(*ssa.Alloc)
	if !ok {
		return nil
	}
	var out []ssa.Value
	if refs := al.Referrers(); refs != nil {
		for _, r := range *refs {
			if ia, ok := r.(*ssa.IndexAddr); ok {
				if rr := ia.Referrers(); rr != nil {
					for _, u := range *rr {
						if st, ok := u.(*ssa.Store); ok && st.Addr == ssa.Value(ia) {
							out = append(out, st.Val)
						}
					}
				}
			}
		}
	}
	return out
}

func c16Registration(p *Prog, l *Ledger, locks *LockInfo, nt *types.Named, info *EstimateInfo, notifs []*notifier, mutable bool) {
	fn := p.Method(nt, "NotifyOnChange")
	tk := p.TypeKey(nt)
	if fn == nil || len(fn.Params) != 2 {
		l.Infra("%s has no NotifyOnChange(consumer)", tk)
		return
	}
	key := p.Key(fn)
	param := fn.Params[1]
	if info.Delegate == nil && !mutable {
		l.OK("O3", key, p.FuncPos(fn), "estimate never changes after construction; registration may be a no-op")
		return
	}
	var listenField *FieldRef
	for _, n := range notifs {
		f := n.Field
		listenField = &f
	}
	npaths := 0
	var bad []string
	EnumPaths(fn, 100000, func(pa *Path) bool {
		if !pa.IsReturn() {
			return true
		}
		npaths++
		appended, forwarded := false, false
		pa.Each(func(step int, ins ssa.Instruction) bool {
			if st, ok := ins.(*ssa.Store); ok && listenField != nil {
				if fa, ok := st.Addr.(*ssa.FieldAddr); ok {
					if fr, base, _ := fieldOf(fa); sameField(fr, *listenField) {
						if call, ok := st.Val.(*ssa.Call); ok {
							if bi, ok := call.Call.Value.(*ssa.Builtin); ok && bi.Name() == "append" {
								src, _, ok1 := fieldPointerLoad(call.Call.Args[0])
								vals := appendedValues(call)
								hasParam := false
								for _, v := range vals {
									if strip(v, false) == ssa.Value(param) {
										hasParam = true
									}
								}
								if ok1 && sameField(src, *listenField) && hasParam {
									// under exclusive own mutex
									held := locks.Held(ins)
									bap := AccessPath(base).String()
									okLock := false
									muOwners := []*types.Named{nt}
									if fr.Type != nil && !types.Identical(fr.Type, nt) {
										muOwners = append(muOwners, fr.Type) // collection and its mutex grouped in a sub-struct
									}
									for _, ow := range muOwners {
										for _, m := range mutexFields(ow) {
											if ex, ok := held[bap+"."+m]; ok && ex {
												okLock = true
											}
										}
									}
									if okLock {
										appended = true
									} else {
										bad = append(bad, fmt.Sprintf("%s: listener collection is extended without the exclusive mutex (held %s)", p.At(ins), held))
									}
								}
							}
						}
					}
				}
			}
			if call, ok := ins.(*ssa.Call); ok && info.Delegate != nil {
				c := p.CallOf(call)
				if p.callsRoleMethod(c, "Limit", "NotifyOnChange") && len(c.Args) == 1 {
					if fr, _, ok := loadedField(strip(c.Recv, false)); ok && sameField(fr, *info.Delegate) && strip(c.Args[0], false) == ssa.Value(param) {
						forwarded = true
					}
				}
			}
			return true
		})
		if info.Delegate != nil {
			if !forwarded {
				bad = append(bad, "wrapper does not forward the consumer unchanged to its delegate's NotifyOnChange: "+joinWitness(p.DescribePath(pa)))
			}
		} else if !appended {
			bad = append(bad, "consumer is not appended to the listener collection on this path: "+joinWitness(p.DescribePath(pa)))
		}
		return len(bad) < 3
	})
	l.Count("paths", npaths)
	what := "appends the consumer to the listener collection under the exclusive mutex"
	if info.Delegate != nil {
		what = "forwards the consumer unchanged to " + p.FieldKey(*info.Delegate) + ".NotifyOnChange"
	}
	l.Check(len(bad) == 0, "O3", key, p.FuncPos(fn), fmt.Sprintf("%d paths; each %s", npaths, what), "a registered listener can be lost", bad...)
}

// c16TracedForward: wrappers whose OnSample has no windowing state forward their parameters unchanged.
func c16TracedForward(p *Prog, l *Ledger, nt *types.Named, info *EstimateInfo) {
	fn := p.Method(nt, "OnSample")
	if fn == nil || len(fn.Params) != 5 {
		return
	}
	// a pure forwarder has no field writes (a windowing wrapper does; that one is C09's business)
	for _, a := range p.Accesses(fn) {
		if a.Write {
			return
		}
	}
	key := p.Key(fn)
	npaths := 0
	var bad []string
	EnumPaths(fn, 100000, func(pa *Path) bool {
		if !pa.IsReturn() {
			return true
		}
		npaths++
		n := 0
		pa.Each(func(step int, ins ssa.Instruction) bool {
			call, ok := ins.(*ssa.Call)
			if !ok {
				return true
			}
			c := p.CallOf(call)
			if !p.callsRoleMethod(c, "Limit", "OnSample") || len(c.Args) != 4 {
				return true
			}
			if fr, _, ok := loadedField(strip(c.Recv, false)); !ok || !sameField(fr, *info.Delegate) {
				return true
			}
			n++
			for i, a := range c.Args {
				if strip(pa.Resolve(a, step), false) != ssa.Value(fn.Params[i+1]) {
					bad = append(bad, fmt.Sprintf("%s: argument %d of the delegate's OnSample is not parameter %q unchanged", p.At(ins), i+1, fn.Params[i+1].Name()))
				}
			}
			return true
		})
		if n != 1 {
			bad = append(bad, fmt.Sprintf("delegate's OnSample is called %d times on a path (want exactly once): %s", n, joinWitness(p.DescribePath(pa))))
		}
		return len(bad) < 3
	})
	l.Check(len(bad) == 0, "O4", key, p.FuncPos(fn), fmt.Sprintf("%d paths; each forwards (startTime, rtt, inFlight, didDrop) unchanged, once", npaths),
		"samples are not forwarded unchanged to the delegate", bad...)
}

// c16IndexSweeps: the element being called is indexed by a loop counter that starts at the first element
// and advances by one per iteration of a real loop (a back edge exists). Returns "" when it does.
func c16IndexSweeps(call *ssa.Call) string {
	u, ok := strip(call.Call.Value, false).(*ssa.UnOp)
	if !ok {
		return "listener value is not an element load"
	}
	ia, ok := u.X.(*ssa.IndexAddr)
	if !ok {
		return "listener value is not an element load"
	}
	idx := strip(ia.Index, true)
	var phi *ssa.Phi
	plusOne := func(v ssa.Value) (*ssa.Phi, bool) {
		bo, ok := strip(v, true).(*ssa.BinOp)
		if !ok || bo.Op != token.ADD {
			return nil, false
		}
		if k, ok := constInt(bo.Y); !ok || k != 1 {
			return nil, false
		}
		ph, ok := strip(bo.X, true).(*ssa.Phi)
		return ph, ok
	}
	start := int64(0)
	if ph, ok := idx.(*ssa.Phi); ok {
		phi = ph
	} else if ph, ok := plusOne(idx); ok {
		phi = ph
		start = -1
	} else {
		return "listener index is not a loop counter"
	}
	if !isLoopHeader(phi.Block()) {
		return "the listener call is not inside a loop over the collection (no back edge): only some listeners can be reached"
	}
	okStart, okStep := false, false
	for _, e := range phi.Edges {
		if k, ok := constInt(e); ok && k == start {
			okStart = true
			continue
		}
		if ph, ok := plusOne(e); ok && ph == phi {
			okStep = true
		}
	}
	if !okStart || !okStep {
		return "the loop counter does not start at the first listener and advance by one"
	}
	return ""
}
