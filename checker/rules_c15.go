package main

import (
	"math"
	"fmt"
	"go/token"
	"go/types"
	"strings"

	"gclverify/xt/ssa"
)

func init() {
	register("C15", &ruleSet{
		run:    runC15,
		floors: map[string]int{"O1": 2, "O2": 1, "O3": 2, "O4": 2, "O5": 1},
		explain: "Decides structurally, for the limit types that expose a no-load RTT (Vegas, Gradient): (O1) the baseline measurement is written only through " +
			"Add(float64(rtt)) with the current sample's RTT, Reset(), or replacement by a freshly allocated measurement, so it always equals an RTT observed since the last " +
			"reset; (O2) MinimumMeasurement.Add stores only the sample, and only on the edge 'unset or sample < old'; (O3) on every OnSample path the baseline was reset / " +
			"replaced, or Add(rtt) ran, or the path established not(rtt < baseline) - hence baseline <= sample or unset afterwards; (O4) the probe counter is advanced by exactly " +
			"one on every OnSample path on which probing is enabled, the probe branch re-arms the counter from a fresh random draw and resets / replaces the baseline on the same " +
			"path, and the baseline is reset nowhere else. The numeric staleness bounds (probe-multiplier x limit samples, twice the probe interval) depend on the estimate's " +
			"trajectory and the jitter draw and are not applicable.",
	})
}

func runC15(p *Prog, l *Ledger) {
	l.Rule("O1", "baseline writers: only Add(float64(rtt of this sample)), Reset(), or replacement by a fresh measurement")
	l.Rule("O2", "minimum discipline: MinimumMeasurement.Add stores exactly the sample and only when unset or sample < old")
	l.Rule("O3", "after every OnSample the baseline is unset/reset, was fed this rtt, or the path established not(rtt < baseline)")
	l.Rule("O5", "the baseline belongs to its limit (decided by the C17/O6 rule on the same tree): no baseline measurement is shared between instances through a package-level variable, or one limit's baseline would hold RTTs another limit observed")
	importObligations(p, l, "C17", "O5", func(o *Obligation) bool { return o.Rule == "O6" })
	l.Rule("O4", "probe bookkeeping: counter advanced exactly once per sample when probing is enabled; probe branch re-arms it from a fresh random draw and resets/replaces the baseline on the same path; no other baseline reset")
	l.NotCovered = []string{"numeric staleness bounds (depend on the estimate trajectory and the jitter draw)", "user-supplied baseline measurements"}

	mi := p.coreNamed("MeasurementInterface")
	n := 0
	for _, T := range p.Implementers(p.coreIface("Limit")) {
		getter := p.Method(T, "RTTNoLoad")
		if getter == nil {
			continue
		}
		// baseline field: the MeasurementInterface field whose Get() RTTNoLoad returns
		var base *FieldRef
		allInstrs(getter, func(ins ssa.Instruction) {
			if call, ok := ins.(*ssa.Call); ok {
				c := p.CallOf(call)
				if c.Iface != nil && c.Iface.Name() == "Get" {
					if fr, _, ok := loadedField(strip(c.Recv, false)); ok && types.Identical(fr.Type, T) {
						f := fr
						base = &f
					}
				}
			}
		})
		if base == nil || !types.Identical(structOf(T).Field(base.Index).Type(), mi) {
			l.Infra("%s.RTTNoLoad does not read a MeasurementInterface field", p.TypeKey(T))
			continue
		}
		n++
		on := p.Method(T, "OnSample")
		tk := p.TypeKey(T)
		rttP := on.Params[2]
		isRTT := func(v ssa.Value) bool {
			v = strip(v, false)
			if cv, ok := v.(*ssa.Convert); ok {
				v = strip(cv.X, false)
			}
			return v == ssa.Value(rttP)
		}
		// ---- O1 writers across the module
		var bad1 []string
		nw := 0
		for _, f := range p.Funcs {
			for _, a := range p.Accesses(f) {
				if a.Write && sameField(a.Field, *base) && !a.Pointee {
					nw++
					if freshBase(a) {
						continue
					}
					if _, isNew := strip(a.Val, false).(*ssa.Alloc); !isNew || f != on {
						bad1 = append(bad1, fmt.Sprintf("%s: the baseline measurement is replaced by something other than a fresh measurement inside OnSample (%s)", p.At(a.Instr), p.Key(f)))
					}
				}
			}
			allInstrs(f, func(ins ssa.Instruction) {
				call, ok := ins.(*ssa.Call)
				if !ok {
					return
				}
				c := p.CallOf(call)
				if c.Iface == nil || c.Recv == nil {
					return
				}
				fr, _, ok := loadedField(strip(c.Recv, false))
				if !ok || !sameField(fr, *base) {
					return
				}
				switch c.Iface.Name() {
				case "Get":
				case "Reset":
					nw++
					if f != on {
						bad1 = append(bad1, fmt.Sprintf("%s: the baseline is reset outside OnSample (%s)", p.At(ins), p.Key(f)))
					}
				case "Add":
					nw++
					if f != on || !isRTT(c.Args[0]) {
						bad1 = append(bad1, fmt.Sprintf("%s: the baseline is fed %s, not the current sample's RTT", p.At(ins), operandString(c.Args[0])))
					}
				default:
					nw++
					bad1 = append(bad1, fmt.Sprintf("%s: the baseline is modified through %s", p.At(ins), c.Iface.Name()))
				}
			})
		}
		l.Check(len(bad1) == 0, "O1", tk+"."+base.Name, p.FuncPos(on), fmt.Sprintf("%d writer sites: Add(float64(rtt)), Reset() or a fresh measurement, all in OnSample", nw), "the baseline can hold a value that is not an observed RTT of the current epoch", bad1...)

		// ---- O3 / O4 on OnSample paths
		// probe counter: integer field of T with a +-1 delta in OnSample
		var counter *FieldRef
		allInstrs(on, func(ins ssa.Instruction) {
			if d, ok := p.DeltaOf(ins); ok && types.Identical(d.Field.Type, T) && (d.By == 1 || d.By == -1) {
				f := d.Field
				counter = &f
			}
		})
		var bad3, bad4 []string
		periodFactors := map[string]FieldRef{}
		jitterFields := map[string]FieldRef{}
		// the bound the counter is compared with: a constant (count-down) or a value computed, at the time of the test,
		// from the current estimate (count-up to multiplier x limit) - never a snapshot stored when the period began
		if counter != nil {
			est := FieldRef{}
			if info, _ := p.EstimateOf(T); info != nil {
				est = info.Field
			}
			for _, m := range p.MethodsOf(T) {
				allInstrs(m, func(ins ssa.Instruction) {
					bo, ok := ins.(*ssa.BinOp)
					if !ok {
						return
					}
					switch bo.Op {
					case token.LSS, token.LEQ, token.GTR, token.GEQ:
					default:
						return
					}
					var other ssa.Value
					if fr, _, ok := loadedField(strip(bo.X, true)); ok && sameField(fr, *counter) {
						other = bo.Y
					} else if fr, _, ok := loadedField(strip(bo.Y, true)); ok && sameField(fr, *counter) {
						other = bo.X
					}
					if other == nil {
						return
					}
					if _, isC := strip(other, true).(*ssa.Const); isC {
						return
					}
					usesEst, usesMutable := false, ""
					seen := map[ssa.Value]bool{}
					var walk func(v ssa.Value, d int)
					walk = func(v ssa.Value, d int) {
						if v == nil || seen[v] || d > 30 {
							return
						}
						seen[v] = true
						if fr, _, ok := loadedField(v); ok {
							switch {
							case est.Valid() && sameField(fr, est):
								usesEst = true
							case fr.Type != nil && types.Identical(fr.Type, T) && !p.FieldImmutable(fr) && !sameField(fr, *counter):
								// a jitter factor redrawn at each probe is fine as long as the estimate itself is read now
								usesMutable = fr.Name
								if isFloat(structOf(T).Field(fr.Index).Type()) {
									jitterFields[p.FieldKey(fr)] = fr
								}
							case fr.Type != nil && types.Identical(fr.Type, T) && p.FieldImmutable(fr) && isIntegral(structOf(T).Field(fr.Index).Type()):
								periodFactors[p.FieldKey(fr)] = fr
							}
							return
						}
						if i2, ok := v.(ssa.Instruction); ok {
							for _, op := range i2.Operands(nil) {
								if op != nil && *op != nil {
									walk(*op, d+1)
								}
							}
						}
					}
					walk(other, 0)
					if !usesEst && usesMutable != "" {
						bad4 = append(bad4, fmt.Sprintf("%s: the probe counter is compared with %s, a value stored earlier, not with a bound computed from the current estimate: after the limit shrinks the next reset is still scheduled for the old limit", p.At(ins), usesMutable))
					}
				})
			}
		}
		// a configured factor of the probe period (Vegas: probe multiplier x jitter x estimate) is positive: with a zero or
		// negative factor the count-up test is never (or always) satisfied and the baseline is never (or constantly) reset
		for k, fr := range periodFactors {
			if !p.ImmutableFieldBound(fr, 1, false) {
				bad4 = append(bad4, fmt.Sprintf("the probe period factor %s is not proved >= 1 by the constructors: a non-positive value switches the periodic baseline reset off (or fires it on every sample)", k))
			}
		}
		// a random factor of the probe period stretches it by at most 1: every value stored into it is proved <= 1 from the
		// contract of the random source (rand.Float64 is in [0,1)), so that a reset recurs within multiplier x limit samples
		for k, jf := range jitterFields {
			for _, fn := range p.Funcs {
				for _, a := range p.Accesses(fn) {
					if !a.Write || a.Pointee || !sameField(a.Field, jf) {
						continue
					}
					if why := c15AtMostOne(p, fn, a.Val, 2); why != "" {
						bad4 = append(bad4, fmt.Sprintf("%s: the random factor %s of the probe period is not proved <= 1 (%s): the baseline can stay unrefreshed for longer than multiplier x limit samples", p.At(a.Instr), k, why))
					}
				}
			}
		}
		// who may write the counter: OnSample itself (where the path rule below sees every write) and constructors
		if counter != nil {
			for _, fn := range p.Funcs {
				if fn == on {
					continue
				}
				for _, a := range p.Accesses(fn) {
					if !a.Write || a.Pointee || !sameField(a.Field, *counter) {
						continue
					}
					if _, fresh := AccessPath(a.Base).Root.(*ssa.Alloc); fresh {
						continue
					}
					bad4 = append(bad4, fmt.Sprintf("%s: the probe counter %s is written in %s, outside OnSample's own bookkeeping: the period can be restarted without the baseline being refreshed", p.At(a.Instr), counter.Name, p.Key(fn)))
				}
			}
		}
		rearmConfig := map[string]FieldRef{}
		var movingPaths []*Path
		npaths, nprobe := 0, 0
		EnumPaths(on, 200000, func(pa *Path) bool {
			if !pa.IsReturn() {
				return true
			}
			npaths++
			fed, reset, replaced := false, false, false
			deltas, rearm := 0, 0
			rearmFresh := false
			pa.Each(func(step int, ins ssa.Instruction) bool {
				if d, ok := p.DeltaOf(ins); ok && counter != nil && sameField(d.Field, *counter) {
					deltas++
					return true
				}
				switch x := ins.(type) {
				case *ssa.Store:
					if fa, ok := x.Addr.(*ssa.FieldAddr); ok {
						fr, _, _ := fieldOf(fa)
						if sameField(fr, *base) {
							replaced = true
						}
						if counter != nil && sameField(fr, *counter) {
							rearm++
							v := strip(pa.Resolve(x.Val, step), true)
							// configuration the new period is computed from
							seenV := map[ssa.Value]bool{}
							var walkV func(w ssa.Value, d int)
							walkV = func(w ssa.Value, d int) {
								if w == nil || seenV[w] || d > 12 {
									return
								}
								seenV[w] = true
								if f2, _, ok := loadedField(w); ok {
									if f2.Type != nil && types.Identical(f2.Type, T) && p.FieldImmutable(f2) && isIntegral(structOf(T).Field(f2.Index).Type()) {
										rearmConfig[p.FieldKey(f2)] = f2
									}
									return
								}
								if i2, ok := w.(ssa.Instruction); ok {
									for _, op := range i2.Operands(nil) {
										if op != nil && *op != nil {
											walkV(*op, d+1)
										}
									}
								}
							}
							walkV(v, 0)
							if c15DrawsRand(p, pa, step, v, 0) {
								rearmFresh = true
							}
							if k, ok := constInt(v); ok && k == 0 {
								// counting up from zero: the fresh draw is the jitter stored on the same path
								rearmFresh = c15JitterRedrawn(p, pa, T)
							}
						}
					}
				case *ssa.Call:
					c := p.CallOf(x)
					if c.Iface != nil && c.Recv != nil {
						if fr, _, ok := loadedField(strip(c.Recv, false)); ok && sameField(fr, *base) {
							switch c.Iface.Name() {
							case "Add":
								if isRTT(c.Args[0]) {
									fed = true
								}
							case "Reset":
								reset = true
							}
						}
					}
				}
				return true
			})
			// O3
			if !(fed || reset || replaced) {
				okFact := pa.HoldsRel(-1, func(r Rel) bool {
					if !(r.Op == token.GEQ || r.Op == token.GTR) {
						return false
					}
					if !isRTT(r.X) {
						return false
					}
					call, ok := strip(r.Y, false).(*ssa.Call)
					if !ok {
						return false
					}
					c := p.CallOf(call)
					if c.Iface == nil || c.Iface.Name() != "Get" {
						return false
					}
					fr, _, ok := loadedField(strip(c.Recv, false))
					return ok && sameField(fr, *base)
				})
				if !okFact {
					bad3 = append(bad3, "a path neither feeds the sample's RTT to the baseline, nor resets it, nor establishes rtt >= baseline: "+joinWitness(p.DescribePath(pa)))
				}
			}
			// O4
			if counter != nil {
				disabled := pa.HoldsRel(-1, func(r Rel) bool {
					fr, _, ok := loadedField(strip(r.X, false))
					k, isC := constInt(r.Y)
					return ok && types.Identical(fr.Type, T) && strings.Contains(strings.ToLower(fr.Name), "probe") && isC && k == -1 && r.Op == token.EQL
				})
				if disabled {
					if deltas != 0 || rearm != 0 {
						bad4 = append(bad4, "the probe counter moves although probing is disabled")
					}
				} else if deltas != 1 {
					bad4 = append(bad4, fmt.Sprintf("the probe counter is advanced %d times on a path (want exactly once, before any return): %s", deltas, joinWitness(p.DescribePath(pa))))
				}
				if (deltas > 0 || rearm > 0) && len(movingPaths) < 4000 {
					movingPaths = append(movingPaths, pa)
				}
				if rearm > 0 {
					nprobe++
					if !(reset || replaced) {
						bad4 = append(bad4, "the probe branch re-arms the counter without resetting / replacing the baseline")
					}
					if !rearmFresh {
						bad4 = append(bad4, "the probe branch does not re-arm the counter from a fresh random draw")
					}
				} else if reset || replaced {
					bad4 = append(bad4, "the baseline is reset on a path that does not re-arm the probe counter")
				}
			}
			return len(bad3) < 3 && len(bad4) < 4
		})
		l.Count("paths", npaths)
		l.Check(len(bad3) == 0, "O3", p.Key(on), p.FuncPos(on), fmt.Sprintf("%d paths; each leaves the baseline reset, fed with this rtt, or already <= rtt", npaths), "after a sample the baseline can exceed that sample's RTT", bad3...)
		if counter == nil {
			l.Bad("O4", p.Key(on), p.FuncPos(on), "no probe counter (a field advanced by one per sample) found")
		} else {
			if nprobe == 0 {
				bad4 = append(bad4, "no path re-arms the probe counter: the baseline is never refreshed")
			}
			// a period that the configuration can switch off (the field the new period is computed from is not proved >= 1
			// by the constructors: it can hold the 'disabled' value): the counter then moves only on paths that tested that
			// field - testing the counter instead lets a disabled limit count down and probe on every sample
			for k, cf := range rearmConfig {
				if p.ImmutableFieldBound(cf, 1, false) {
					continue
				}
				for _, pa := range movingPaths {
					tested := false
					for _, fct := range pa.Facts {
						bo, ok := fct.Cond.(*ssa.BinOp)
						if !ok {
							continue
						}
						for _, side := range []ssa.Value{bo.X, bo.Y} {
							if f2, _, ok := loadedField(strip(side, true)); ok && sameField(f2, cf) {
								tested = true
							}
						}
					}
					if !tested {
						bad4 = append(bad4, fmt.Sprintf("the probe counter moves on a path that has not tested %s, which the constructors allow to hold the 'probing disabled' value: %s", k, joinWitness(p.DescribePath(pa))))
						break
					}
				}
			}
			l.Check(len(bad4) == 0, "O4", p.Key(on), p.FuncPos(on), fmt.Sprintf("%d paths, %d probe paths; counter %s advanced once per sample; probe re-arms from a random draw and resets the baseline", npaths, nprobe, counter.Name), "probing bookkeeping can let an obsolete baseline persist", bad4...)
		}
	}
	if n < 2 {
		l.Infra("expected two limit types exposing RTTNoLoad (Vegas, Gradient), found %d", n)
	}

	// ---- O2
	mm := p.Named("measurements", "MinimumMeasurement")
	if mm == nil {
		l.Infra("measurements.MinimumMeasurement not found")
		return
	}
	add := p.Method(mm, "Add")
	sample := add.Params[1]
	var bad []string
	np := 0
	EnumPaths(add, 10000, func(pa *Path) bool {
		if !pa.IsReturn() {
			return true
		}
		np++
		var stores []*ssa.Store
		pa.Each(func(step int, ins ssa.Instruction) bool {
			if st, ok := ins.(*ssa.Store); ok {
				if fa, ok := st.Addr.(*ssa.FieldAddr); ok {
					if fr, _, _ := fieldOf(fa); types.Identical(fr.Type, mm) {
						stores = append(stores, st)
					}
				}
			}
			return true
		})
		isOld := func(v ssa.Value) bool {
			v = strip(v, false)
			if cv, ok := v.(*ssa.Convert); ok {
				v = strip(cv.X, false)
			}
			fr, _, ok := loadedField(v)
			return ok && types.Identical(fr.Type, mm)
		}
		unset := pa.HoldsRel(-1, func(r Rel) bool { k, isC := constFloat(r.Y); return r.Op == token.EQL && isOld(r.X) && isC && k == 0 })
		lower := pa.HoldsRel(-1, func(r Rel) bool { return r.Op == token.LSS && strip(r.X, false) == ssa.Value(sample) && isOld(r.Y) })
		for _, st := range stores {
			if strip(st.Val, false) != ssa.Value(sample) {
				bad = append(bad, fmt.Sprintf("%s: stores something other than the sample", p.At(st)))
			}
			if !(unset || lower) {
				bad = append(bad, fmt.Sprintf("%s: the sample is stored on a path that has established neither 'unset' nor 'sample < old': %s", p.At(st), joinWitness(p.DescribePath(pa))))
			}
		}
		if (unset || lower) && len(stores) != 1 {
			bad = append(bad, "a lower (or first) sample is not stored")
		}
		return len(bad) < 3
	})
	l.Check(len(bad) == 0 && np > 0, "O2", p.Key(add), p.FuncPos(add), fmt.Sprintf("%d paths; the sample is stored exactly when unset or lower than the old minimum", np), "the minimum measurement does not keep the minimum", bad...)
}

// c15UsesRand: the function (or a callee up to depth) calls math/rand.
// c15DrawsRand: the value (resolved along the path) is computed from a fresh draw of math/rand: a rand call, or a call
// of a module function that draws, somewhere among its operands.
func c15DrawsRand(p *Prog, pa *Path, step int, v ssa.Value, depth int) bool {
	if v == nil || depth > 12 {
		return false
	}
	v = strip(pa.Resolve(v, step), true)
	if call, ok := v.(*ssa.Call); ok {
		c := p.CallOf(call)
		if strings.HasPrefix(c.Name, "math/rand.") || strings.HasPrefix(c.Name, "(*math/rand.") {
			return true
		}
		if c.Static != nil && p.InModule(c.Static) && c15UsesRand(p, c.Static, 2) {
			return true
		}
		// the random source handed to a helper that calls it (newProbeJitter(l.jitterSource), the field holding rand.Float64)
		if c.Static != nil && p.InModule(c.Static) {
			for i, a := range call.Call.Args {
				fv := p.constFuncOf(pa.Resolve(a, step))
				if fv == nil || fv.Pkg == nil || fv.Pkg.Pkg.Path() != "math/rand" || i >= len(c.Static.Params) {
					continue
				}
				prm := c.Static.Params[i]
				calledIt := false
				allInstrs(c.Static, func(ins ssa.Instruction) {
					if ci, ok := ins.(ssa.CallInstruction); ok && ci.Common().Value == ssa.Value(prm) {
						calledIt = true
					}
				})
				if calledIt {
					return true
				}
			}
		}
	}
	ins, ok := v.(ssa.Instruction)
	if !ok {
		return false
	}
	if _, isPhi := v.(*ssa.Phi); isPhi {
		return false
	}
	for _, op := range ins.Operands(nil) {
		if op != nil && *op != nil && c15DrawsRand(p, pa, step, *op, depth+1) {
			return true
		}
	}
	return false
}

func c15UsesRand(p *Prog, f *ssa.Function, depth int) bool {
	found := false
	allInstrs(f, func(ins ssa.Instruction) {
		if c := p.CallOf(ins); c != nil {
			if strings.HasPrefix(c.Name, "math/rand.") || strings.HasPrefix(c.Name, "(*math/rand.") {
				found = true
			}
			if !found && depth > 0 && c.Static != nil && p.InModule(c.Static) {
				if c15UsesRand(p, c.Static, depth-1) {
					found = true
				}
			}
		}
	})
	return found
}

// c15JitterRedrawn: on this path some float field of T is stored from a function that draws from math/rand.
func c15JitterRedrawn(p *Prog, pa *Path, T *types.Named) bool {
	ok := false
	pa.Each(func(step int, ins ssa.Instruction) bool {
		if st, isS := ins.(*ssa.Store); isS {
			if fa, isF := st.Addr.(*ssa.FieldAddr); isF {
				if fr, _, _ := fieldOf(fa); types.Identical(fr.Type, T) {
					if c15DrawsRand(p, pa, step, st.Val, 0) {
						ok = true
					}
				}
			}
		}
		return true
	})
	return ok
}

// c15AtMostOne: v (computed in fn) is proved <= 1, taking rand.Float64() in [0,1]; a call of a module function with one
// result is followed into that function's return values.
func c15AtMostOne(p *Prog, fn *ssa.Function, v ssa.Value, depth int) string {
	return c15AtMostOneEnv(p, fn, v, depth, nil)
}

func c15AtMostOneEnv(p *Prog, fn *ssa.Function, v ssa.Value, depth int, env map[ssa.Value]*ssa.Function) string {
	v = strip(v, false)
	if call, ok := v.(*ssa.Call); ok {
		if c := p.CallOf(call); c.Static != nil && p.InModule(c.Static) && c.Static.Blocks != nil && c.Static.Signature.Results().Len() == 1 && depth > 0 {
			why := ""
			n := 0
			allInstrs(c.Static, func(ins ssa.Instruction) {
				if ret, isR := ins.(*ssa.Return); isR && len(ret.Results) == 1 {
					n++
					// function-typed arguments that denote one named function (the random source handed to the helper)
					env2 := map[ssa.Value]*ssa.Function{}
					for i, a := range call.Call.Args {
						if i < len(c.Static.Params) {
							if fv := p.constFuncOf(a); fv != nil {
								env2[c.Static.Params[i]] = fv
							} else if env != nil {
								if fv := env[strip(a, false)]; fv != nil {
									env2[c.Static.Params[i]] = fv
								}
							}
						}
					}
					if w := c15AtMostOneEnv(p, c.Static, ret.Results[0], depth-1, env2); w != "" {
						why = w
					}
				}
			})
			if n == 0 {
				return "no return value"
			}
			return why
		}
	}
	// interval arithmetic over constants and the random source
	var iv func(v ssa.Value, d int) (float64, float64, bool)
	iv = func(v ssa.Value, d int) (float64, float64, bool) {
		v = strip(v, true)
		if d > 12 {
			return 0, 0, false
		}
		if k, ok := constFloat(v); ok {
			return k, k, true
		}
		switch x := v.(type) {
		case *ssa.Call:
			if c := p.CallOf(x); c != nil && (c.Name == "math/rand.Float64" || c.Name == "(*math/rand.Rand).Float64" || c.Name == "math/rand/v2.Float64") {
				return 0, 1, true
			}
			// the random source reached through a parameter / field / variable that denotes rand.Float64
			callee := strip(x.Call.Value, false)
			fv := p.constFuncOf(callee)
			if fv == nil && env != nil {
				fv = env[callee]
			}
			if fv != nil && fv.Pkg != nil && strings.HasPrefix(fv.Pkg.Pkg.Path(), "math/rand") && fv.Name() == "Float64" {
				return 0, 1, true
			}
		case *ssa.Convert:
			return iv(x.X, d+1)
		case *ssa.BinOp:
			l1, h1, ok1 := iv(x.X, d+1)
			l2, h2, ok2 := iv(x.Y, d+1)
			if !ok1 || !ok2 {
				return 0, 0, false
			}
			switch x.Op {
			case token.ADD:
				return l1 + l2, h1 + h2, true
			case token.SUB:
				return l1 - h2, h1 - l2, true
			case token.MUL:
				c := []float64{l1 * l2, l1 * h2, h1 * l2, h1 * h2}
				lo, hi := c[0], c[0]
				for _, y := range c {
					lo, hi = math.Min(lo, y), math.Max(hi, y)
				}
				return lo, hi, true
			case token.QUO:
				if l2 > 0 || h2 < 0 {
					c := []float64{l1 / l2, l1 / h2, h1 / l2, h1 / h2}
					lo, hi := c[0], c[0]
					for _, y := range c {
						lo, hi = math.Min(lo, y), math.Max(hi, y)
					}
					return lo, hi, true
				}
			}
		}
		return 0, 0, false
	}
	_, hi, ok := iv(v, 0)
	if !ok {
		return "its range cannot be computed: " + valueString(v)
	}
	if hi > 1 {
		return fmt.Sprintf("it can be as large as %g", hi)
	}
	return ""
}
