package main

// Memory effects: every read / write of a struct field (and of what a pointer / map / slice field points
// to) in a function, resolved from SSA. sync/atomic operations are recognised as atomic accesses.

import (
	"go/token"
	"go/types"
	"strings"

	"gclverify/xt/ssa"
)

type FieldAccess struct {
	Field    FieldRef
	Base     ssa.Value // the object whose field is accessed (address or pointer value)
	Write    bool
	Atomic   bool
	AtomicOp string // Load, Store, Add, Swap, CompareAndSwap
	Pointee  bool   // the access is to what the field refers to (pointer target, map / slice / list contents)
	Val      ssa.Value
	Instr    ssa.Instruction
	Whole    bool // part of a whole-struct copy
	Via      string
}

func atomicOpOf(name string) string {
	if !strings.HasPrefix(name, "sync/atomic.") {
		return ""
	}
	n := strings.TrimPrefix(name, "sync/atomic.")
	for _, op := range []string{"CompareAndSwap", "Load", "Store", "Add", "Swap", "And", "Or"} {
		if strings.HasPrefix(n, op) {
			return op
		}
	}
	return ""
}

// readonly methods of external container types held in fields
var externalReadOnly = map[string]bool{
	"(*container/list.List).Len": true, "(*container/list.List).Front": true, "(*container/list.List).Back": true,
}

// external types documented as safe for concurrent use (one line of reason each)
var externalSafeTypes = map[string]string{
	"github.com/DataDog/datadog-go/v5/statsd.Client": "datadog-go documents statsd.Client as safe for concurrent use by multiple goroutines",
}

func externalConcurrencySafe(t types.Type) bool {
	if pt, ok := t.(*types.Pointer); ok {
		t = pt.Elem()
	}
	nt, ok := t.(*types.Named)
	if !ok || nt.Obj().Pkg() == nil {
		return false
	}
	_, safe := externalSafeTypes[nt.Obj().Pkg().Path()+"."+nt.Obj().Name()]
	return safe
}

// fieldPointerLoad: v is a load of a pointer/map/slice/interface-valued field; returns the field and base.
func fieldPointerLoad(v ssa.Value) (FieldRef, ssa.Value, bool) {
	v = strip(v, false)
	u, ok := v.(*ssa.UnOp)
	if !ok || u.Op != token.MUL {
		return FieldRef{}, nil, false
	}
	fa, ok := u.X.(*ssa.FieldAddr)
	if !ok {
		return FieldRef{}, nil, false
	}
	fr, base, ok := fieldOf(fa)
	return fr, base, ok
}

// atomicTarget: the field an atomic operation works on - its argument is the address of the field (&x.f, or x.f for a
// typed atomic) or the pointer loaded from a pointer-typed field.
func atomicTarget(arg ssa.Value) (FieldRef, ssa.Value, bool) {
	if fa, ok := strip(arg, false).(*ssa.FieldAddr); ok {
		return fieldOf(fa)
	}
	return fieldPointerLoad(arg)
}

func isSyncOrAtomicNamed(t types.Type) bool {
	if pt, ok := t.(*types.Pointer); ok {
		t = pt.Elem()
	}
	nt, ok := t.(*types.Named)
	if !ok || nt.Obj().Pkg() == nil {
		return false
	}
	pp := nt.Obj().Pkg().Path()
	return pp == "sync" || pp == "sync/atomic"
}

// Accesses lists the field accesses performed directly by fn (callees are not followed).
func (p *Prog) Accesses(fn *ssa.Function) []FieldAccess {
	var out []FieldAccess
	add := func(a FieldAccess) {
		if a.Field.Type == nil {
			return
		}
		out = append(out, a)
	}
	for _, b := range fn.Blocks {
		for _, ins := range b.Instrs {
			switch x := ins.(type) {
			case *ssa.Store:
				switch a := x.Addr.(type) {
				case *ssa.FieldAddr:
					fr, base, ok := fieldOf(a)
					if ok {
						add(FieldAccess{Field: fr, Base: base, Write: true, Val: x.Val, Instr: ins})
					}
				case *ssa.IndexAddr:
					if fr, base, ok := fieldPointerLoad(a.X); ok {
						add(FieldAccess{Field: fr, Base: base, Write: true, Pointee: true, Val: x.Val, Instr: ins, Via: "element store"})
					}
				default:
					if fr, base, ok := fieldPointerLoad(x.Addr); ok {
						add(FieldAccess{Field: fr, Base: base, Write: true, Pointee: true, Val: x.Val, Instr: ins, Via: "store through pointer field"})
					}
				}
			case *ssa.UnOp:
				if x.Op != token.MUL {
					continue
				}
				switch a := x.X.(type) {
				case *ssa.FieldAddr:
					fr, base, ok := fieldOf(a)
					if ok && !isSyncOrAtomicNamed(x.Type()) {
						add(FieldAccess{Field: fr, Base: base, Instr: ins})
					}
				case *ssa.IndexAddr:
					if fr, base, ok := fieldPointerLoad(a.X); ok {
						add(FieldAccess{Field: fr, Base: base, Pointee: true, Instr: ins, Via: "element load"})
					}
				default:
					if fr, base, ok := fieldPointerLoad(x.X); ok {
						add(FieldAccess{Field: fr, Base: base, Pointee: true, Instr: ins, Via: "load through pointer field"})
					}
				}
				// whole-struct copy through a pointer: reads every field of the struct
				if st, ok := x.Type().Underlying().(*types.Struct); ok {
					if nt, ok := x.Type().(*types.Named); ok && !isSyncOrAtomicNamed(nt) {
						if _, isAlloc := x.X.(*ssa.Alloc); !isAlloc {
							for i := 0; i < st.NumFields(); i++ {
								if isSyncOrAtomicNamed(st.Field(i).Type()) {
									continue
								}
								add(FieldAccess{Field: FieldRef{Type: nt, Index: i, Name: st.Field(i).Name()}, Base: x.X, Instr: ins, Whole: true, Via: "whole-struct copy"})
							}
						}
					}
				}
			case *ssa.MapUpdate:
				if fr, base, ok := fieldPointerLoad(x.Map); ok {
					add(FieldAccess{Field: fr, Base: base, Write: true, Pointee: true, Val: x.Value, Instr: ins, Via: "map update"})
				}
			case *ssa.Lookup:
				if fr, base, ok := fieldPointerLoad(x.X); ok {
					add(FieldAccess{Field: fr, Base: base, Pointee: true, Instr: ins, Via: "map lookup"})
				}
			case *ssa.Range:
				if fr, base, ok := fieldPointerLoad(x.X); ok {
					add(FieldAccess{Field: fr, Base: base, Pointee: true, Instr: ins, Via: "range"})
				}
			case *ssa.Slice:
				if fr, base, ok := fieldPointerLoad(x.X); ok {
					add(FieldAccess{Field: fr, Base: base, Pointee: true, Instr: ins, Via: "slice"})
				}
			case ssa.CallInstruction:
				c := p.CallOf(ins)
				if c == nil {
					continue
				}
				if op := atomicOpOf(c.Name); op != "" && len(c.Args) > 0 {
					w := op != "Load"
					var val ssa.Value
					if len(c.Args) > 1 {
						val = c.Args[len(c.Args)-1]
					}
					switch a := c.Args[0].(type) {
					case *ssa.FieldAddr:
						fr, base, ok := fieldOf(a)
						if ok {
							add(FieldAccess{Field: fr, Base: base, Write: w, Atomic: true, AtomicOp: op, Val: val, Instr: ins})
						}
					default:
						if fr, base, ok := fieldPointerLoad(c.Args[0]); ok {
							add(FieldAccess{Field: fr, Base: base, Write: w, Atomic: true, AtomicOp: op, Pointee: true, Val: val, Instr: ins})
						}
					}
					continue
				}
				if strings.HasPrefix(c.Name, "builtin.") {
					switch c.Name {
					case "builtin.delete":
						if len(c.Args) > 0 {
							if fr, base, ok := fieldPointerLoad(c.Args[0]); ok {
								add(FieldAccess{Field: fr, Base: base, Write: true, Pointee: true, Instr: ins, Via: "delete"})
							}
						}
					case "builtin.append", "builtin.copy":
						for i, a := range c.Args {
							if fr, base, ok := fieldPointerLoad(a); ok {
								// append writes into the backing array of its first argument whenever that has spare capacity
								// (cap > len): on a slice other goroutines can reach it is a write, whether or not the result is stored back
								add(FieldAccess{Field: fr, Base: base, Write: i == 0, Pointee: true, Instr: ins, Via: c.Name})
							}
						}
					}
					continue
				}
				// method call on an external (non-module, non-sync) object held in a field
				if c.Static != nil && c.Recv != nil && !p.InModule(c.Static) {
					if fr, base, ok := fieldPointerLoad(c.Recv); ok && !isSyncOrAtomicNamed(c.Recv.Type()) && !externalConcurrencySafe(c.Recv.Type()) {
						if _, isPtr := c.Recv.Type().Underlying().(*types.Pointer); isPtr {
							add(FieldAccess{Field: fr, Base: base, Write: !externalReadOnly[c.Name], Pointee: true, Instr: ins, Via: c.Name})
						}
					}
				}
			}
		}
	}
	return out
}

// freshBase reports whether the access is to an object allocated in the same function (constructor context).
func freshBase(a FieldAccess) bool {
	root := AccessPath(a.Base).Root
	if _, ok := root.(*ssa.Alloc); ok {
		return true
	}
	// the object a constructor just returned (l := NewBlockingLimiter(...); l.name = name; return l) is as fresh as
	// one allocated here
	if call, ok := root.(*ssa.Call); ok && curProg != nil {
		return curProg.returnsFresh(call.Call.StaticCallee(), 2)
	}
	return false
}

// returnsFresh: every return of g yields (the address of) an object g allocated itself, or what another such function
// returned (a method that returns part of its receiver returns a field address or a loaded value, not an allocation).
func (p *Prog) returnsFresh(g *ssa.Function, depth int) bool {
	if g == nil || g.Blocks == nil || !p.InModule(g) || depth < 0 {
		return false
	}
	if p.freshFn == nil {
		p.freshFn = map[*ssa.Function]bool{}
	}
	if v, ok := p.freshFn[g]; ok {
		return v
	}
	p.freshFn[g] = false
	ok := true
	n := 0
	allInstrs(g, func(ins ssa.Instruction) {
		ret, isR := ins.(*ssa.Return)
		if !isR || len(ret.Results) == 0 {
			return
		}
		n++
		seen := map[ssa.Value]bool{}
		var fresh func(v ssa.Value, d int) bool
		fresh = func(v ssa.Value, d int) bool {
			v = strip(v, false)
			if d > 6 || seen[v] {
				return true
			}
			seen[v] = true
			switch x := v.(type) {
			case *ssa.Alloc:
				return true
			case *ssa.Const:
				return x.Value == nil
			case *ssa.Phi:
				for _, e := range x.Edges {
					if !fresh(e, d+1) {
						return false
					}
				}
				return true
			case *ssa.Call:
				return p.returnsFresh(x.Call.StaticCallee(), depth-1)
			case *ssa.MakeInterface:
				return fresh(x.X, d+1)
			}
			return false
		}
		if !fresh(ret.Results[0], 0) {
			ok = false
		}
	})
	p.freshFn[g] = ok && n > 0
	return ok && n > 0
}

// Constructors returns the functions of T's package that allocate a T and return it (or its address).
func (p *Prog) Constructors(nt *types.Named) []*ssa.Function {
	var out []*ssa.Function
	for _, f := range p.Funcs {
		if f.Parent() != nil || nt.Obj().Pkg() == nil || f.Pkg == nil || f.Pkg.Pkg != nt.Obj().Pkg() {
			continue
		}
		res := f.Signature.Results()
		returnsT := false
		for i := 0; i < res.Len(); i++ {
			if d := derefNamed(res.At(i).Type()); d != nil && types.Identical(d, nt) {
				returnsT = true
			}
		}
		if !returnsT {
			continue
		}
		if p.allocOf(f, nt) != nil {
			out = append(out, f)
		}
	}
	return out
}

// allocOf returns the Alloc instructions of type T in f.
func (p *Prog) allocOf(f *ssa.Function, nt *types.Named) *ssa.Alloc {
	var found *ssa.Alloc
	allInstrs(f, func(ins ssa.Instruction) {
		if al, ok := ins.(*ssa.Alloc); ok {
			if d := derefNamed(al.Type()); d != nil && types.Identical(d, nt) {
				if found == nil {
					found = al
				}
			}
		}
	})
	return found
}

func (p *Prog) allocsOf(f *ssa.Function, nt *types.Named) []*ssa.Alloc {
	var found []*ssa.Alloc
	allInstrs(f, func(ins ssa.Instruction) {
		if al, ok := ins.(*ssa.Alloc); ok {
			if pt, ok := al.Type().(*types.Pointer); ok {
				if d, ok := pt.Elem().(*types.Named); ok && types.Identical(d, nt) {
					found = append(found, al)
				}
			}
		}
	})
	return found
}

// storesInto returns, for a fresh object (Alloc), the value stored into the given field (last store wins
// in block order; constructors here initialise each field once).
func storesInto(al *ssa.Alloc, field FieldRef) []ssa.Value {
	var vals []ssa.Value
	refs := al.Referrers()
	if refs == nil {
		return nil
	}
	for _, r := range *refs {
		fa, ok := r.(*ssa.FieldAddr)
		if !ok || fa.Field != field.Index {
			continue
		}
		if fr := fa.Referrers(); fr != nil {
			for _, u := range *fr {
				if st, ok := u.(*ssa.Store); ok && st.Addr == ssa.Value(fa) {
					vals = append(vals, st.Val)
				}
			}
		}
	}
	return vals
}

// Delta is a counter update: field (or what a pointer field points to) changed by a constant.
type Delta struct {
	Field   FieldRef
	Base    ssa.Value
	Pointee bool
	Atomic  bool
	By      int64
	Instr   ssa.Instruction
	Result  ssa.Value // value of the counter after the update (atomic.Add result, or the stored sum)
}

// DeltaOf recognises x.f++, x.f--, x.f += k, atomic.AddIntN(&x.f | x.p, k).
func (p *Prog) DeltaOf(ins ssa.Instruction) (Delta, bool) {
	switch x := ins.(type) {
	case *ssa.Store:
		fa, ok := x.Addr.(*ssa.FieldAddr)
		if !ok {
			return Delta{}, false
		}
		fr, base, _ := fieldOf(fa)
		bo, ok := strip(x.Val, false).(*ssa.BinOp)
		if !ok || (bo.Op != token.ADD && bo.Op != token.SUB) {
			return Delta{}, false
		}
		k, isC := constInt(bo.Y)
		old := bo.X
		if !isC && bo.Op == token.ADD {
			k, isC = constInt(bo.X)
			old = bo.Y
		}
		if !isC {
			return Delta{}, false
		}
		f2, b2, ok := loadedField(strip(old, false))
		if !ok || !sameField(fr, f2) || AccessPath(b2).String() != AccessPath(base).String() {
			return Delta{}, false
		}
		if bo.Op == token.SUB {
			k = -k
		}
		return Delta{Field: fr, Base: base, By: k, Instr: ins, Result: x.Val}, true
	case *ssa.Call:
		c := p.CallOf(x)
		if atomicOpOf(c.Name) != "Add" || len(c.Args) != 2 {
			return Delta{}, false
		}
		k, isC := constInt(c.Args[1])
		if !isC {
			return Delta{}, false
		}
		if fa, ok := c.Args[0].(*ssa.FieldAddr); ok {
			fr, base, _ := fieldOf(fa)
			return Delta{Field: fr, Base: base, Atomic: true, By: k, Instr: ins, Result: x}, true
		}
		if fr, base, ok := fieldPointerLoad(c.Args[0]); ok {
			return Delta{Field: fr, Base: base, Pointee: true, Atomic: true, By: k, Instr: ins, Result: x}, true
		}
		// captured pointer (closure over *int32)
		return Delta{}, false
	}
	return Delta{}, false
}

// FieldImmutable: the field is written only through freshly allocated objects (constructors / literals) and its address
// is never taken for anything but a plain load or such a store: after construction every load of it through the same
// object yields the same value, whatever other goroutines do.
func (p *Prog) FieldImmutable(f FieldRef) bool {
	if f.Type == nil {
		return false
	}
	if p.immutableField == nil {
		p.immutableField = map[string]bool{}
	}
	key := p.FieldKey(f)
	if v, ok := p.immutableField[key]; ok {
		return v
	}
	res := true
	for _, fn := range p.Funcs {
		for _, b := range fn.Blocks {
			for _, ins := range b.Instrs {
				fa, ok := ins.(*ssa.FieldAddr)
				if !ok || fa.Field != f.Index {
					continue
				}
				fr, base, ok := fieldOf(fa)
				if !ok || !sameField(fr, f) {
					continue
				}
				refs := fa.Referrers()
				if refs == nil {
					continue
				}
				for _, r := range *refs {
					switch x := r.(type) {
					case *ssa.UnOp:
						if x.Op != token.MUL {
							res = false
						}
					case *ssa.Store:
						if x.Addr != ssa.Value(fa) {
							res = false // the field's address is stored somewhere
						} else if _, fresh := AccessPath(base).Root.(*ssa.Alloc); !fresh {
							res = false
						}
					case *ssa.DebugRef:
					default:
						res = false
					}
				}
			}
		}
	}
	if res {
		// whole-struct assignment through a non-fresh pointer (*x = y) also rewrites the field
		for _, fn := range p.Funcs {
			for _, b := range fn.Blocks {
				for _, ins := range b.Instrs {
					st, ok := ins.(*ssa.Store)
					if !ok {
						continue
					}
					if _, isFA := st.Addr.(*ssa.FieldAddr); isFA {
						continue
					}
					if d := derefNamed(st.Addr.Type()); d != nil && types.Identical(d, f.Type) {
						if _, fresh := AccessPath(st.Addr).Root.(*ssa.Alloc); !fresh {
							res = false
						}
					}
				}
			}
		}
	}
	p.immutableField[key] = res
	return res
}
