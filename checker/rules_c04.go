package main

import (
	"fmt"
	"go/token"
	"go/types"
	"sort"
	"strings"

	"gclverify/xt/ssa"
)

func init() {
	register("C04", &ruleSet{
		run:    runC04,
		floors: map[string]int{"O1": 6, "O2": 8, "O3": 3, "O4": 2},
		explain: "Decides three necessary clauses in real arithmetic (IEEE rounding and integer overflow are NOT modelled): (O1) clamp on every store: for AIMD, Vegas, " +
			"Gradient and Gradient2 every post-construction store of the estimate is proved, on every path, >= 1 and >= the configured minimum, and <= max(configured maximum, " +
			"old estimate), from the algebra of math.Max/Min, the smoothing idiom with 0 <= smoothing <= 1 (itself proved from the constructor's normalisation), branch facts, and " +
			"the configuration assumptions the property grants (min <= max, queue allowance <= max, initial >= min) plus the inductive hypothesis on the old estimate; " +
			"(O2) no unguarded NaN / zero-divide source: every float or integer division and every math.Sqrt / math.Log10 in the limit algorithms, limit/functions and the " +
			"measurements the limits instantiate has its divisor proved != 0 (argument >= 0, > 0) at that point, using facts of the single call site of unexported helpers; NaN " +
			"propagation is not tracked - guarding the sources is the necessary condition; (O3) every index into the pre-computed tables is proved >= 0 and < len(table); " +
			"(O4) the windowed and traced wrappers report exactly the delegate's estimate (imported from C16). O2 also covers the module functions the sample path calls outside those packages (core's common metric sampler). When EstimatedLimit serves an atomically published copy of the estimate, O1 additionally requires every store of the estimate to be followed by a store of the copy before its function returns.",
	})
}

type c04Algo struct {
	T      *types.Named
	Est    FieldRef
	Float  bool
	Max    *FieldRef
	Min    *FieldRef
	Smooth *FieldRef
}

func c04Algos(p *Prog, l *Ledger) []*c04Algo {
	var out []*c04Algo
	for _, T := range p.Implementers(p.coreIface("Limit")) {
		info, _ := p.EstimateOf(T)
		if info == nil || info.Delegate != nil || !info.Field.Valid() {
			continue
		}
		// only the adaptive algorithms: the estimate is written by OnSample or by what OnSample calls (a limit that is
		// only ever set from outside - SetLimit, an update function applied on request - reports what it was given)
		written := false
		if on := p.Method(T, "OnSample"); on != nil {
			reach := map[*ssa.Function]bool{on: true}
			work := []*ssa.Function{on}
			for d := 0; d < 5 && len(work) > 0; d++ {
				var next []*ssa.Function
				for _, g := range work {
					allInstrs(g, func(ins ssa.Instruction) {
						if mc, ok := ins.(*ssa.MakeClosure); ok {
							if cf, ok := mc.Fn.(*ssa.Function); ok && !reach[cf] {
								reach[cf] = true
								next = append(next, cf)
							}
						}
						if c := p.CallOf(ins); c != nil && c.Static != nil && c.Static.Blocks != nil && p.InModule(c.Static) && !reach[c.Static] {
							reach[c.Static] = true
							next = append(next, c.Static)
						}
					})
				}
				work = next
			}
			for f := range reach {
				for _, a := range p.Accesses(f) {
					if a.Write && sameField(a.Field, info.Field) && !freshBase(a) {
						written = true
					}
				}
			}
		}
		if !written {
			continue
		}
		a := &c04Algo{T: T, Est: info.Field, Float: info.FloatInt}
		if info.Published != nil && l != nil && l.Prop == "C04" {
			c04PublishedCopy(p, l, T, info)
		}
		st := T.Underlying().(*types.Struct)
		for i := 0; i < st.NumFields(); i++ {
			n := strings.ToLower(st.Field(i).Name())
			fr := FieldRef{T, i, st.Field(i).Name()}
			switch {
			case n == "maxlimit":
				f := fr
				a.Max = &f
			case n == "minlimit":
				f := fr
				a.Min = &f
			case n == "smoothing":
				f := fr
				a.Smooth = &f
			}
		}
		out = append(out, a)
	}
	return out
}

// c04Axioms installs the inductive hypothesis and the configuration assumptions for one algorithm; returns the
// upper-bound atom U (U >= old estimate, U >= maxLimit) and the list of assumptions used.
func c04Axioms(p *Prog, pr *prover, a *c04Algo, pa *Path, l *Ledger) Term {
	est := atomField(a.Est)
	pr.axiomGE(est, atomConst(1)) // inductive hypothesis
	U := atomLabel("U=max(maxLimit, old estimate)")
	pr.axiomGE(U, est)
	if a.Min != nil {
		pr.axiomGE(est, atomField(*a.Min)) // inductive hypothesis (initial >= min is granted by the property)
		if p.ImmutableFieldBound(*a.Min, 1, false) {
			pr.axiomGE(atomField(*a.Min), atomConst(1))
		}
	}
	if a.Max != nil {
		pr.axiomGE(U, atomField(*a.Max))
		if a.Min != nil {
			pr.axiomGE(atomField(*a.Max), atomField(*a.Min)) // valid configuration: min <= max
		}
	}
	if a.Smooth != nil {
		// valid configuration granted by the property: smoothing in (0,1] (the constructors also normalise it)
		pr.axiomGE(atomField(*a.Smooth), atomConst(0))
		pr.axiomLE(atomField(*a.Smooth), atomConst(1))
	}
	// other immutable numeric fields normalised by the constructor (increaseBy >= 1, backOffRatio ...)
	st := a.T.Underlying().(*types.Struct)
	for i := 0; i < st.NumFields(); i++ {
		fr := FieldRef{a.T, i, st.Field(i).Name()}
		if !isNumeric(st.Field(i).Type()) || sameField(fr, a.Est) {
			continue
		}
		if p.cachedImmutableGE(fr, 1) {
			pr.axiomGE(atomField(fr), atomConst(1))
		} else if p.cachedImmutableGE(fr, 0) {
			pr.axiomGE(atomField(fr), atomConst(0))
		}
	}
	// queue allowance: results of function-typed fields named queue* called on the path: 0 <= q <= maxLimit (valid configuration)
	if pa != nil {
		pa.Each(func(step int, ins ssa.Instruction) bool {
			call, ok := ins.(*ssa.Call)
			if !ok {
				return true
			}
			c := p.CallOf(call)
			if c.Name != "dynamic" {
				return true
			}
			if fr, _, ok := loadedField(strip(c.FnVal, false)); ok && strings.Contains(strings.ToLower(fr.Name), "queue") {
				pr.axiomGE(atomVal(call), atomConst(0))
				pr.axiomGE(U, atomVal(call))
				if a.Max != nil {
					pr.axiomLE(atomVal(call), atomField(*a.Max))
				}
			}
			return true
		})
	}
	return U
}

var immCache = map[string]bool{}

func (p *Prog) cachedImmutableGE(f FieldRef, k float64) bool {
	key := fmt.Sprintf("%s>=%g@%p", p.FieldKey(f), k, p)
	if v, ok := immCache[key]; ok {
		return v
	}
	v := p.ImmutableFieldBound(f, k, false)
	immCache[key] = v
	return v
}

func runC04(p *Prog, l *Ledger) {
	l.Rule("O1", "clamp on every store: every post-construction store of the estimate is proved >= 1, >= minLimit and <= max(maxLimit, old estimate) on every path")
	l.Rule("O2", "no unguarded NaN / zero-divide source: divisors proved != 0, Sqrt arguments >= 0, Log10 arguments > 0, at every such operation reachable from OnSample")
	l.Rule("O3", "table index in range: every index into a pre-computed lookup table is proved >= 0 and < len(table)")
	l.Rule("O4", "wrappers report exactly the delegate's estimate (decided by C16/O4 on the same tree)")
	l.NotCovered = []string{"IEEE rounding of the smoothing combination", "overflow of limit += increaseBy", "user-supplied alpha/beta/queue/increase/decrease functions (only the built-in defaults are analysed)", "NaN entering through a user measurement implementation", "NaN/Inf propagation (only the sources are guarded)"}
	l.Assume("valid configuration as granted by the property: minLimit <= maxLimit, queue allowance <= maxLimit, initial limit >= minLimit (>= 1), smoothing in (0,1]")
	l.Assume("inductive hypothesis: the old estimate satisfies the bounds being proved")
	l.Assume("the pre-computed tables are non-empty (their initialiser loops run >= 1000 times)")
	l.Assume("the no-load RTT baseline is >= 0 for non-negative samples")

	algos := c04Algos(p, l)
	if len(algos) < 4 {
		l.Infra("expected the four adaptive algorithms (AIMD, Vegas, Gradient, Gradient2), found %d", len(algos))
	}
	// ---------------- O1
	for _, a := range algos {
		for _, f := range p.Funcs {
			if f.Signature.Recv() == nil || derefNamed(f.Signature.Recv().Type()) != a.T {
				continue
			}
			var sites []FieldAccess
			for _, acc := range p.Accesses(f) {
				if acc.Write && sameField(acc.Field, a.Est) && !freshBase(acc) {
					sites = append(sites, acc)
				}
			}
			if len(sites) == 0 {
				continue
			}
			entry := p.EntryFacts(f)
			skeys := storeKeys(a.T, sites)
			for si, acc := range sites {
				key := fmt.Sprintf("%s/%s", p.Key(f), skeys[si])
				npaths := 0
				var bad []string
				_, trunc := EnumPaths(f, 400000, func(pa *Path) bool {
					st := pa.StepOf(acc.Instr)
					if st < 0 || !pa.IsReturn() {
						return true
					}
					npaths++
					pr := &prover{p: p, pa: pa, step: st, entry: entry}
					U := c04Axioms(p, pr, a, pa, l)
					v := acc.Val
					if !pr.GE(v, atomConst(1)) {
						bad = append(bad, fmt.Sprintf("not proved >= 1 (%s) on %s", pr.why, joinWitness(p.DescribePath(pa))))
					} else if a.Min != nil && !pr.GE(v, atomField(*a.Min)) {
						bad = append(bad, fmt.Sprintf("not proved >= %s (%s) on %s", a.Min.Name, pr.why, joinWitness(p.DescribePath(pa))))
					}
					if a.Max != nil {
						pr.budget = 6000
						if !pr.rel(U, atomVal(v), false, 0) {
							bad = append(bad, fmt.Sprintf("not proved <= max(%s, old estimate): %s on %s", a.Max.Name, operandString(pr.res(v)), joinWitness(p.DescribePath(pa))))
						}
					}
					return len(bad) < 2
				})
				l.Count("paths", npaths)
				if trunc {
					l.Unknown("O1", key, p.At(acc.Instr), "path enumeration truncated")
					continue
				}
				upper := "no configured maximum (only the lower clause applies)"
				if a.Max != nil {
					upper = "<= max(" + a.Max.Name + ", old)"
				}
				l.Check(len(bad) == 0 && npaths > 0, "O1", key, p.At(acc.Instr), fmt.Sprintf("%d paths; stored estimate proved >= 1%s, %s", npaths, map[bool]string{true: " and >= minLimit", false: ""}[a.Min != nil], upper),
					"the estimate can leave its bounds", bad...)
			}
		}
		// constructor establishes the hypothesis where it normalises its parameter
		for _, c := range p.Constructors(a.T) {
			al := p.allocOf(c, a.T)
			for _, v := range storesInto(al, a.Est) {
				st := valueStoreInstr(al, a.Est, v)
				okAll, n := true, 0
				EnumPaths(c, 400000, func(pa *Path) bool {
					if st == nil || !pa.Contains(st) || !pa.IsReturn() {
						return true
					}
					n++
					pr := &prover{p: p, pa: pa, step: pa.StepOf(st)}
					if !pr.GE(v, atomConst(1)) {
						okAll = false
					}
					return okAll
				})
				if okAll && n > 0 {
					l.OK("O1", p.Key(c)+"/initial", p.FuncPos(c), "the constructor normalises the initial estimate to >= 1")
				} else {
					l.Note("%s takes its initial estimate as given (covered by the property's valid-configuration assumption)", p.Key(c))
				}
			}
		}
	}

	c04Sources(p, l)
	importObligations(p, l, "C16", "O4", func(o *Obligation) bool { return o.Rule == "O4" })
}

// c04Scope: functions whose arithmetic can run during a built-in limit's OnSample.
func c04Scope(p *Prog) []*ssa.Function {
	inst := map[*types.Named]bool{}
	for _, f := range p.Funcs {
		if !p.InPkg(f, "limit") {
			continue
		}
		allInstrs(f, func(ins ssa.Instruction) {
			if al, ok := ins.(*ssa.Alloc); ok {
				if d := derefNamed(al.Type()); d != nil && d.Obj().Pkg() != nil && p.relPkg(d.Obj().Pkg().Path()) == "measurements" {
					inst[d] = true
				}
			}
			if call, ok := ins.(*ssa.Call); ok {
				if c := p.CallOf(call); c.Static != nil && p.InPkg(c.Static, "measurements") {
					res := c.Static.Signature.Results()
					for i := 0; i < res.Len(); i++ {
						if d := derefNamed(res.At(i).Type()); d != nil {
							inst[d] = true
						}
					}
				}
			}
		})
	}
	var out []*ssa.Function
	for _, f := range p.Funcs {
		name := f.Name()
		if strings.HasPrefix(name, "init") || strings.HasPrefix(f.Synthetic, "package initializer") {
			continue
		}
		root := f
		for root.Parent() != nil {
			root = root.Parent()
		}
		if strings.HasPrefix(root.Name(), "init") {
			continue
		}
		switch p.PkgOf(f) {
		case "limit", "limit/functions":
			// constructors only run once, before any sample
			if strings.HasPrefix(root.Name(), "New") && f == root {
				continue
			}
			out = append(out, f)
		case "measurements":
			if root.Signature.Recv() != nil {
				if d := derefNamed(root.Signature.Recv().Type()); d != nil && inst[d] {
					out = append(out, f)
				}
			} else if !strings.HasPrefix(root.Name(), "New") {
				out = append(out, f) // package helpers such as factor()
			}
		}
	}
	// what those functions call elsewhere in the module runs on the sample path too (the common metric sampler of
	// package core is the first thing every OnSample calls)
	in := map[*ssa.Function]bool{}
	for _, f := range out {
		in[f] = true
	}
	for i := 0; i < len(out); i++ {
		allInstrs(out[i], func(ins ssa.Instruction) {
			c := p.CallOf(ins)
			if c == nil || c.Static == nil || c.Static.Blocks == nil || in[c.Static] || !p.InModule(c.Static) {
				return
			}
			switch p.PkgOf(c.Static) {
			case "limit", "limit/functions", "measurements":
				return // selected above (or deliberately left out: constructors)
			}
			in[c.Static] = true
			out = append(out, c.Static)
		})
	}
	sort.Slice(out, func(i, j int) bool { return p.Key(out[i]) < p.Key(out[j]) })
	return out
}

func c04Sources(p *Prog, l *Ledger) {
	callSiteAxioms = c04SourceAxioms
	nsrc := 0
	for _, f := range c04Scope(p) {
		entry := p.EntryFacts(f)
		idx := 0
		for _, b := range f.Blocks {
			for _, ins := range b.Instrs {
				kind := ""
				var operand ssa.Value
				switch x := ins.(type) {
				case *ssa.BinOp:
					if x.Op == token.QUO || x.Op == token.REM {
						if _, isC := constFloat(x.Y); isC {
							if c, _ := constFloat(x.Y); c != 0 {
								continue
							}
						}
						kind, operand = "divisor != 0", x.Y
					}
				case *ssa.Call:
					c := p.CallOf(x)
					switch c.Name {
					case "math.Sqrt":
						kind, operand = "sqrt argument >= 0", c.Args[0]
					case "math.Log10", "math.Log", "math.Log2":
						kind, operand = "log argument > 0", c.Args[0]
					}
				case *ssa.IndexAddr:
					// O3: index into a package-level table
					if u, ok := x.X.(*ssa.UnOp); ok {
						if g, ok := u.X.(*ssa.Global); ok && p.InModule(f) {
							c04Index(p, l, f, x, g, entry)
						}
					}
					continue
				}
				if kind == "" {
					continue
				}
				idx++
				nsrc++
				key := fmt.Sprintf("%s/%s#%d", p.Key(f), strings.Fields(kind)[0], idx)
				npaths := 0
				var bad []string
				EnumPathsPrefix(f, ins, 200000, func(pa *Path) bool {
					npaths++
					pr := &prover{p: p, pa: pa, step: len(pa.Blocks) - 1, entry: entry}
					c04SourceAxioms(p, pr, f, pa)
					if pr.Infeasible() {
						return true
					}
					ok := false
					switch {
					case strings.HasPrefix(kind, "divisor"):
						ok = pr.NonZero(operand)
					case strings.HasPrefix(kind, "sqrt"):
						ok = pr.GE(operand, atomConst(0))
					default:
						ok = pr.GT(operand, atomConst(0))
					}
					if !ok {
						bad = append(bad, fmt.Sprintf("%s not proved for %s on %s", kind, operandString(pr.res(operand)), joinWitness(p.DescribePath(pa))))
					}
					return len(bad) < 2
				})
				l.Check(len(bad) == 0 && npaths > 0, "O2", key, p.At(ins), fmt.Sprintf("%s proved on %d paths", kind, npaths), "a sample can produce NaN / Inf or a division panic here", bad...)
			}
		}
	}
	l.Count("nan_or_panic_sources", nsrc)
}

// c04SourceAxioms: sign invariants of counters, constructor-established bounds of immutable fields, table sizes,
// non-negative baseline.
func c04SourceAxioms(p *Prog, pr *prover, f *ssa.Function, pa *Path) {
	// fields of the receiver type
	root := f
	for root.Parent() != nil {
		root = root.Parent()
	}
	if root.Signature.Recv() != nil {
		if T := derefNamed(root.Signature.Recv().Type()); T != nil {
			if st, ok := T.Underlying().(*types.Struct); ok {
				for i := 0; i < st.NumFields(); i++ {
					fr := FieldRef{T, i, st.Field(i).Name()}
					if !isNumeric(st.Field(i).Type()) {
						continue
					}
					if p.cachedNonNeg(fr) {
						// holds for the current value at any point: every load of the field is >= 0
						pr.fieldGE = append(pr.fieldGE, fieldBound{fr, 0})
					}
					if p.cachedImmutableGE(fr, 1) {
						pr.fieldGE = append(pr.fieldGE, fieldBound{fr, 1})
					} else if p.cachedImmutableGE(fr, 0) {
						pr.fieldGE = append(pr.fieldGE, fieldBound{fr, 0})
					}
				}
			}
		}
	}
	// module helper parameters with a single call site are covered by entry facts; parameters of package helpers like
	// factor(n): bound from all call sites
	for _, prm := range f.Params {
		if isNumeric(prm.Type()) && f.Parent() == nil && !isExportedFunc(f) {
			if p.paramBoundAtCallSites(f, prm, 0, false) {
				pr.axiomGE(atomVal(prm), atomConst(0))
			}
		}
	}
	// tables are non-empty; baselines are non-negative
	pr.symGE = append(pr.symGE, symBound{"len(g(", 1}, symBound{"Get(f(", 0})
}

var nonNegCache = map[string]bool{}

func (p *Prog) cachedNonNeg(f FieldRef) bool {
	key := fmt.Sprintf("%s@%p", p.FieldKey(f), p)
	if v, ok := nonNegCache[key]; ok {
		return v
	}
	v := p.NonNegativeField(f)
	nonNegCache[key] = v
	return v
}

func c04Index(p *Prog, l *Ledger, f *ssa.Function, ia *ssa.IndexAddr, g *ssa.Global, entry []symFact) {
	key := fmt.Sprintf("%s/index:%s", p.Key(f), g.Name())
	npaths := 0
	var bad []string
	EnumPathsPrefix(f, ia, 100000, func(pa *Path) bool {
		npaths++
		pr := &prover{p: p, pa: pa, step: len(pa.Blocks) - 1, entry: entry}
		if !pr.GE(ia.Index, atomConst(0)) {
			bad = append(bad, fmt.Sprintf("index %s not proved >= 0 on %s", operandString(pr.res(ia.Index)), joinWitness(p.DescribePath(pa))))
		}
		// index < len(table): a fact "idx < len(g)" with the same symbolic operands
		si := pr.sym(ia.Index)
		okLen := false
		for _, r := range pa.Rels(len(pa.Blocks)) {
			for _, rr := range []Rel{r, {X: r.Y, Y: r.X, Op: flipOp(r.Op)}} {
				if rr.Op == token.LSS && pr.sym(rr.X) == si && si != "" && pr.sym(rr.Y) == "len(g("+g.Name()+"))" {
					okLen = true
				}
			}
		}
		if !okLen {
			bad = append(bad, fmt.Sprintf("index %s not proved < len(%s) on %s", operandString(pr.res(ia.Index)), g.Name(), joinWitness(p.DescribePath(pa))))
		}
		return len(bad) < 2
	})
	l.Check(len(bad) == 0 && npaths > 0, "O3", key, p.At(ia), fmt.Sprintf("0 <= index < len(%s) proved on %d paths", g.Name(), npaths), "a sample can index a lookup table out of range (panic)", bad...)
}

// c04PublishedCopy: EstimatedLimit serves an atomically published copy of the estimate. What is reported is the
// estimate only if every store of the estimate is followed, before its function returns, by a store of the copy (the
// copy's stores are conversions of the value just stored - publishedCopyOf). A store of the estimate that returns
// without publishing (a probe path that assigns the field directly) leaves readers on the old value.
func c04PublishedCopy(p *Prog, l *Ledger, T *types.Named, info *EstimateInfo) {
	key := p.TypeKey(T) + "/published-copy"
	if l.seenPublished == nil {
		l.seenPublished = map[string]bool{}
	}
	if l.seenPublished[key] {
		return
	}
	l.seenPublished[key] = true
	var bad []string
	n := 0
	for _, f := range p.Funcs {
		if !p.InModule(f) {
			continue
		}
		var stores []FieldAccess
		for _, a := range p.Accesses(f) {
			if a.Write && !a.Atomic && sameField(a.Field, info.Field) {
				stores = append(stores, a)
			}
		}
		if len(stores) == 0 {
			continue
		}
		isPub := func(ins ssa.Instruction) bool {
			for _, a := range p.Accesses(f) {
				if a.Instr == ins && a.Write && sameField(a.Field, *info.Published) {
					return true
				}
			}
			return false
		}
		EnumPaths(f, 100000, func(pa *Path) bool {
			if !pa.IsReturn() {
				return true
			}
			pending := ssa.Instruction(nil)
			pa.Each(func(step int, ins ssa.Instruction) bool {
				for _, s := range stores {
					if s.Instr == ins {
						pending = ins
						n++
					}
				}
				if pending != nil && isPub(ins) {
					pending = nil
				}
				return true
			})
			if pending != nil {
				bad = append(bad, fmt.Sprintf("%s: the estimate is stored and the function returns without publishing it: %s", p.At(pending), joinWitness(p.DescribePath(pa))))
			}
			return len(bad) < 3
		})
	}
	l.Check(len(bad) == 0 && n > 0, "O1", key, p.FuncPos(info.Fn), fmt.Sprintf("EstimatedLimit serves a published copy of %s; every store of the estimate (%d on the paths enumerated) is followed by a store of the copy before its function returns", info.Field.Name, n), "EstimatedLimit can report an estimate other than the one the algorithm holds", bad...)
}
