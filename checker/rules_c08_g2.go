package main

import (
	"fmt"
	"go/types"

	"gclverify/xt/ssa"
)

// c08LatestValueType: T's Add keeps exactly its argument and reports it (the "latest value" measurement, C18/O4): the one
// write to T's fields in Add stores the parameter itself and result 0 is the parameter or a re-read of that field.
func c08LatestValueType(p *Prog, nt *types.Named) bool {
	add := p.Method(nt, "Add")
	if add == nil || len(add.Params) != 2 || len(add.Blocks) == 0 {
		return false
	}
	n := 0
	var field FieldRef
	for _, a := range p.Accesses(add) {
		if a.Write && !a.Pointee && types.Identical(a.Field.Type, nt) {
			n++
			if strip(a.Val, false) != ssa.Value(add.Params[1]) {
				return false
			}
			field = a.Field
		}
	}
	if n != 1 {
		return false
	}
	ok := true
	allInstrs(add, func(ins ssa.Instruction) {
		ret, isRet := ins.(*ssa.Return)
		if !isRet || len(ret.Results) == 0 {
			return
		}
		r := strip(ret.Results[0], false)
		if r == ssa.Value(add.Params[1]) {
			return
		}
		if fr, _, isLoad := loadedField(r); isLoad && fr == field {
			return
		}
		ok = false
	})
	return ok
}

// c08LatestValueField: every value stored into the (interface-typed) field anywhere in the module is a pointer to a
// latest-value measurement.
func c08LatestValueField(p *Prog, fr FieldRef) bool {
	n := 0
	ok := true
	for _, f := range p.Funcs {
		for _, a := range p.Accesses(f) {
			if !a.Write || a.Pointee || a.Field != fr || a.Val == nil {
				continue
			}
			n++
			v := strip(a.Val, false)
			pt, isPtr := v.Type().Underlying().(*types.Pointer)
			if !isPtr {
				ok = false
				continue
			}
			nt, isNamed := pt.Elem().(*types.Named)
			if !isNamed || !c08LatestValueType(p, nt) {
				ok = false
			}
		}
	}
	return ok && n > 0
}

// c08Gradient2 (O8): Gradient2 divides a long-term average by the instantaneous RTT (a latest-value measurement hands the
// sample back unchanged). With the long-term average taken as given - the same proviso as for the baselines of Vegas and
// Gradient - every estimate stored on a non-drop path is a non-increasing function of the instantaneous RTT.
func c08Gradient2(p *Prog, l *Ledger) {
	for _, af := range algoFuncs(p, l) {
		if af.A.T.Obj().Name() != "Gradient2Limit" {
			continue
		}
		key := p.Key(af.Fn)
		if af.RTT == nil {
			// a method that stores the estimate but is not on the sample path (a reset, a setter) takes no RTT: nothing to decide
			if on := p.Method(af.A.T, "OnSample"); on != nil && af.Fn != on && !p.Reachable(on)[af.Fn] {
				continue
			}
			l.Unknown("O8", key, p.FuncPos(af.Fn), "cannot map OnSample's rtt parameter onto this function")
			continue
		}
		ident := map[ssa.Value]bool{}
		var identFields []string
		allInstrs(af.Fn, func(ins ssa.Instruction) {
			call, ok := ins.(*ssa.Call)
			if !ok || !call.Common().IsInvoke() || call.Common().Method.Name() != "Add" || len(call.Call.Args) != 1 {
				return
			}
			fr, _, ok := loadedField(strip(call.Call.Value, false))
			if !ok || fr.Type == nil || !types.Identical(fr.Type, af.A.T) || !c08LatestValueField(p, fr) {
				return
			}
			if refs := call.Referrers(); refs != nil {
				for _, r := range *refs {
					if ex, ok := r.(*ssa.Extract); ok && ex.Index == 0 {
						ident[ex] = true
					}
				}
			}
			identFields = append(identFields, p.FieldKey(fr))
		})
		var bad []string
		npaths, nstores := 0, 0
		_, trunc := EnumPaths(af.Fn, 400000, func(pa *Path) bool {
			if !pa.IsReturn() {
				return true
			}
			if af.Drop != nil {
				if d, known := pa.FactOn(af.Drop, len(pa.Blocks)); known && d {
					return true
				}
			}
			if c06BaselineReturn(p, pa) {
				return true
			}
			npaths++
			last := len(pa.Blocks) - 1
			pr := &prover{p: p, pa: pa, step: last, entry: af.Entry}
			c04Axioms(p, pr, af.A, pa, l)
			pr.axiomGE(atomField(af.A.Est), atomConst(0))
			pr.symGE = append(pr.symGE, symBound{"Get(f(", 0})
			pa.Each(func(step int, ins ssa.Instruction) bool {
				if call, ok := ins.(*ssa.Call); ok && call.Common().IsInvoke() {
					switch call.Common().Method.Name() {
					case "Get":
						pr.axiomGE(atomVal(call), atomConst(0))
					case "Add":
						if refs := call.Referrers(); refs != nil {
							for _, r := range *refs {
								if ex, ok := r.(*ssa.Extract); ok && ex.Index == 0 {
									pr.axiomGE(atomVal(ex), atomConst(0))
								}
							}
						}
					}
				}
				return true
			})
			ctx := &polCtx{pr: pr, rtt: af.RTT, memo: map[ssa.Value]int{}, ident: ident}
			for _, s := range af.Stores {
				if !pa.Contains(s.Instr) {
					continue
				}
				nstores++
				ctx.pr.step = pa.StepOf(s.Instr)
				if ps := ctx.pol(s.Val, 0); ps == polUp || ps == polMixed {
					bad = append(bad, fmt.Sprintf("%s: the stored estimate is %s in the instantaneous RTT on the path %s", p.At(s.Instr), polName(ps), joinWitness(p.DescribePath(pa))))
				}
			}
			return len(bad) < 3
		})
		if trunc {
			l.Unknown("O8", key, p.FuncPos(af.Fn), "path enumeration truncated")
			continue
		}
		l.Count("gradient2_paths", npaths)
		l.Check(len(bad) == 0 && npaths > 0, "O8", key, p.FuncPos(af.Fn),
			fmt.Sprintf("%d non-drop paths, %d estimate stores; the instantaneous RTT enters through %v; every stored estimate is a non-increasing function of it with the long-term average as given", npaths, nstores, identFields),
			"with the long-term average as given, a higher RTT can yield a higher estimate", bad...)
	}
}
