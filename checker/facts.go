package main

// E4 — guard facts. Branch facts of a path normalised to relations "X op Y", and a small bound prover
// over integer / float comparisons with constants.

import (
	"go/token"
	"math"

	"gclverify/xt/ssa"
)

type Rel struct {
	X, Y ssa.Value
	Op   token.Token // LSS LEQ GTR GEQ EQL NEQ — the relation that HOLDS
}

func negOp(op token.Token) token.Token {
	switch op {
	case token.LSS:
		return token.GEQ
	case token.LEQ:
		return token.GTR
	case token.GTR:
		return token.LEQ
	case token.GEQ:
		return token.LSS
	case token.EQL:
		return token.NEQ
	case token.NEQ:
		return token.EQL
	}
	return token.ILLEGAL
}

func flipOp(op token.Token) token.Token {
	switch op {
	case token.LSS:
		return token.GTR
	case token.LEQ:
		return token.GEQ
	case token.GTR:
		return token.LSS
	case token.GEQ:
		return token.LEQ
	}
	return op
}

// relOf turns a fact into the relation that holds on the path.
func relOf(f Fact) (Rel, bool) {
	b, ok := f.Cond.(*ssa.BinOp)
	if !ok {
		return Rel{}, false
	}
	switch b.Op {
	case token.LSS, token.LEQ, token.GTR, token.GEQ, token.EQL, token.NEQ:
	default:
		return Rel{}, false
	}
	op := b.Op
	if !f.True {
		op = negOp(op)
	}
	return Rel{X: b.X, Y: b.Y, Op: op}, true
}

// Rels lists the relations established on the path strictly before step (step<0: all).
func (pa *Path) Rels(before int) []Rel {
	var out []Rel
	for _, f := range pa.Facts {
		if before >= 0 && f.Step >= before {
			continue
		}
		if r, ok := relOf(f); ok {
			out = append(out, r)
		}
	}
	return out
}

// sameValue: identical SSA value modulo value-preserving conversions (integer widths included), or two
// loads of the same access path (value numbering of field loads is the caller's responsibility when a
// store may intervene).
func sameValue(a, b ssa.Value) bool {
	a, b = strip(a, true), strip(b, true)
	if a == b {
		return true
	}
	return false
}

func sameValueOrLoad(a, b ssa.Value) bool {
	if sameValue(a, b) {
		return true
	}
	a, b = strip(a, true), strip(b, true)
	ua, ok1 := a.(*ssa.UnOp)
	ub, ok2 := b.(*ssa.UnOp)
	if ok1 && ok2 && ua.Op == token.MUL && ub.Op == token.MUL {
		pa, pb := AccessPath(ua), AccessPath(ub)
		if len(pa.Sel) > 0 && pa.String() == pb.String() {
			return true
		}
	}
	return false
}

// IntLowerBound: the largest k such that the path facts (before step) imply v >= k, for integer v.
func (pa *Path) IntLowerBound(v ssa.Value, before int) (int64, bool) {
	best := int64(math.MinInt64)
	found := false
	upd := func(k int64) {
		if !found || k > best {
			best, found = k, true
		}
	}
	if c, ok := constInt(v); ok {
		return c, true
	}
	for _, r := range pa.Rels(before) {
		x, y, op := r.X, r.Y, r.Op
		if c, ok := constInt(x); ok && sameValue(y, v) {
			// c op v  ==> v flip(op) c
			x, y, op = y, x, flipOp(op)
			_ = c
		}
		if !sameValue(x, v) {
			continue
		}
		c, ok := constInt(y)
		if !ok {
			continue
		}
		switch op {
		case token.GEQ, token.EQL:
			upd(c)
		case token.GTR:
			upd(c + 1)
		}
	}
	return best, found
}

// IntUpperBound: the smallest k such that the path facts imply v <= k.
func (pa *Path) IntUpperBound(v ssa.Value, before int) (int64, bool) {
	best := int64(math.MaxInt64)
	found := false
	upd := func(k int64) {
		if !found || k < best {
			best, found = k, true
		}
	}
	if c, ok := constInt(v); ok {
		return c, true
	}
	for _, r := range pa.Rels(before) {
		x, y, op := r.X, r.Y, r.Op
		if _, ok := constInt(x); ok && sameValue(y, v) {
			x, y, op = y, x, flipOp(op)
		}
		if !sameValue(x, v) {
			continue
		}
		c, ok := constInt(y)
		if !ok {
			continue
		}
		switch op {
		case token.LEQ, token.EQL:
			upd(c)
		case token.LSS:
			upd(c - 1)
		}
	}
	return best, found
}

// HoldsRel reports whether the path established "x op y" (modulo flipping), with operands matched by match.
func (pa *Path) HoldsRel(before int, match func(r Rel) bool) bool {
	for _, r := range pa.Rels(before) {
		if match(r) {
			return true
		}
		if match(Rel{X: r.Y, Y: r.X, Op: flipOp(r.Op)}) {
			return true
		}
	}
	return false
}

// stepOf returns the first step at which the instruction occurs on the path, or -1.
func (pa *Path) StepOf(ins ssa.Instruction) int {
	b := ins.Block()
	for i, pb := range pa.Blocks {
		if pb == b {
			return i
		}
	}
	return -1
}

// Contains reports whether the instruction is on the path.
func (pa *Path) Contains(ins ssa.Instruction) bool { return pa.StepOf(ins) >= 0 }

// ResolveWidths resolves phis along the path and strips integer width conversions.
func (pa *Path) ResolveWidths(v ssa.Value, step int) ssa.Value {
	for i := 0; i < 16; i++ {
		n := strip(pa.Resolve(v, step), true)
		if n == v {
			return v
		}
		v = n
	}
	return v
}
