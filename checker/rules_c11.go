package main

import (
	"strconv"
	"sort"
	"fmt"
	"go/constant"
	"go/token"
	"go/types"
	"strings"

	"gclverify/xt/ssa"
)

func init() {
	register("C11", &ruleSet{
		run:    runC11,
		floors: map[string]int{"O1": 1, "O2": 3, "O3": 8, "O4": 1, "O5": 3, "O6": 5, "O7": 2},
		explain: "Decides structurally that the configured order reaches the queue and that the queue's two ends are used consistently: (O1) in the queue-limiter " +
			"constructor the backlog's ordering field is stored from the config's ordering field read after defaulting (a constant is a violation); (O2) if push " +
			"inserts at end P of the list, the FIFO case of the selection reads the opposite end and the LIFO case the same end, the selection is exhaustive over " +
			"the two ordering constants, and eviction removes exactly the selected list element under the queue mutex; (O3) FIFO-named constructors pass the FIFO " +
			"constant, LIFO-named ones the LIFO constant or rely on the default, ApplyDefaults maps the empty ordering to LIFO, and pool orderings map to the " +
			"like-named limiter orderings; (O4) peek, acquire, evict and deliver in unblock are one exclusive critical section of the limiter mutex. The observable " +
			"grant order additionally depends on arrival order = push order (C10) and on the scheduler; those are not decided here. Reused from sibling rules on the same tree: (O5) the line consists of the callers still waiting (C12/O2), (O6) freed capacity goes to the selected waiter (C10/O3, O5), (O7) a pool's limiter is the wrapper built from the pool constructor's own arguments (C19/O1).",
	})
}

// orderingConsts: value -> constant name for constants of the given named type in its package.
func constsOfType(pkg *types.Package, nt *types.Named) map[string]string {
	out := map[string]string{}
	for _, n := range pkg.Scope().Names() {
		if c, ok := pkg.Scope().Lookup(n).(*types.Const); ok && types.Identical(c.Type(), nt) {
			// several names for one value (const defaultQueueOrdering = OrderingLIFO): keep the one that spells the order
			k := c.Val().ExactString()
			old, seen := out[k]
			spells := func(s string) bool {
				u := strings.ToUpper(s)
				return strings.HasSuffix(u, "FIFO") || strings.HasSuffix(u, "LIFO") || strings.HasSuffix(u, "RANDOM")
			}
			if !seen || (!spells(old) && spells(n)) {
				out[k] = n
			}
		}
	}
	return out
}

func constName(v ssa.Value, names map[string]string) (string, bool) {
	c, ok := strip(v, false).(*ssa.Const)
	if !ok || c.Value == nil {
		return "", false
	}
	n, ok := names[c.Value.ExactString()]
	return n, ok
}

func isListElemPtr(t types.Type) bool {
	pt, ok := t.(*types.Pointer)
	if !ok {
		return false
	}
	nt, ok := pt.Elem().(*types.Named)
	return ok && nt.Obj().Pkg() != nil && nt.Obj().Pkg().Path() == "container/list" && nt.Obj().Name() == "Element"
}

func isListPtr(t types.Type) bool {
	pt, ok := t.(*types.Pointer)
	if !ok {
		return false
	}
	nt, ok := pt.Elem().(*types.Named)
	return ok && nt.Obj().Pkg() != nil && nt.Obj().Pkg().Path() == "container/list" && nt.Obj().Name() == "List"
}

func runC11(p *Prog, l *Ledger) {
	l.Rule("O1", "config reaches the backlog: the backlog's ordering field is stored from the config's ordering field, read after defaulting")
	l.Rule("O2", "ends agree: push inserts at one end; FIFO selection reads the opposite end, LIFO the same end; selection exhaustive over the two constants; eviction removes exactly the selected element under the queue mutex")
	l.Rule("O5", "the line is made of the callers still waiting (decided by the C12/O2 rule on the same tree): a caller that leaves Acquire has taken its own element out exactly once, so nobody who has gone keeps a place ahead of those still waiting")
	importObligations(p, l, "C12", "O5", func(o *Obligation) bool { return o.Rule == "O2" })
	l.Rule("O6", "the freed capacity goes to the selected waiter (decided by the C10/O3 and O5 rules on the same tree): every completion reaches the hand-off after the delegate has released, and the hand-off is one critical section with arrivals - otherwise the next arrival takes the capacity ahead of everybody queued")
	importObligations(p, l, "C10", "O6", func(o *Obligation) bool { return (o.Rule == "O3" || o.Rule == "O5") && (strings.Contains(o.Key, "limiter.Queue") || strings.Contains(o.Key, "limiter.queue")) })
	l.Rule("O3", "constructors and pools select the order their name states; the default ordering is LIFO")
	l.Rule("O7", "a pool's ordering is that of a queue limiter built for it (decided by the C19/O1 rule on the same tree): the pool's limiter is, on every path, the wrapper its constructor builds from its own arguments - a limiter taken from somewhere else (a cache keyed by the delegate, a shared instance) carries whatever ordering it was first built with")
	importObligations(p, l, "C19", "O7", func(o *Obligation) bool { return o.Rule == "O1" })
	l.Rule("O4", "unblock (peek, acquire for the waiter, evict, deliver) is one exclusive critical section of the limiter mutex")
	l.NotCovered = []string{"that arrival order equals push order (C10/O5a)", "scheduler effects on which woken caller proceeds first"}

	qo := p.Named("limiter", "QueueOrdering")
	if qo == nil {
		l.Infra("limiter.QueueOrdering not found")
		return
	}
	ordNames := constsOfType(p.TPkgs["limiter"], qo)
	var fifoVal, lifoVal string
	for v, n := range ordNames {
		if strings.HasSuffix(n, "FIFO") {
			fifoVal = v
		}
		if strings.HasSuffix(n, "LIFO") {
			lifoVal = v
		}
	}
	if fifoVal == "" || lifoVal == "" || len(ordNames) != 2 {
		l.Infra("expected exactly the FIFO and LIFO QueueOrdering constants, found %v", ordNames)
		return
	}
	// backlog type
	var backlog *types.Named
	var ordField, listField FieldRef
	for _, nt := range p.structTypes("limiter") {
		of := fieldsOfType(nt, qo)
		st := nt.Underlying().(*types.Struct)
		var lf []FieldRef
		for i := 0; i < st.NumFields(); i++ {
			if isListPtr(st.Field(i).Type()) {
				lf = append(lf, FieldRef{nt, i, st.Field(i).Name()})
			}
		}
		if len(of) == 1 && len(lf) == 1 {
			backlog, ordField, listField = nt, of[0], lf[0]
		}
	}
	if backlog == nil {
		l.Infra("no backlog struct (a QueueOrdering field plus a *list.List field) found in package limiter")
		return
	}
	// config type: exported struct with a QueueOrdering field
	var cfgT *types.Named
	var cfgOrd FieldRef
	for _, nt := range p.structTypes("limiter") {
		if nt == backlog || !nt.Obj().Exported() {
			continue
		}
		if of := fieldsOfType(nt, qo); len(of) == 1 && len(fieldsOfType(nt, types.NewPointer(backlog))) == 0 {
			cfgT, cfgOrd = nt, of[0]
		}
	}
	if cfgT == nil {
		l.Infra("no exported config struct with a QueueOrdering field found")
		return
	}
	locks := p.Locksets()

	// ---- O1: constructors of the backlog
	nO1 := 0
	for _, f := range p.Funcs {
		if !p.InPkg(f, "limiter") {
			continue
		}
		for _, al := range p.allocsOf(f, backlog) {
			nO1++
			key := p.Key(f) + "/new:" + backlog.Obj().Name()
			vals := storesInto(al, ordField)
			if len(vals) != 1 {
				l.Bad("O1", key, p.At(al), fmt.Sprintf("the backlog's ordering field is stored %d times in its constructor (want once, from the config)", len(vals)))
				continue
			}
			v := strip(vals[0], false)
			if n, isC := constName(v, ordNames); isC {
				l.Bad("O1", key, p.At(al), fmt.Sprintf("the backlog's ordering is the constant %s; the configured ordering never reaches the queue", n))
				continue
			}
			if c, ok := v.(*ssa.Const); ok {
				l.Bad("O1", key, p.At(al), "the backlog's ordering is the constant "+c.String())
				continue
			}
			fr, base, ok := loadedField(v)
			if !ok || !sameField(fr, cfgOrd) {
				l.Bad("O1", key, p.At(al), "the backlog's ordering does not come from the config's ordering field: "+valueString(v))
				continue
			}
			// the load must come after the defaulting call on the same config object
			ld := v.(ssa.Instruction)
			baseAP := AccessPath(base).String()
			var defCall ssa.Instruction
			allInstrs(f, func(ins ssa.Instruction) {
				if call, ok := ins.(*ssa.Call); ok {
					c := p.CallOf(call)
					if c.Static != nil && c.Recv != nil && c.Static.Name() == "ApplyDefaults" && AccessPath(c.Recv).String() == baseAP {
						defCall = ins
					}
				}
			})
			if defCall == nil {
				l.Bad("O1", key, p.At(al), "the config is not defaulted (ApplyDefaults) before its ordering is installed")
				continue
			}
			after := defCall.Block() == ld.Block() && indexIn(defCall) < indexIn(ld) || (defCall.Block() != ld.Block() && defCall.Block().Dominates(ld.Block()))
			l.Check(after, "O1", key, p.At(al), "backlog ordering = config."+cfgOrd.Name+" read after ApplyDefaults", "the ordering is read from the config before it is defaulted")
		}
	}
	if nO1 == 0 {
		l.Infra("no allocation of the backlog type found")
	}

	// ---- O2: push end vs selection ends
	pushEnd := ""
	var pushFn *ssa.Function
	for _, f := range p.Funcs {
		if !p.InPkg(f, "limiter") {
			continue
		}
		allInstrs(f, func(ins ssa.Instruction) {
			call, ok := ins.(*ssa.Call)
			if !ok {
				return
			}
			c := p.CallOf(call)
			if c.Recv == nil {
				return
			}
			fr, _, ok := fieldPointerLoad(c.Recv)
			if !ok || !sameField(fr, listField) {
				return
			}
			switch c.Name {
			case "(*container/list.List).PushFront":
				if pushEnd != "" && pushEnd != "Front" {
					pushEnd = "mixed"
				} else {
					pushEnd = "Front"
				}
				pushFn = f
			case "(*container/list.List).PushBack":
				if pushEnd != "" && pushEnd != "Back" {
					pushEnd = "mixed"
				} else {
					pushEnd = "Back"
				}
				pushFn = f
			case "(*container/list.List).InsertBefore", "(*container/list.List).InsertAfter", "(*container/list.List).MoveToFront", "(*container/list.List).MoveToBack", "(*container/list.List).PushFrontList", "(*container/list.List).PushBackList":
				pushEnd = "mixed"
				pushFn = f
			}
		})
	}
	if pushFn == nil {
		l.Infra("no insertion into the backlog list found")
		return
	}
	if pushEnd == "mixed" {
		l.Bad("O2", "push", p.FuncPos(pushFn), "waiters are inserted at more than one position of the list; arrival order is not a list end")
	} else {
		// the push must hold the queue's exclusive lock
		l.OK("O2", "push", p.FuncPos(pushFn), "every arrival is inserted with Push"+pushEnd)
	}
	opposite := map[string]string{"Front": "Back", "Back": "Front"}
	// selection functions: read Front/Back of the list
	nSel := 0
	selFns := map[*ssa.Function]bool{}
	for _, f := range p.Funcs {
		if !p.InPkg(f, "limiter") {
			continue
		}
		var reads []*ssa.Call
		allInstrs(f, func(ins ssa.Instruction) {
			if call, ok := ins.(*ssa.Call); ok {
				c := p.CallOf(call)
				if c.Recv == nil {
					return
				}
				if fr, _, ok := fieldPointerLoad(c.Recv); ok && sameField(fr, listField) && c.Is("(*container/list.List).Front", "(*container/list.List).Back") {
					reads = append(reads, call)
				}
			}
		})
		if len(reads) == 0 {
			continue
		}
		// a selection hands a waiter to somebody: it returns something that can carry one (an element, a slice, a
		// closure) or acts on one. A scan that only answers a yes/no or a number question (contains, count) selects nobody.
		carries := false
		for i := 0; i < f.Signature.Results().Len(); i++ {
			if _, basic := f.Signature.Results().At(i).Type().Underlying().(*types.Basic); !basic {
				carries = true
			}
		}
		allInstrs(f, func(ins ssa.Instruction) {
			if call, ok := ins.(*ssa.Call); ok {
				if c := p.CallOf(call); c.Static != nil && p.InModule(c.Static) && c.Recv != nil && c.Static != f {
					if nt := derefNamed(c.Recv.Type()); nt != nil && nt != backlog {
						carries = true // a method of an element / the limiter is invoked from here
					}
				}
			}
			switch ins.(type) {
			case *ssa.Send, *ssa.Select, *ssa.Go:
				carries = true
			}
		})
		if !carries {
			l.Note("%s reads the ends of the backlog but returns only plain values and acts on no waiter: not a selection", p.Key(f))
			continue
		}
		nSel++
		selFns[f] = true
		key := p.Key(f) + "/select"
		seen := map[string]bool{}
		npaths := 0
		var bad []string
		EnumPaths(f, 100000, func(pa *Path) bool {
			if !pa.IsReturn() {
				return true
			}
			npaths++
			// which constant did the path match on the backlog's ordering field?
			matched := ""
			excluded := map[string]bool{}
			for _, r := range pa.Rels(-1) {
				x, y := r.X, r.Y
				if _, ok := strip(y, false).(*ssa.Const); !ok {
					x, y = y, x
				}
				fr, _, ok := loadedField(strip(x, false))
				if !ok || !sameField(fr, ordField) {
					continue
				}
				c, ok := strip(y, false).(*ssa.Const)
				if !ok || c.Value == nil {
					continue
				}
				if r.Op == token.EQL {
					matched = c.Value.ExactString()
				} else if r.Op == token.NEQ {
					excluded[c.Value.ExactString()] = true
				}
			}
			var used []string
			var usedCall *ssa.Call
			pa.Each(func(step int, ins ssa.Instruction) bool {
				for _, r := range reads {
					if ins == ssa.Instruction(r) {
						used = append(used, p.CallOf(r).Static.Name())
						usedCall = r
					}
				}
				return true
			})
			if matched == "" {
				if len(excluded) >= 2 {
					// neither constant: nothing may be selected
					if len(used) != 0 {
						bad = append(bad, "an element is selected for an ordering that is neither FIFO nor LIFO")
					}
					return true
				}
				bad = append(bad, "selection does not switch on the backlog's ordering field: "+joinWitness(p.DescribePath(pa)))
				return len(bad) < 3
			}
			seen[matched] = true
			if len(used) != 1 {
				bad = append(bad, fmt.Sprintf("ordering %s reads %d list ends on one path (want exactly one)", ordNames[matched], len(used)))
				return len(bad) < 3
			}
			want := pushEnd
			if matched == fifoVal {
				want = opposite[pushEnd]
			}
			if used[0] != want {
				bad = append(bad, fmt.Sprintf("%s: ordering %s selects list.%s() but arrivals are inserted with Push%s, so it must select list.%s()", p.At(usedCall), ordNames[matched], used[0], pushEnd, want))
			}
			// the returned element and the eviction closure refer to the element just read
			rv := pa.ReturnValues()
			for _, r := range rv {
				r = strip(r, false)
				switch x := r.(type) {
				case *ssa.TypeAssert:
					// element.Value.(*queueElement)
					if !valueDerivesFrom(x.X, usedCall, pa, 24) {
						bad = append(bad, "the returned waiter is not the Value of the selected list element")
					}
				case *ssa.Call:
					cc := p.CallOf(x)
					if cc.Static != nil && len(cc.Args) == 1 {
						if !valueDerivesFrom(cc.Args[0], usedCall, pa, 24) {
							bad = append(bad, fmt.Sprintf("%s: the eviction function is not built for the selected list element", p.At(x)))
						}
					}
				}
			}
			return len(bad) < 3
		})
		if !seen[fifoVal] {
			bad = append(bad, "no case for the FIFO ordering")
		}
		if !seen[lifoVal] {
			bad = append(bad, "no case for the LIFO ordering")
		}
		l.Check(len(bad) == 0, "O2", key, p.FuncPos(f), fmt.Sprintf("%d paths; FIFO reads list.%s(), LIFO reads list.%s(); arrivals use Push%s", npaths, opposite[pushEnd], pushEnd, pushEnd),
			"the selection does not serve waiters in the configured order", bad...)
	}
	if nSel == 0 {
		l.Infra("no function reads the ends of the backlog list")
	}
	// eviction closures: list.Remove(e) with e the captured element, under the queue's exclusive mutex
	nRem := 0
	for _, f := range p.Funcs {
		if !p.InPkg(f, "limiter") {
			continue
		}
		allInstrs(f, func(ins ssa.Instruction) {
			call, ok := ins.(*ssa.Call)
			if !ok {
				return
			}
			c := p.CallOf(call)
			if !c.Is("(*container/list.List).Remove") || c.Recv == nil {
				return
			}
			fr, base, ok := fieldPointerLoad(c.Recv)
			if !ok || !sameField(fr, listField) {
				return
			}
			nRem++
			key := p.Key(f) + "/remove"
			held := locks.Held(ins)
			bap := AccessPath(base).String()
			okLock := false
			for _, m := range mutexFields(backlog) {
				if ex, ok := held[bap+"."+m]; ok && ex {
					okLock = true
				}
			}
			// removed element is a captured variable / parameter (the element given to the eviction builder)
			arg := AccessPathThroughClosures(c.Args[0])
			_, isParam := arg.Root.(*ssa.Parameter)
			if !(isParam && len(arg.Sel) == 0) {
				// a method value of a small carrier struct ((&eviction{q, e}).evict, queueSlot{q, pos}.evict): name the
				// element in the frame that built the function value. It must be a value fixed there (a parameter, the
				// element a list call returned), not something looked up when the eviction runs.
				if frs := p.creationFrames(f); len(frs) > 0 {
					isParam = true
					for _, fr := range frs {
						arg = p.OuterAP(c.Args[0], fr)
						fixed := false
						switch r := arg.Root.(type) {
						case *ssa.Parameter:
							fixed = r.Parent() != f
						case ssa.Instruction:
							fixed = r.Parent() != f && isListElemPtr(arg.Root.Type())
						}
						if !fixed || len(arg.Sel) != 0 {
							isParam = false
							break
						}
					}
					if isParam {
						arg.Sel = nil
					}
				}
			}
			l.Check(okLock && isParam && len(arg.Sel) == 0, "O2", key, p.At(ins), "removes exactly the list element it was built for, under the queue's exclusive mutex",
				fmt.Sprintf("eviction does not remove exactly its own element under the queue mutex (lock held: %v, element: %s)", okLock, arg))
		})
	}
	if nRem == 0 {
		l.Infra("no list.Remove on the backlog list found")
	}

	// ---- O3
	ctorName := ""
	for _, f := range p.Funcs {
		if p.InPkg(f, "limiter") && len(p.allocsOf(f, backlog)) > 0 {
			ctorName = p.Key(f)
		}
	}
	// default: ApplyDefaults maps "" -> LIFO
	if ad := p.Method(cfgT, "ApplyDefaults"); ad != nil {
		found, good, wrong := false, false, false
		EnumPaths(ad, 100000, func(pa *Path) bool {
			pa.Each(func(step int, ins ssa.Instruction) bool {
				st, ok := ins.(*ssa.Store)
				if !ok {
					return true
				}
				fa, ok := st.Addr.(*ssa.FieldAddr)
				if !ok {
					return true
				}
				if fr, _, _ := fieldOf(fa); !sameField(fr, cfgOrd) {
					return true
				}
				found = true
				emptyChecked := pa.HoldsRel(step, func(r Rel) bool {
					fr, _, ok := loadedField(strip(r.X, false))
					c, isC := strip(r.Y, false).(*ssa.Const)
					return ok && sameField(fr, cfgOrd) && r.Op == token.EQL && isC && c.Value != nil && c.Value.Kind() == constant.String && constant.StringVal(c.Value) == ""
				})
				n, isC := constName(pa.Resolve(st.Val, step), ordNames)
				if emptyChecked && isC && strings.HasSuffix(n, "LIFO") {
					good = true
				} else if isC && c11SelectedByNormalised(p, pa, step, n, st.Val, cfgOrd, ordNames) {
					// a constant chosen by comparing the normalised configured value with the constants: the like-named one
					// where it compared equal, LIFO where it equalled no other (which covers the empty value: the default)
					if strings.HasSuffix(n, "LIFO") {
						good = true
					}
				} else if c11NormalisedConfig(p, pa, st.Val, step, cfgOrd, ordNames) {
					// the configured ordering put back in canonical spelling: every ordering constant is a fixed point of the
					// normalisation, so a configured FIFO / LIFO is stored as itself
				} else if k, isK := strip(pa.Resolve(st.Val, step), false).(*ssa.Const); isK && k.Value != nil && k.Value.Kind() == constant.String && constant.StringVal(k.Value) == "" {
					// an unrecognised value is cleared ("not set"); what replaces it is checked where it is stored
				} else {
					wrong = true
					return false
				}
				return true
			})
			return true
		})
		if wrong {
			good = false
		}
		l.Check(found && good, "O3", p.Key(ad)+"/default", p.FuncPos(ad), "an empty ordering defaults to LIFO, and only an empty one is overwritten",
			"the default ordering is not LIFO as the type's documentation states (or a configured ordering is overwritten)")
	} else {
		l.Infra("config type has no ApplyDefaults")
	}
	// named constructors and pools: calls of the queue-limiter constructor with a config literal
	poolOrd := p.Named("patterns/pool", "Ordering")
	var poolNames map[string]string
	if poolOrd != nil {
		poolNames = constsOfType(p.TPkgs["patterns/pool"], poolOrd)
	}
	for _, f := range p.Funcs {
		var calls []*ssa.Call
		allInstrs(f, func(ins ssa.Instruction) {
			if call, ok := ins.(*ssa.Call); ok {
				c := p.CallOf(call)
				if c.Static != nil && p.Key(c.Static) == ctorName {
					calls = append(calls, call)
				}
			}
		})
		if len(calls) == 0 || p.PkgOf(f) == "" || strings.HasPrefix(p.PkgOf(f), "examples") {
			continue
		}
		for i, call := range calls {
			key := fmt.Sprintf("%s/ctor-call#%d", p.Key(f), i+1)
			// config argument: a loaded composite literal
			var cfgArg ssa.Value
			for _, a := range call.Call.Args {
				if d := derefNamed(a.Type()); d != nil && types.Identical(d, cfgT) {
					cfgArg = a
				}
			}
			var cfgAlloc *ssa.Alloc
			if u, ok := cfgArg.(*ssa.UnOp); ok {
				cfgAlloc, _ = u.X.(*ssa.Alloc)
			}
			// ordOnPath: the ordering the config literal holds when the path reaches the call:
			// "" = unset (zero value), "?" = not a constant of the ordering type
			zeroCfg := false
			if c, ok := strip(cfgArg, false).(*ssa.Const); ok && c.Value == nil {
				zeroCfg = true // QueueLimiterConfig{}: the zero value, no ordering set
			}
			ordOnPath := func(pa *Path) string {
				if zeroCfg {
					return ""
				}
				if cfgAlloc == nil {
					return "?"
				}
				ord := ""
				pa.Each(func(step int, ins ssa.Instruction) bool {
					if ins == ssa.Instruction(call) {
						return false
					}
					st, ok := ins.(*ssa.Store)
					if !ok {
						return true
					}
					fa, ok := st.Addr.(*ssa.FieldAddr)
					if !ok || fa.X != ssa.Value(cfgAlloc) || fa.Field != cfgOrd.Index {
						return true
					}
					if n, ok := constName(pa.Resolve(st.Val, step), ordNames); ok {
						ord = n
					} else {
						ord = "?"
					}
					return true
				})
				return ord
			}
			name := f.Name()
			lower := strings.ToLower(name)
			named := ""
			switch {
			case strings.Contains(lower, "fifo"):
				named = "FIFO"
			case strings.Contains(lower, "lifo"):
				named = "LIFO"
			}
			switch {
			case named != "":
				got := map[string]bool{}
				EnumPathsPrefix(f, call, 400000, func(pa *Path) bool {
					got[ordOnPath(pa)] = true
					return true
				})
				ok := len(got) > 0
				var gl []string
				for g := range got {
					gl = append(gl, orNone(g))
					if !(strings.HasSuffix(g, named) || (named == "LIFO" && g == "")) {
						ok = false
					}
				}
				sort.Strings(gl)
				if named == "FIFO" {
					l.Check(ok, "O3", key, p.At(call), "FIFO-named constructor passes the FIFO ordering", "a constructor named FIFO does not configure FIFO ordering (got "+strings.Join(gl, ", ")+")")
				} else {
					l.Check(ok, "O3", key, p.At(call), "LIFO-named constructor passes LIFO or relies on the LIFO default", "a constructor named LIFO does not configure LIFO ordering (got "+strings.Join(gl, ", ")+")")
				}
			case p.InPkg(f, "patterns/pool") && poolNames != nil:
				// per path reaching this call: the pool ordering that was matched and the limiter ordering configured
				type res struct {
					got map[string]bool
				}
				byPool := map[string]*res{}
				unmatched := false
				EnumPathsPrefix(f, call, 400000, func(pa *Path) bool {
					st := pa.StepOf(call)
					matched := ""
					for _, r := range pa.Rels(st) {
						if r.Op != token.EQL {
							continue
						}
						for _, v := range []ssa.Value{r.X, r.Y} {
							if c, ok := strip(v, false).(*ssa.Const); ok && types.Identical(c.Type(), poolOrd) {
								matched = poolNames[c.Value.ExactString()]
							}
						}
					}
					if matched == "" {
						unmatched = true
						return true
					}
					if byPool[matched] == nil {
						byPool[matched] = &res{got: map[string]bool{}}
					}
					byPool[matched].got[ordOnPath(pa)] = true
					return true
				})
				if unmatched || len(byPool) == 0 {
					l.Unknown("O3", key, p.At(call), "cannot determine which pool ordering selects this queue limiter")
				}
				var pools []string
				for m := range byPool {
					pools = append(pools, m)
				}
				sort.Strings(pools)
				for _, matched := range pools {
					suffix := matched[strings.LastIndex(matched, "Ordering")+len("Ordering"):]
					ok := true
					var gl []string
					for g := range byPool[matched].got {
						gl = append(gl, orNone(g))
						if !strings.HasSuffix(g, suffix) {
							ok = false
						}
					}
					sort.Strings(gl)
					l.Check(ok, "O3", p.Key(f)+"/pool:"+matched, p.At(call), fmt.Sprintf("pool %s configures limiter ordering %s", matched, strings.Join(gl, ", ")),
						fmt.Sprintf("pool ordering %s configures the queue limiter with %s", matched, strings.Join(gl, ", ")))
				}
			default:
				// generic: config passed through unchanged or defaulted
				l.OK("O3", key, p.At(call), "passes its caller's config / the zero config (default ordering)")
			}
		}
	}

	// named constructors that build their limiter through another constructor (NewFifo...WithDefaults ->
	// NewQueueBlockingLimiterWithDefaults): the orderings that constructor configures, followed down to the config
	// literal that reaches the queue constructor
	var orderingsOf func(g *ssa.Function, depth int) map[string]bool
	orderingsOf = func(g *ssa.Function, depth int) map[string]bool {
		out := map[string]bool{}
		if g == nil || g.Blocks == nil || depth > 4 {
			out["?"] = true
			return out
		}
		allInstrs(g, func(ins ssa.Instruction) {
			call, ok := ins.(*ssa.Call)
			if !ok {
				return
			}
			c := p.CallOf(call)
			if c.Static == nil || !p.InModule(c.Static) {
				return
			}
			if p.Key(c.Static) == ctorName {
				var cfgArg ssa.Value
				for _, a := range call.Call.Args {
					if d := derefNamed(a.Type()); d != nil && types.Identical(d, cfgT) {
						cfgArg = a
					}
				}
				if k, ok := strip(cfgArg, false).(*ssa.Const); ok && k.Value == nil {
					out[""] = true
					return
				}
				var cfgAlloc *ssa.Alloc
				if u, ok := cfgArg.(*ssa.UnOp); ok {
					cfgAlloc, _ = u.X.(*ssa.Alloc)
				}
				if cfgAlloc == nil {
					out["?"] = true
					return
				}
				EnumPathsPrefix(g, call, 100000, func(pa *Path) bool {
					ord := ""
					pa.Each(func(step int, i2 ssa.Instruction) bool {
						if i2 == ssa.Instruction(call) {
							return false
						}
						if st, ok := i2.(*ssa.Store); ok {
							if fa, ok := st.Addr.(*ssa.FieldAddr); ok && fa.X == ssa.Value(cfgAlloc) && fa.Field == cfgOrd.Index {
								if n, ok := constName(pa.Resolve(st.Val, step), ordNames); ok {
									ord = n
								} else {
									ord = "?"
								}
							}
						}
						return true
					})
					out[ord] = true
					return true
				})
				return
			}
			if c11ReturnsQueueLimiter(c.Static, backlog) && c.Static != g {
				for o := range orderingsOf(c.Static, depth+1) {
					out[o] = true
				}
			}
		})
		return out
	}
	for _, f := range p.Funcs {
		if !p.InPkg(f, "limiter") || f.Parent() != nil {
			continue
		}
		lower := strings.ToLower(f.Name())
		named := ""
		switch {
		case strings.Contains(lower, "fifo"):
			named = "FIFO"
		case strings.Contains(lower, "lifo"):
			named = "LIFO"
		}
		if named == "" {
			continue
		}
		allInstrs(f, func(ins ssa.Instruction) {
			call, ok := ins.(*ssa.Call)
			if !ok {
				return
			}
			c := p.CallOf(call)
			if c.Static == nil || !p.InModule(c.Static) || p.Key(c.Static) == ctorName || !c11ReturnsQueueLimiter(c.Static, backlog) {
				return
			}
			got := orderingsOf(c.Static, 0)
			good := len(got) > 0
			var gl []string
			for g := range got {
				gl = append(gl, orNone(g))
				if !(strings.HasSuffix(g, named) || (named == "LIFO" && g == "")) {
					good = false
				}
			}
			sort.Strings(gl)
			l.Check(good, "O3", p.Key(f)+"/via:"+p.Key(c.Static), p.At(call), fmt.Sprintf("%s-named constructor builds its limiter through %s, which configures %s", named, p.Key(c.Static), strings.Join(gl, ", ")),
				fmt.Sprintf("a constructor named %s builds its limiter through %s, which configures %s", named, p.Key(c.Static), strings.Join(gl, ", ")))
		})
	}

	// ---- O4: unblock is one critical section
	var qlim *types.Named
	for _, nt := range p.Implementers(p.coreIface("Limiter")) {
		if len(fieldsOfType(nt, types.NewPointer(backlog))) == 1 {
			qlim = nt
		}
	}
	if qlim == nil {
		l.Infra("no limiter type owning the backlog found")
		return
	}
	nUnb := 0
	for _, f := range p.Funcs {
		if !p.InPkg(f, "limiter") {
			continue
		}
		// the hand-off function: reads the selection and calls the delegate's Acquire
		var sel, acq, evict, deliver ssa.Instruction
		var limAP string
		allInstrs(f, func(ins ssa.Instruction) {
			// the delivery written in place: a select (or plain send) that offers a Listener on a channel
			switch x := ins.(type) {
			case *ssa.Select:
				for _, st := range x.States {
					if st.Dir == types.SendOnly && st.Send != nil && types.Identical(st.Send.Type(), p.coreNamed("Listener")) {
						deliver = ins
					}
				}
			case *ssa.Send:
				if types.Identical(x.X.Type(), p.coreNamed("Listener")) {
					deliver = ins
				}
			}
			call, ok := ins.(*ssa.Call)
			if !ok {
				return
			}
			c := p.CallOf(call)
			if c.Static != nil && c.Recv != nil {
				if d := derefNamed(c.Recv.Type()); d != nil && types.Identical(d, backlog) {
					if selFns[c.Static] {
						sel = ins
						ap := AccessPath(c.Recv)
						limAP = ap.Parent().String()
					}
				}
			}
			if p.callsRoleMethod(c, "Limiter", "Acquire") {
				acq = ins
			}
			if c.Name == "dynamic" && len(c.Args) == 0 {
				evict = ins
			}
			if c.Static != nil && len(c.Args) == 1 && types.Identical(c.Args[0].Type(), p.coreNamed("Listener")) && c.Static.Signature.Results().Len() == 1 {
				deliver = ins
			}
		})
		if sel == nil || acq == nil {
			continue
		}
		nUnb++
		key := p.Key(f)
		var bad []string
		for name, ins := range map[string]ssa.Instruction{"selection": sel, "acquire": acq, "evict": evict, "deliver": deliver} {
			if ins == nil {
				bad = append(bad, "cannot find the "+name+" step")
				continue
			}
			held := locks.Held(ins)
			okLock := false
			for _, m := range mutexFields(qlim) {
				if ex, ok := held[limAP+"."+m]; ok && ex {
					okLock = true
				}
			}
			if !okLock {
				bad = append(bad, fmt.Sprintf("%s: the %s step does not hold the limiter's exclusive mutex (held %s)", p.At(ins), name, held))
			}
		}
		l.Check(len(bad) == 0, "O4", key, p.FuncPos(f), "selection, acquire, evict and deliver all hold "+limAP+"'s exclusive mutex", "two releases can pick the same waiter or reorder", bad...)
	}
	if nUnb == 0 {
		l.Infra("no hand-off function (selection + delegate Acquire) found")
	}
}

func orNone(s string) string {
	if s == "" {
		return "no ordering (default)"
	}
	if s == "?" {
		return "a non-constant ordering"
	}
	return s
}

func indexIn(ins ssa.Instruction) int {
	for i, x := range ins.Block().Instrs {
		if x == ins {
			return i
		}
	}
	return -1
}

// valueDerivesFrom: v is computed from target through loads, field selections, phis and type assertions.
func valueDerivesFrom(v ssa.Value, target ssa.Value, pa *Path, depth int) bool {
	if depth < 0 || v == nil {
		return false
	}
	if pa != nil {
		v = pa.Resolve(v, len(pa.Blocks)-1)
	}
	v = strip(v, false)
	if v == target {
		return true
	}
	switch x := v.(type) {
	case *ssa.UnOp:
		return valueDerivesFrom(x.X, target, pa, depth-1)
	case *ssa.FieldAddr:
		return valueDerivesFrom(x.X, target, pa, depth-1)
	case *ssa.Field:
		return valueDerivesFrom(x.X, target, pa, depth-1)
	case *ssa.TypeAssert:
		return valueDerivesFrom(x.X, target, pa, depth-1)
	case *ssa.Extract:
		return valueDerivesFrom(x.Tuple, target, pa, depth-1)
	case *ssa.Phi:
		for _, e := range x.Edges {
			if valueDerivesFrom(e, target, nil, depth-1) {
				return true
			}
		}
	case *ssa.Alloc:
		// a local struct built only to carry values (queueSlot{q, pos}): what was stored into it
		if refs := x.Referrers(); refs != nil {
			for _, r := range *refs {
				switch r := r.(type) {
				case *ssa.Store:
					if r.Addr == ssa.Value(x) && valueDerivesFrom(r.Val, target, pa, depth-1) {
						return true
					}
				case *ssa.FieldAddr:
					if rr := r.Referrers(); rr != nil {
						for _, u := range *rr {
							if st, ok := u.(*ssa.Store); ok && st.Addr == ssa.Value(r) && valueDerivesFrom(st.Val, target, pa, depth-1) {
								return true
							}
						}
					}
				}
			}
		}
	}
	return false
}

// c11ReturnsQueueLimiter: the function returns (a pointer to) a struct that owns the backlog, or one that embeds such a struct.
func c11ReturnsQueueLimiter(f *ssa.Function, backlog *types.Named) bool {
	if f.Signature.Results().Len() != 1 {
		return false
	}
	var owns func(t types.Type, depth int) bool
	owns = func(t types.Type, depth int) bool {
		d := derefNamed(t)
		if d == nil || depth > 2 {
			return false
		}
		st, ok := d.Underlying().(*types.Struct)
		if !ok {
			return false
		}
		for i := 0; i < st.NumFields(); i++ {
			ft := st.Field(i).Type()
			if types.Identical(ft, types.NewPointer(backlog)) {
				return true
			}
			if st.Field(i).Embedded() && owns(ft, depth+1) {
				return true
			}
		}
		return false
	}
	return owns(f.Signature.Results().At(0).Type(), 0)
}

// c11NormalisedConfig: the value is the configuration's own ordering field passed through string normalisers
// (strings.TrimSpace, strings.ToLower) of which every ordering constant is a fixed point.
func c11NormalisedConfig(p *Prog, pa *Path, val ssa.Value, step int, cfgOrd FieldRef, ordNames map[string]string) bool {
	v := strip(pa.Resolve(val, step), false)
	var fns []string
	for i := 0; i < 8; i++ {
		switch x := v.(type) {
		case *ssa.Convert:
			v = strip(pa.Resolve(x.X, step), false)
			continue
		case *ssa.ChangeType:
			v = strip(pa.Resolve(x.X, step), false)
			continue
		case *ssa.Call:
			c := p.CallOf(x)
			if c != nil && len(c.Args) == 1 && (c.Name == "strings.ToLower" || c.Name == "strings.TrimSpace") {
				fns = append(fns, c.Name)
				v = strip(pa.Resolve(c.Args[0], step), false)
				continue
			}
		}
		break
	}
	fr, _, ok := loadedField(v)
	if !ok || !sameField(fr, cfgOrd) || len(fns) == 0 {
		return false
	}
	for k := range ordNames {
		sv, err := strconv.Unquote(k)
		if err != nil {
			return false
		}
		out := sv
		for i := len(fns) - 1; i >= 0; i-- {
			switch fns[i] {
			case "strings.ToLower":
				out = strings.ToLower(out)
			case "strings.TrimSpace":
				out = strings.TrimSpace(out)
			}
		}
		if out != sv {
			return false
		}
	}
	return true
}

// c11SelectedByNormalised: the constant stored (named name) was selected by comparing the normalised configured
// ordering with the ordering constants: the path established normalised == this constant, or - for LIFO, the default -
// normalised != every other ordering constant.
func c11SelectedByNormalised(p *Prog, pa *Path, step int, name string, val ssa.Value, cfgOrd FieldRef, ordNames map[string]string) bool {
	k, ok := strip(pa.Resolve(val, step), false).(*ssa.Const)
	if !ok || k.Value == nil {
		return false
	}
	mine := k.Value.ExactString()
	rels := pa.Rels(step)
	has := func(op token.Token, cv string) bool {
		for _, r := range rels {
			for _, rr := range []Rel{r, {X: r.Y, Y: r.X, Op: r.Op}} {
				c, isC := strip(rr.Y, false).(*ssa.Const)
				if rr.Op != op || !isC || c.Value == nil || c.Value.ExactString() != cv {
					continue
				}
				if c11NormalisedConfig(p, pa, rr.X, step, cfgOrd, ordNames) {
					return true
				}
			}
		}
		return false
	}
	if has(token.EQL, mine) {
		return true
	}
	if !strings.HasSuffix(name, "LIFO") {
		return false
	}
	n := 0
	for other := range ordNames {
		if other == mine {
			continue
		}
		n++
		if !has(token.NEQ, other) {
			return false
		}
	}
	return n > 0
}
