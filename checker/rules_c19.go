package main

import (
	"fmt"
	"go/types"
	"strings"

	"gclverify/xt/ssa"
)

func init() {
	register("C19", &ruleSet{
		run:    runC19,
		floors: map[string]int{"O1": 2, "O2": 2, "O3": 30, "O4": 20},
		explain: "Decides the composition of the pools, from which the safety half ('never more than the limit held') follows through C01/C02 on the composed stack: (O1) on " +
			"every path of NewFixedPool that returns a pool, the same fixedLimit parameter feeds the fixed limit and a precise strategy, the default limiter built from exactly " +
			"that pair is the delegate of the blocking / queue wrapper stored in the pool for every ordering case, no case leaves the limiter unset, the backlog-size and timeout " +
			"parameters reach the wrapper's configuration and a negative timeout is normalised first; NewPool wraps the caller's delegate on every case; (O2) pool Acquire " +
			"returns exactly the wrapped limiter's results. The ordering map is C11/O3. 'Every queued caller is eventually granted within the backlog timeout' is a liveness / " +
			"timing statement and is not applicable; its structural prerequisites are C10's obligations; (O4) the gate (C01) and the backlog bound and membership (C12) of the limiters the pools are built from.",
	})
}

func runC19(p *Prog, l *Ledger) {
	l.Rule("O1", "wiring: limit and precise strategy from the same number, default limiter from that pair, wrapped on every ordering case; backlog size and (normalised) timeout forwarded")
	l.Rule("O2", "pass-through: pool Acquire returns identically the wrapped limiter's results")
	l.Rule("O3", "structural prerequisites of 'every queued caller is served' for the wrappers a pool is built from (decided by the C10 and C02 rules on the same tree): no lost wake-up / hand-off, no stranded or leaked token")
	l.NotCovered = []string{"eventual service of every queued caller within the backlog timeout (liveness/timing); prerequisites are in C10", "ordering map is decided in C11/O3"}
	limNamed := p.coreNamed("Limiter")
	importObligations(p, l, "C10", "O3", nil)
	importObligations(p, l, "C02", "O3", func(o *Obligation) bool { return o.Rule == "O1" || o.Rule == "O3" || o.Rule == "O4" || o.Rule == "O2" })
	l.Rule("O4", "the gate and the backlog a pool is built from (decided by the C01 and C12 rules on the same tree): the default limiter's answer is the strategy's atomic decision - never more than the limit, no refusal with room; callers are queued while the backlog is under its bound, the length the bound is checked against is the number of queued callers, and a queued caller leaves only by giving up or with the capacity")
	importObligations(p, l, "C01", "O4", func(o *Obligation) bool { return o.Rule != "O6" })
	importObligations(p, l, "C12", "O4", func(o *Obligation) bool { return o.Rule == "O1" || o.Rule == "O2" || o.Rule == "O3" })
	importObligations(p, l, "C13", "O4", func(o *Obligation) bool { return o.Rule == "O8" })
	n := 0
	for _, T := range p.structTypes("patterns/pool") {
		lf := fieldsOfType(T, limNamed)
		if len(lf) != 1 {
			// a pool built on another pool of this package (FixedPool holding the *Pool that NewPool returns)
			lf = nil
			if st, ok := T.Underlying().(*types.Struct); ok {
				for i := 0; i < st.NumFields(); i++ {
					if d := derefNamed(st.Field(i).Type()); d != nil && !types.Identical(d, T) && d.Obj().Pkg() == T.Obj().Pkg() && len(fieldsOfType(d, limNamed)) == 1 {
						lf = append(lf, FieldRef{Type: T, Index: i, Name: st.Field(i).Name()})
					}
				}
			}
			if len(lf) != 1 {
				continue
			}
		}
		for _, ctor := range p.Constructors(T) {
			n++
			key := p.Key(ctor)
			allocs := p.allocsOf(ctor, T)
			npaths, nret := 0, 0
			var bad []string
			_, trunc := EnumPaths(ctor, 400000, func(pa *Path) bool {
				if !pa.IsReturn() {
					return true
				}
				npaths++
				rv := pa.ReturnValues()
				var pool *ssa.Alloc
				for _, a := range allocs {
					if strip(rv[0], false) == ssa.Value(a) {
						pool = a
					}
				}
				if pool == nil {
					return true
				}
				nret++
				last := len(pa.Blocks) - 1
				// the limiter stored into the returned pool on this path
				var limVal ssa.Value
				pa.Each(func(step int, ins ssa.Instruction) bool {
					st, ok := ins.(*ssa.Store)
					if !ok {
						return true
					}
					// direct field store into the pool
					if fa, ok := st.Addr.(*ssa.FieldAddr); ok && fa.X == ssa.Value(pool) && fa.Field == lf[0].Index {
						limVal = st.Val
					}
					// whole-struct copy from a composite literal
					if st.Addr == ssa.Value(pool) {
						if u, ok := st.Val.(*ssa.UnOp); ok {
							if tmp, ok := u.X.(*ssa.Alloc); ok {
								if vs := storesInto(tmp, lf[0]); len(vs) == 1 {
									limVal = vs[0]
								} else {
									limVal = nil
								}
							}
						}
					}
					return true
				})
				if limVal == nil {
					bad = append(bad, "a pool is returned whose limiter was never set: "+joinWitness(p.DescribePath(pa)))
					return len(bad) < 3
				}
				var delegate ssa.Value
				delegated := false
				// the limiter may come out of another pool built here by this package's own constructor
				// (p, err := NewPool(defaultLimiter, ordering, ...); limiter: p.limiter): that constructor's own obligation
				// covers the wrapping; here the delegate and the forwarded arguments are checked
				var poolT *types.Named
				var root ssa.Value
				if fr2, base2, isLd := loadedField(strip(pa.Resolve(limVal, last), false)); isLd && fr2.Type != nil && len(fieldsOfType(fr2.Type, limNamed)) == 1 && p.relPkg(fr2.Type.Obj().Pkg().Path()) == "patterns/pool" {
					poolT, root = fr2.Type, strip(AccessPath(base2).Root, false)
				} else if d := derefNamed(limVal.Type()); d != nil && d.Obj().Pkg() == T.Obj().Pkg() && len(fieldsOfType(d, limNamed)) == 1 {
					poolT, root = d, strip(pa.Resolve(limVal, last), false)
				}
				if poolT != nil {
					fr2 := FieldRef{Type: poolT}
					if ex, isEx := root.(*ssa.Extract); isEx {
						root = ex.Tuple
					}
					if pc, isCall := root.(*ssa.Call); isCall {
						if g := pc.Call.StaticCallee(); g != nil && p.InPkg(g, "patterns/pool") && g != ctor && len(p.allocsOf(g, fr2.Type)) > 0 {
							delegated = true
							for i, a := range pc.Call.Args {
								if types.Identical(a.Type(), limNamed) {
									delegate = strip(pa.Resolve(a, last), false)
								}
								if i >= len(g.Params) {
									continue
								}
								for _, cp := range ctor.Params {
									lname := strings.ToLower(cp.Name())
									if !(strings.Contains(lname, "order") || strings.Contains(lname, "backlog") || strings.Contains(lname, "timeout")) {
										continue // logger / registry are defaulted before they are forwarded
									}
									if strings.EqualFold(cp.Name(), g.Params[i].Name()) && types.Identical(cp.Type(), g.Params[i].Type()) {
										if got := pa.ResolveWidths(a, last); got != ssa.Value(cp) {
											if k, isK := constInt(got); !(isK && k == 0 && strings.Contains(strings.ToLower(cp.Name()), "timeout")) {
												bad = append(bad, fmt.Sprintf("%s: %s is handed %s for its parameter %s, not this constructor's %s", p.At(pc), p.Key(g), valueString(got), g.Params[i].Name(), cp.Name()))
											}
										}
									}
								}
							}
							if delegate == nil {
								bad = append(bad, fmt.Sprintf("%s: %s is not given a delegate limiter", p.At(pc), p.Key(g)))
								return len(bad) < 3
							}
						}
					}
				}
				if !delegated {
					wcall, ok := strip(pa.Resolve(limVal, last), false).(*ssa.Call)
					if !ok {
						bad = append(bad, "the pool's limiter is not a freshly constructed wrapper: "+valueString(limVal))
						return len(bad) < 3
					}
					wc := p.CallOf(wcall)
					if wc.Static == nil || !p.InPkg(wc.Static, "limiter") || len(wc.Args) < 2 {
						bad = append(bad, "the pool's limiter is not built by a limiter-package constructor")
						return len(bad) < 3
					}
					// blocking wrappers only
					isQueue := false
					for _, a := range wc.Args {
						if d := derefNamed(a.Type()); d != nil && d.Obj().Name() == "QueueLimiterConfig" {
							isQueue = true
						}
					}
					if !isQueue && !strings.Contains(wc.Static.Name(), "Blocking") && !strings.Contains(wc.Static.Name(), "Deadline") {
						bad = append(bad, fmt.Sprintf("%s: the pool wraps its delegate with %s, which does not block", p.At(wcall), wc.Static.Name()))
					}
					delegate = strip(pa.Resolve(wc.Args[0], last), false)
					// timeout / backlog forwarding
					var timeoutP, backlogP *ssa.Parameter
					for _, q := range ctor.Params {
						switch {
						case strings.Contains(strings.ToLower(q.Name()), "timeout"):
							timeoutP = q
						case strings.Contains(strings.ToLower(q.Name()), "backlog"):
							backlogP = q
						}
					}
					normTimeout := func(v ssa.Value) string {
						r := pa.ResolveWidths(v, last)
						if timeoutP == nil {
							return "constructor has no timeout parameter"
						}
						if r == ssa.Value(timeoutP) {
							if lb, ok := pa.IntLowerBound(timeoutP, last+1); ok && lb >= 0 {
								return ""
							}
							return "the raw timeout is forwarded on a path that has not normalised a negative value"
						}
						if k, ok := constInt(r); ok && k == 0 {
							if ub, ok := pa.IntUpperBound(timeoutP, last+1); ok && ub < 0 {
								return ""
							}
							return "timeout replaced by 0 although it was not negative"
						}
						return "the timeout handed to the wrapper is not the (normalised) timeout parameter: " + valueString(r)
					}
					if isQueue {
						var cfg *ssa.Alloc
						for _, a := range wcall.Call.Args {
							if u, ok := a.(*ssa.UnOp); ok {
								if al, ok := u.X.(*ssa.Alloc); ok {
									cfg = al
								}
							}
						}
						if cfg == nil {
							bad = append(bad, "queue wrapper configuration is not a literal")
						} else {
							cfgT := derefNamed(cfg.Type())
							if f, ok := FieldByName(cfgT, "MaxBacklogSize"); ok {
								vs := storesInto(cfg, f)
								if len(vs) != 1 || backlogP == nil || strip(vs[0], true) != ssa.Value(backlogP) {
									bad = append(bad, fmt.Sprintf("%s: the backlog size parameter does not reach the queue configuration", p.At(wcall)))
								}
							}
							if f, ok := FieldByName(cfgT, "MaxBacklogTimeout"); ok {
								vs := storesInto(cfg, f)
								if len(vs) != 1 {
									bad = append(bad, fmt.Sprintf("%s: the timeout parameter does not reach the queue configuration", p.At(wcall)))
								} else if why := normTimeout(vs[0]); why != "" {
									bad = append(bad, fmt.Sprintf("%s: %s", p.At(wcall), why))
								}
							}
						}
					} else {
						okT := false
						for _, a := range wc.Args[1:] {
							if nt, ok := a.Type().(*types.Named); ok && nt.Obj().Name() == "Duration" {
								if why := normTimeout(a); why != "" {
									bad = append(bad, fmt.Sprintf("%s: %s", p.At(wcall), why))
								}
								okT = true
							}
						}
						_ = okT
					}
				}
				// the delegate
				if prm, ok := delegate.(*ssa.Parameter); ok {
					if !types.Identical(prm.Type(), limNamed) {
						bad = append(bad, "the wrapped delegate is not the caller's limiter")
					}
					return len(bad) < 3
				}
				// fixed pool: delegate = NewDefaultLimiter(NewFixedLimit(_, N, _), ..., NewPreciseStrategy(N), ...)
				dv := delegate
				if ex, ok := dv.(*ssa.Extract); ok {
					dv = ex.Tuple
				}
				dcall, ok := dv.(*ssa.Call)
				if !ok {
					bad = append(bad, "the wrapped delegate is neither the caller's limiter nor a default limiter built here: "+valueString(delegate))
					return len(bad) < 3
				}
				dc := p.CallOf(dcall)
				if dc.Static == nil || derefNamed(dc.Static.Signature.Results().At(0).Type()) == nil || derefNamed(dc.Static.Signature.Results().At(0).Type()).Obj().Name() != "DefaultLimiter" {
					bad = append(bad, "the wrapped delegate is not a DefaultLimiter")
					return len(bad) < 3
				}
				var limitN, stratN ssa.Value
				stratKind := ""
				for _, a := range dc.Args {
					a = strip(pa.Resolve(a, last), false)
					c2, ok := a.(*ssa.Call)
					if !ok {
						continue
					}
					cc := p.CallOf(c2)
					if cc.Static == nil {
						continue
					}
					res := cc.Static.Signature.Results()
					if res.Len() >= 1 {
						if d := derefNamed(res.At(0).Type()); d != nil {
							switch {
							case d.Obj().Name() == "FixedLimit":
								for _, x := range cc.Args {
									if isIntegral(x.Type()) {
										limitN = strip(x, true)
									}
								}
							case types.Implements(types.NewPointer(d), p.coreIface("Strategy")):
								stratKind = d.Obj().Name()
								for _, x := range cc.Args {
									if isIntegral(x.Type()) {
										stratN = strip(x, true)
									}
								}
							}
						}
					}
				}
				if limitN == nil || stratN == nil {
					bad = append(bad, "the default limiter is not built from a fixed limit and a strategy constructed here")
				} else {
					if limitN != stratN {
						bad = append(bad, fmt.Sprintf("%s: the strategy is sized from %s but the limit from %s", p.At(dcall), operandString(stratN), operandString(limitN)))
					}
					if _, isP := limitN.(*ssa.Parameter); !isP {
						bad = append(bad, "the fixed limit is not the constructor's limit parameter")
					}
					if stratKind != "PreciseStrategy" {
						bad = append(bad, fmt.Sprintf("%s: the pool enforces its limit with %s; only the precise strategy never over-admits on its own", p.At(dcall), stratKind))
					}
				}
				return len(bad) < 3
			})
			l.Count("paths", npaths)
			if trunc {
				l.Unknown("O1", key, p.FuncPos(ctor), "path enumeration truncated")
				continue
			}
			l.Check(len(bad) == 0 && nret > 0, "O1", key, p.FuncPos(ctor), fmt.Sprintf("%d paths, %d return a pool: each wraps the right delegate with a blocking wrapper and forwards backlog size and normalised timeout", npaths, nret), "a pool is composed wrongly", bad...)
		}
		// O2 pass-through
		if acq := p.Method(T, "Acquire"); acq != nil {
			var bad []string
			np := 0
			EnumPaths(acq, 1000, func(pa *Path) bool {
				rv := pa.ReturnValues()
				if len(rv) != 2 {
					return true
				}
				np++
				e0, ok0 := strip(rv[0], false).(*ssa.Extract)
				e1, ok1 := strip(rv[1], false).(*ssa.Extract)
				if !ok0 || !ok1 || e0.Tuple != e1.Tuple || e0.Index != 0 || e1.Index != 1 {
					bad = append(bad, "does not return the wrapped limiter's (listener, ok) unchanged")
					return true
				}
				call, ok := e0.Tuple.(*ssa.Call)
				if !ok || !p.callsRoleMethod(p.CallOf(call), "Limiter", "Acquire") {
					bad = append(bad, "the results do not come from the wrapped limiter's Acquire")
					return true
				}
				c := p.CallOf(call)
				if fr, _, ok := loadedField(strip(c.Recv, false)); !ok || !sameField(fr, lf[0]) {
					bad = append(bad, "Acquire is not called on the pool's own limiter")
				}
				if strip(c.Args[0], false) != ssa.Value(acq.Params[1]) {
					bad = append(bad, "the caller's context is not passed through")
				}
				return true
			})
			l.Check(len(bad) == 0 && np > 0, "O2", p.Key(acq), p.FuncPos(acq), "returns the wrapped limiter's Acquire(ctx) results unchanged", "pool Acquire alters the wrapped limiter's decision", bad...)
		}
	}
	if n < 2 {
		l.Infra("expected the two pool constructors, found %d", n)
	}
}
