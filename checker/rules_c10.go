package main

import (
	"fmt"
	"go/token"
	"go/types"
	"sort"
	"strings"

	"gclverify/xt/ssa"
)

func init() {
	register("C10", &ruleSet{
		run:    runC10,
		floors: map[string]int{"O1": 7, "O2": 3, "O3": 6, "O4": 2, "O5": 6, "O6": 1},
		explain: "Decides the wake-up / hand-off protocol discipline, which is exactly where lost wake-ups live: (O1) condition-variable waiters: the failing delegate.Acquire " +
			"that leads to waiting and the registration on the condition are in one critical section of the condition's lock; (O2) signallers: every Broadcast/Signal is issued " +
			"with that lock held after the state change; O1 and O2 together are the textbook sufficient discipline, and if either fails there is a schedule that parks the waiter " +
			"after the only broadcast; (O3) every completion of a wrapping listener reaches the wake-up (Broadcast / unblock) after the delegate's completion on every path; (O4) a " +
			"signalled waiter calls delegate.Acquire again before it can block again; (O5) queue hand-off: the failed Acquire, the backlog bound check and the enqueue are one " +
			"exclusive critical section of the mutex unblock holds, delivery to a queued waiter cannot be refused (channel capacity >= 1 or a blocking send), unblock evicts only " +
			"once it holds a token for the waiter, and give-up paths drain the channel under the same mutex. Which waiter is next is C11; fairness, wake-ups caused by a limit " +
			"increase (no completion runs) and goroutine leaks are not covered. O5 also requires: the hand-off decides 'nobody is waiting' holding the limiter's mutex (shared suffices for that decision); an eviction function, which runs twice when a give-up coincides with the hand-off, does nothing on every path that is not idempotent (no counter step, append, send or close next to list.Remove); completions of delegate listeners inside the queue limiter happen only on the refused-delivery edge. (O6) the limiter underneath answers a retry only after asking its strategy (C01/O7).",
	})
}

func runC10(p *Prog, l *Ledger) {
	l.Rule("O1", "cond-var waiter: the failing Acquire and the registration on the condition (Wait) are in one critical section of the condition's lock")
	l.Rule("O2", "cond-var signaller: Broadcast/Signal is issued holding the condition's lock, after the delegate's completion")
	l.Rule("O3", "every completion of a wrapping listener reaches the wake-up after the delegate's completion, on every path")
	l.Rule("O4", "a signalled waiter retries delegate.Acquire before it can block again")
	l.Rule("O5", "queue hand-off: attempt + bound check + enqueue are one critical section with unblock; delivery cannot be refused; eviction only with a token in hand; give-up drains under the mutex")
	l.Rule("O6", "a woken caller's retry reaches the gate (decided by the C01/O7 rule on the same tree): the limiter the blocking limiters wrap answers only after asking its strategy, so a retry made after a release sees the freed capacity - a refusal from a remembered \"full\" sends the woken caller back to sleep with capacity free")
	importObligations(p, l, "C01", "O6", func(o *Obligation) bool { return o.Rule == "O7" })
	l.NotCovered = []string{"which waiter is next (C11)", "capacity freed by a limit increase wakes nobody (no completion runs; outside the statement)", "fairness", "goroutine leak of the helper goroutine in blockUntilSignaled"}
	locks := p.Locksets()
	lisNamed := p.coreNamed("Listener")

	// wait primitives: functions (transitively, through go-routines they spawn) calling (*sync.Cond).Wait
	waitPrims := map[*ssa.Function]int{} // -> index of the *sync.Cond parameter
	for _, f := range p.Funcs {
		if !p.InPkg(f, "limiter") || f.Parent() != nil {
			continue
		}
		ci := -1
		for i, q := range f.Params {
			if isSyncType(q.Type(), "Cond") {
				ci = i
			}
		}
		if ci < 0 {
			continue
		}
		waits := false
		for g := range p.Reachable(f) {
			allInstrs(g, func(ins ssa.Instruction) {
				if c := p.CallOf(ins); c != nil && c.Is("(*sync.Cond).Wait") {
					waits = true
				}
			})
		}
		if waits {
			waitPrims[f] = ci
		}
	}

	// ---------------- O1 / O4 at each waiter (function calling a wait primitive and delegate.Acquire)
	for _, f := range p.Funcs {
		if !p.InPkg(f, "limiter") {
			continue
		}
		var waits, acqs []*ssa.Call
		allInstrs(f, func(ins ssa.Instruction) {
			if call, ok := ins.(*ssa.Call); ok {
				c := p.CallOf(call)
				if c.Static != nil {
					if _, ok := waitPrims[c.Static]; ok {
						waits = append(waits, call)
					}
				}
				if p.callsRoleMethod(c, "Limiter", "Acquire") {
					acqs = append(acqs, call)
				}
			}
		})
		if len(waits) == 0 {
			continue
		}
		if _, isPrim := waitPrims[f]; isPrim {
			continue // a wrapper around the wait primitive, not a waiter with a predicate of its own
		}
		key := p.Key(f)
		// O1
		for _, w := range waits {
			c := p.CallOf(w)
			condArg := w.Call.Args[waitPrims[c.Static]]
			condAP := AccessPath(condArg).String()
			lockKey := condAP + ".L"
			var bad []string
			// the predicate: the Acquire calls that can precede this wait in the same iteration
			npred := 0
			for _, a := range acqs {
				if !c13ReachesWithin(a.Block(), w.Block(), a, w) {
					continue
				}
				npred++
				if ex, ok := locks.Held(a)[lockKey]; !ok || !ex {
					bad = append(bad, fmt.Sprintf("%s: the attempt that decides to wait runs without %s; a release (and its Broadcast) between this failed Acquire and the waiter's registration at %s is lost", p.At(a), lockKey, p.At(w)))
				}
			}
			if ex, ok := locks.Held(w)[lockKey]; !ok || !ex {
				bad = append(bad, fmt.Sprintf("%s: the wait is entered without holding %s, so registration on the condition is not atomic with the failed attempt", p.At(w), lockKey))
			}
			if npred == 0 {
				bad = append(bad, "no delegate.Acquire precedes the wait")
			}
			l.Check(len(bad) == 0, "O1", key, p.At(w), "the failed attempt and the registration on the condition are one critical section of "+lockKey, "lost wake-up: a release can fall between 'acquire failed' and 'asleep'", bad...)
		}
		// O4
		{
			var bad []string
			n := 0
			EnumPathsWithLoops(f, 200000, func(pa *Path) bool {
				for _, w := range waits {
					st := pa.StepOf(w)
					if st < 0 {
						continue
					}
					t, known := pa.FactOn(w, len(pa.Blocks))
					if !known || !t {
						continue
					}
					n++
					retried := false
					after := false
					pa.Each(func(step int, ins ssa.Instruction) bool {
						if ins == ssa.Instruction(w) {
							after = true
							return true
						}
						if after {
							for _, a := range acqs {
								if ins == ssa.Instruction(a) {
									retried = true
								}
							}
						}
						return true
					})
					if !retried {
						bad = append(bad, fmt.Sprintf("%s: a signalled wait is not followed by a new attempt before the path %s", p.At(w), map[bool]string{true: "loops back", false: "returns"}[pa.Cut]))
					}
				}
				return len(bad) < 3
			})
			l.Check(len(bad) == 0 && n > 0, "O4", key, p.FuncPos(f), fmt.Sprintf("%d signalled paths; each attempts delegate.Acquire again", n), "a woken waiter does not take the freed capacity", bad...)
		}
	}
	if len(waitPrims) == 0 {
		l.Infra("no condition-variable wait primitive found in package limiter")
	}
	// the primitive that is entered with the lock held must register on the condition before the lock is released:
	// no Unlock of c.L in its own body, and in the goroutine it spawns the first operation on the condition is Wait
	for prim, ci := range waitPrims {
		calledLocked := false
		for _, c := range locks.sites[prim] {
			if len(locks.Held(c.Instr.(ssa.Instruction))) > 0 {
				calledLocked = true
			}
		}
		if !calledLocked {
			continue
		}
		key := p.Key(prim) + "/registers-before-release"
		var bad []string
		condName := rootName(prim.Params[ci])
		allInstrs(prim, func(ins ssa.Instruction) {
			if call, ok := ins.(*ssa.Call); ok {
				if op, k := p.lockOpOf(p.CallOf(call)); (op == opUnlock || op == opRUnlock) && strings.HasPrefix(k, condName+".") {
					bad = append(bad, fmt.Sprintf("%s: the lock is released before the waiter is registered on the condition", p.At(ins)))
				}
			}
		})
		spawned := 0
		for _, g := range prim.AnonFuncs {
			isGo := false
			allInstrs(prim, func(ins ssa.Instruction) {
				if gi, ok := ins.(*ssa.Go); ok && p.funcOfValue(gi.Call.Value) == g {
					isGo = true
				}
			})
			if !isGo {
				continue
			}
			spawned++
			EnumPaths(g, 1000, func(pa *Path) bool {
				first := ""
				pa.Each(func(step int, ins ssa.Instruction) bool {
					call, ok := ins.(*ssa.Call)
					if !ok {
						return true
					}
					c := p.CallOf(call)
					if c.Is("(*sync.Cond).Wait") {
						first = "wait"
						return false
					}
					if op, _ := p.lockOpOf(c); op != opNone {
						first = "lockop"
						return false
					}
					return true
				})
				if first != "wait" && pa.IsReturn() {
					bad = append(bad, "the spawned waiter does not start with Wait on the condition (it would release or re-take the handed-over lock first)")
				}
				return len(bad) < 2
			})
		}
		if spawned == 0 {
			// the primitive may wait in its own goroutine: then Wait must be reached without an unlock (already checked)
		}
		l.Check(len(bad) == 0, "O1", key, p.FuncPos(prim), "entered with the condition's lock held; the lock is released only by Wait itself, after registration", "the waiter can miss a Broadcast between the hand-over of the lock and its registration", bad...)
		// the lock the primitive is entered with is handed to somebody on every way out: the goroutine that Waits (and
		// unlocks when woken), or the primitive's own Wait. A return that does neither leaves the condition's lock held for
		// good: every later Acquire and every completion then parks in Lock(), outside any select.
		{
			var hbad []string
			nret := 0
			EnumPaths(prim, 100000, func(pa *Path) bool {
				if !pa.IsReturn() {
					return true
				}
				nret++
				handed := false
				pa.Each(func(step int, ins ssa.Instruction) bool {
					switch x := ins.(type) {
					case *ssa.Go:
						if g := p.funcOfValue(x.Call.Value); g != nil && c10Waits(p, g, 2) {
							handed = true
						}
					case *ssa.Call:
						if p.CallOf(x).Is("(*sync.Cond).Wait") {
							handed = true
						}
					}
					return true
				})
				if !handed {
					hbad = append(hbad, "a path returns without handing the condition's lock to a waiter: "+joinWitness(p.DescribePath(pa)))
				}
				return len(hbad) < 3
			})
			l.Check(len(hbad) == 0 && nret > 0, "O1", p.Key(prim)+"/lock-handed-over", p.FuncPos(prim), fmt.Sprintf("%d returning paths; each hands the lock it was entered with to a waiter that releases it", nret),
				"the condition's lock can stay held for ever: later callers and completions block outside any timeout or cancellation", hbad...)
		}
	}

	// ---------------- the condition's lock is an exclusive lock
	// (O1 and O2 argue with "holding c.L excludes the other side"; a Locker that takes its mutex in shared mode excludes nobody)
	for _, f := range p.Funcs {
		if !p.InPkg(f, "limiter") {
			continue
		}
		allInstrs(f, func(ins ssa.Instruction) {
			call, ok := ins.(*ssa.Call)
			if !ok {
				return
			}
			c := p.CallOf(call)
			if !c.Is("sync.NewCond") || len(c.Args) != 1 {
				return
			}
			a := c.Args[0]
			if mi, ok := a.(*ssa.MakeInterface); ok {
				a = mi.X
			}
			excl := false
			if pt, ok := a.Type().(*types.Pointer); ok {
				if nt, ok := pt.Elem().(*types.Named); ok && nt.Obj().Pkg() != nil && nt.Obj().Pkg().Path() == "sync" && (nt.Obj().Name() == "Mutex" || nt.Obj().Name() == "RWMutex") {
					excl = true
				}
			}
			l.Check(excl, "O1", p.Key(f)+"/cond-lock-exclusive", p.At(ins), "the condition is built on a *sync.Mutex / *sync.RWMutex: Lock() on c.L excludes every other holder",
				"the condition's Locker is not a plain mutex ("+valueString(a)+"): if it locks in shared mode (RWMutex.RLocker()), a signaller holding c.L does not exclude a waiter between its failed attempt and Wait - the wake-up is lost")
		})
	}

	// ---------------- O2 / O3 at wrapping listeners
	for _, nt := range p.Implementers(p.coreIface("Listener")) {
		if !strings.HasPrefix(p.TypeKey(nt), "limiter.") || len(fieldsOfType(nt, lisNamed)) != 1 {
			continue
		}
		df := fieldsOfType(nt, lisNamed)[0]
		for _, mname := range c02Outcomes {
			m := p.Method(nt, mname)
			if m == nil {
				continue
			}
			key := p.Key(m)
			var bad2, bad3 []string
			n := 0
			hasCond := false
			EnumPaths(m, 100000, func(pa *Path) bool {
				if !pa.IsReturn() {
					return true
				}
				n++
				order := map[ssa.Instruction]int{}
				k := 0
				var deleg, wake ssa.Instruction
				// calls in the order they execute: deferred ones run when the method returns, last deferred first
				var seq, deferred []ssa.Instruction
				pa.Each(func(step int, ins ssa.Instruction) bool {
					switch ins.(type) {
					case *ssa.Call:
						seq = append(seq, ins)
					case *ssa.Defer:
						deferred = append(deferred, ins)
					}
					return true
				})
				for i := len(deferred) - 1; i >= 0; i-- {
					seq = append(seq, deferred[i])
				}
				eachCall := func(fn func(step int, ins ssa.Instruction) bool) {
					for _, ins := range seq {
						if !fn(pa.StepOf(ins), ins) {
							return
						}
					}
				}
				eachCall(func(step int, ins ssa.Instruction) bool {
					k++
					order[ins] = k
					c := p.CallOf(ins)
					if c == nil {
						return true
					}
					for _, o := range c02Outcomes {
						if p.isCoreInvoke(c, "Listener", o) {
							if fr, _, ok := loadedField(strip(c.Recv, false)); ok && sameField(fr, df) {
								deleg = ins
							}
						}
					}
					if c.Is("(*sync.Cond).Broadcast", "(*sync.Cond).Signal") {
						wake = ins
						hasCond = true
						if c.MethodName() == "Signal" {
							bad2 = append(bad2, fmt.Sprintf("%s: Signal wakes a single waiter on the condition; the parked helper goroutine of a caller that already gave up (timeout / cancellation) can absorb it while a live caller stays blocked - Broadcast is required", p.At(ins)))
						}
						lk := AccessPath(c.Recv).String() + ".L"
						if ex, ok := locks.Held(ins)[lk]; !ok || !ex {
							bad2 = append(bad2, fmt.Sprintf("%s: %s without holding %s: it can run between a waiter's failed attempt and its Wait, and wake nobody", p.At(ins), c.MethodName(), lk))
						}
					}
					if c.Static != nil && c.Recv != nil && p.InModule(c.Static) && AccessPath(c.Recv).Root == ssa.Value(m.Params[0]) && c.Static != m {
						// a wake-up helper of the listener or of the limiter it belongs to (unblock): it hands something over
						if c10AlwaysWakes(p, c.Static, 3) {
							wake = ins
						}
					}
					return true
				})
				if deleg == nil || wake == nil || order[wake] < order[deleg] {
					bad3 = append(bad3, "the wake-up does not follow the delegate's completion on the path "+joinWitness(p.DescribePath(pa)))
				}
				return len(bad3) < 3
			})
			l.Check(len(bad3) == 0 && n > 0, "O3", key, p.FuncPos(m), fmt.Sprintf("%d paths; delegate.%s then the wake-up", n, mname), "a completion can free capacity without waking a waiter", bad3...)
			if hasCond {
				l.Check(len(bad2) == 0, "O2", key, p.FuncPos(m), "Broadcast under the condition's lock", "lost wake-up: the signal is not serialised with waiters' registration", bad2...)
			}
		}
	}

	c10RawCompletions(p, l)
	c10Queue(p, l, locks)
	// (d) give-up drains the hand-off channel under the delivery mutex and hands what it finds to its caller (C02/O4)
	importObligations(p, l, "C02", "O5", func(o *Obligation) bool { return o.Rule == "O4" })
}

// c10Queue: O5 for limiters that own a backlog and hand listeners over a channel.
func c10Queue(p *Prog, l *Ledger, locks *LockInfo) {
	lis := p.coreNamed("Listener")
	for _, nt := range p.Implementers(p.coreIface("Limiter")) {
		if !strings.HasPrefix(p.TypeKey(nt), "limiter.") {
			continue
		}
		// has a backlog: a pointer field to a struct with a *list.List
		var blf *FieldRef
		st, ok := nt.Underlying().(*types.Struct)
		if !ok {
			continue
		}
		for i := 0; i < st.NumFields(); i++ {
			if d := derefNamed(st.Field(i).Type()); d != nil {
				if ds, ok := d.Underlying().(*types.Struct); ok {
					for j := 0; j < ds.NumFields(); j++ {
						if isListPtr(ds.Field(j).Type()) {
							f := FieldRef{nt, i, st.Field(i).Name()}
							blf = &f
						}
					}
				}
			}
		}
		if blf == nil {
			continue
		}
		tk := p.TypeKey(nt)
		// (a) enqueue site: a function of nt calling delegate.Acquire and a backlog method that returns a receive channel
		for _, m := range p.MethodsOf(nt) {
			var acq, push, lenCall *ssa.Call
			allInstrs(m, func(ins ssa.Instruction) {
				call, ok := ins.(*ssa.Call)
				if !ok {
					return
				}
				c := p.CallOf(call)
				if p.callsRoleMethod(c, "Limiter", "Acquire") && acq == nil {
					acq = call
				}
				if c.Static != nil && c.Recv != nil {
					if fr, _, ok := fieldPointerLoad(c.Recv); ok && sameField(fr, *blf) {
						res := c.Static.Signature.Results()
						for i := 0; i < res.Len(); i++ {
							if ch, ok := res.At(i).Type().Underlying().(*types.Chan); ok && types.Identical(ch.Elem(), lis) {
								push = call
							}
						}
						if res.Len() == 1 && isIntegral(res.At(0).Type()) {
							lenCall = call
						}
					}
				}
			})
			if acq == nil || push == nil {
				continue
			}
			key := p.Key(m) + "/enqueue"
			var bad []string
			base := AccessPath(p.CallOf(acq).Recv).Parent().String()
			var muKey string
			for _, mu := range mutexFields(nt) {
				muKey = base + "." + mu
			}
			for name, ins := range map[string]*ssa.Call{"failed attempt": acq, "backlog bound check": lenCall, "enqueue": push} {
				if ins == nil {
					bad = append(bad, "cannot find the "+name)
					continue
				}
				if ex, ok := locks.Held(ins)[muKey]; !ok || !ex {
					bad = append(bad, fmt.Sprintf("%s: the %s runs without %s: a release between 'acquire failed' and 'queued' finds an empty backlog and its capacity is offered to nobody", p.At(ins), name, muKey))
				}
			}
			// no unlock between attempt and enqueue on any path
			EnumPaths(m, 200000, func(pa *Path) bool {
				if !pa.Contains(acq) || !pa.Contains(push) {
					return true
				}
				in := false
				pa.Each(func(step int, ins ssa.Instruction) bool {
					if ins == ssa.Instruction(acq) {
						in = true
						return true
					}
					if ins == ssa.Instruction(push) {
						in = false
						return false
					}
					if in {
						if call, ok := ins.(*ssa.Call); ok {
							if op, k := p.lockOpOf(p.CallOf(call)); (op == opUnlock || op == opRUnlock) && k == muKey {
								bad = append(bad, fmt.Sprintf("%s: the mutex is released between the failed attempt and the enqueue", p.At(ins)))
							}
						}
					}
					return true
				})
				return len(bad) < 3
			})
			l.Check(len(bad) == 0, "O5", key, p.At(acq), "failed attempt, bound check and enqueue are one exclusive critical section of "+muKey, "lost hand-off", bad...)
		}
		// (b) delivery cannot be refused; (c) evict only with a token; (d) give-up drains
		for _, f := range p.Funcs {
			if !p.InPkg(f, "limiter") {
				continue
			}
			allInstrs(f, func(ins ssa.Instruction) {
				mc, ok := ins.(*ssa.MakeChan)
				if !ok {
					return
				}
				ch, _ := mc.Type().Underlying().(*types.Chan)
				if ch == nil || !types.Identical(ch.Elem(), lis) {
					return
				}
				key := tk + "/delivery"
				size, isC := constInt(mc.Size)
				// senders
				nonBlockingSend := false
				for _, g := range p.Funcs {
					if !p.InPkg(g, "limiter") {
						continue
					}
					allInstrs(g, func(i2 ssa.Instruction) {
						if s, ok := i2.(*ssa.Select); ok && !s.Blocking {
							for _, stt := range s.States {
								if c2, _ := stt.Chan.Type().Underlying().(*types.Chan); c2 != nil && types.Identical(c2.Elem(), lis) && stt.Dir == types.SendOnly {
									nonBlockingSend = true
								}
							}
						}
					})
				}
				okDeliver := isC && size >= 1 || !nonBlockingSend
				l.Check(okDeliver, "O5", key, p.At(ins), fmt.Sprintf("hand-off channel capacity %d: a delivery to a queued waiter always succeeds", size),
					"non-blocking send on an unbuffered hand-off channel: a waiter that is queued but has not reached its select is refused, evicted and left blocked until its timeout while the capacity is handed back")
			})
		}
	}
	// (c) in the hand-off function: evict and deliver only on the edge where a token is held
	for _, f := range p.Funcs {
		if !p.InPkg(f, "limiter") {
			continue
		}
		var acq *ssa.Call
		var evicts []*ssa.Call
		var delivers []ssa.Instruction
		allInstrs(f, func(ins ssa.Instruction) {
			// a delivery written in place: a select / send offering a Listener on a channel
			switch x := ins.(type) {
			case *ssa.Select:
				for _, st := range x.States {
					if st.Dir == types.SendOnly && st.Send != nil && types.Identical(st.Send.Type(), lis) {
						delivers = append(delivers, ins)
					}
				}
			case *ssa.Send:
				if types.Identical(x.X.Type(), lis) {
					delivers = append(delivers, ins)
				}
			}
			call, ok := ins.(*ssa.Call)
			if !ok {
				return
			}
			c := p.CallOf(call)
			if p.callsRoleMethod(c, "Limiter", "Acquire") {
				acq = call
			}
			if c.Name == "dynamic" && len(c.Args) == 0 {
				if nt, ok := c.FnVal.Type().(*types.Named); ok && nt.Obj().Name() == "EvictFunc" {
					evicts = append(evicts, call)
				}
			}
			if c.Static != nil && len(c.Args) == 1 && types.Identical(c.Args[0].Type(), lis) && p.InModule(c.Static) {
				delivers = append(delivers, call)
			}
		})
		if acq != nil && len(delivers) > 0 && len(evicts) == 0 && f.Signature.Recv() != nil {
			l.Bad("O5", p.Key(f)+"/evict-with-token", p.At(acq), "the hand-off acquires for a waiter and delivers to it, but never calls the waiter's eviction function: the waiter left the backlog some other way (popped before a token was held for it?), so a refused acquire loses it")
			continue
		}
		if acq == nil || len(evicts) == 0 || len(delivers) == 0 {
			continue
		}
		key := p.Key(f) + "/evict-with-token"
		var okV ssa.Value
		if refs := acq.Referrers(); refs != nil {
			for _, r := range *refs {
				if ex, ok := r.(*ssa.Extract); ok && ex.Index == 1 {
					okV = ex
				}
			}
		}
		var bad []string
		n := 0
		EnumPaths(f, 100000, func(pa *Path) bool {
			if !pa.IsReturn() {
				return true
			}
			var both []ssa.Instruction
			for _, e := range evicts {
				both = append(both, e)
			}
			both = append(both, delivers...)
			for _, e := range both {
				st := pa.StepOf(e)
				if st < 0 {
					continue
				}
				n++
				if t, known := pa.FactOn(okV, st+1); !known || !t {
					bad = append(bad, fmt.Sprintf("%s: a waiter is evicted / served on a path that does not hold a token for it", p.At(e)))
				}
			}
			for _, e := range evicts {
				for _, d := range delivers {
					if pa.Contains(d) && !pa.Contains(e) {
						bad = append(bad, fmt.Sprintf("%s: a listener is delivered to a waiter that was not evicted from the backlog", p.At(d)))
					}
				}
			}
			return len(bad) < 3
		})
		l.Check(len(bad) == 0 && n > 0, "O5", key, p.At(acq), "eviction and delivery happen only with a token in hand, eviction first", "a waiter can be removed from the backlog without being served", bad...)
		// (e) "nobody is waiting" is decided under the limiter's mutex too: every way through the hand-off function takes an
		// exclusive lock before it looks at the backlog or returns. A look at the backlog before the lock can fall between a
		// caller's failed attempt and its enqueue (both inside that caller's critical section): the caller then sleeps with
		// the capacity free.
		{
			var ebad []string
			ne := 0
			EnumPaths(f, 100000, func(pa *Path) bool {
				if !pa.IsReturn() {
					return true
				}
				ne++
				locked := false
				// "nobody is waiting" may also be decided holding the mutex shared: arrivals hold it exclusively from their
				// failed attempt to their enqueue, so a reader comes before the attempt or sees the waiter. Only a path
				// that goes on to acquire for a waiter needs it exclusively.
				rlocked, acquires, consulted := false, false, false
				// a helper that every caller enters with an exclusive lock held starts locked
				for _, ex := range locks.Held(f.Blocks[0].Instrs[0]) {
					if ex {
						locked = true
					}
				}
				pa.Each(func(step int, ins ssa.Instruction) bool {
					call, ok := ins.(*ssa.Call)
					if !ok {
						return true
					}
					c := p.CallOf(call)
					if p.callsRoleMethod(c, "Limiter", "Acquire") && !locked {
						acquires = true
					}
					if op, _ := p.lockOpOf(c); op == opLock {
						locked = true
						return true
					} else if op == opRLock {
						rlocked = true
						return true
					} else if op == opRUnlock {
						rlocked = false
						return true
					}
					if !locked && c.Static != nil && c.Recv != nil && p.InModule(c.Static) {
						if d := derefNamed(c.Recv.Type()); d != nil {
							if ds, ok := d.Underlying().(*types.Struct); ok {
								for j := 0; j < ds.NumFields(); j++ {
									if isListPtr(ds.Field(j).Type()) {
										if rlocked {
											consulted = true // decided while arrivals are excluded
										} else {
											ebad = append(ebad, fmt.Sprintf("%s: the backlog is consulted (%s) before the hand-off takes the limiter's mutex", p.At(ins), c.Static.Name()))
										}
									}
								}
							}
						}
					}
					return true
				})
				if !locked && (!consulted || acquires) {
					ebad = append(ebad, "a path through the hand-off returns without taking the limiter's mutex: "+joinWitness(p.DescribePath(pa)))
				}
				return len(ebad) < 3
			})
			l.Check(len(ebad) == 0 && ne > 0, "O5", p.Key(f)+"/decides-under-lock", p.FuncPos(f), "every path takes the limiter's exclusive mutex before it reads the backlog or returns", "a release can conclude that nobody waits while a caller is between its failed attempt and its enqueue", ebad...)
		}
	}
	// (f) an eviction function is called twice for one waiter when its give-up coincides with the hand-off (the hand-off
	// evicts and delivers, then the waiter's give-up path evicts again before it looks for a delivered listener), so all
	// it does must be idempotent: list.Remove is (it checks the element's owner); a counter step, an append, a send or
	// a close executed on every path is not - the backlog's bookkeeping drifts, and a "nobody is waiting" or "backlog
	// full" read from it is wrong for ever after.
	{
		var ibad []string
		ni := 0
		evs := c12Evictors(p)
		var fns []*ssa.Function
		for g := range evs {
			fns = append(fns, g)
		}
		sort.Slice(fns, func(i, j int) bool { return p.Key(fns[i]) < p.Key(fns[j]) })
		for _, g := range fns {
			if g.Blocks == nil {
				continue
			}
			ni++
			var rets []*ssa.BasicBlock
			for _, b := range g.Blocks {
				if len(b.Instrs) > 0 && b != g.Recover {
					if _, ok := b.Instrs[len(b.Instrs)-1].(*ssa.Return); ok {
						rets = append(rets, b)
					}
				}
			}
			everyPath := func(b *ssa.BasicBlock) bool {
				for _, r := range rets {
					if b != r && !b.Dominates(r) {
						return false
					}
				}
				return len(rets) > 0
			}
			allInstrs(g, func(ins ssa.Instruction) {
				what := ""
				switch x := ins.(type) {
				case *ssa.Send:
					what = "a channel send"
				case *ssa.Store:
					if _, ok := p.DeltaOf(ins); ok {
						what = "a counter step"
					} else if call, ok := strip(x.Val, false).(*ssa.Call); ok {
						if c := p.CallOf(call); c != nil && c.Name == "builtin.append" {
							what = "an append"
						}
					}
				case *ssa.Call:
					c := p.CallOf(x)
					if c == nil {
						return
					}
					switch {
					case c.Name == "builtin.close":
						what = "a close"
					case atomicOpOf(c.Name) == "Add" || (strings.HasPrefix(c.Name, "(*sync/atomic.") && strings.HasSuffix(c.Name, ").Add")):
						what = "an atomic counter step"
					case c.Is("(*container/list.List).PushFront", "(*container/list.List).PushBack", "(*sync.WaitGroup).Done", "(*sync.WaitGroup).Add"):
						what = c.Name
					}
				}
				if what != "" && everyPath(ins.Block()) {
					ibad = append(ibad, fmt.Sprintf("%s: %s in %s runs on every call of the eviction function; the second eviction of the same waiter repeats it", p.At(ins), what, p.Key(g)))
				}
			})
		}
		l.Check(len(ibad) == 0 && ni > 0, "O5", "limiter/evict-idempotent", "", fmt.Sprintf("%d eviction function(s) (and what they call): besides locking, only the idempotent list.Remove and plain stores run unconditionally", ni), "evicting a waiter twice (give-up coinciding with the hand-off) corrupts the backlog's bookkeeping: a later release finds nobody to wake, or callers are refused with an empty backlog", ibad...)
	}
	_ = token.ADD
}

// c10Wakes: fn (or a module function it calls statically, to the given depth) sends on a channel or signals a condition.
func c10Wakes(p *Prog, fn *ssa.Function, depth int) bool {
	found := false
	allInstrs(fn, func(ins ssa.Instruction) {
		if found {
			return
		}
		switch x := ins.(type) {
		case *ssa.Send:
			found = true
		case *ssa.Select:
			for _, st := range x.States {
				if st.Dir == types.SendOnly {
					found = true
				}
			}
		case *ssa.Call:
			c := p.CallOf(x)
			if c.Is("(*sync.Cond).Broadcast", "(*sync.Cond).Signal") {
				found = true
			} else if depth > 0 && c.Static != nil && c.Static != fn && p.InModule(c.Static) && c.Static.Blocks != nil {
				if c10Wakes(p, c.Static, depth-1) {
					found = true
				}
			}
		}
	})
	return found
}

// c10Waits: fn (or a module function it calls statically, to the given depth) calls Wait on a condition.
func c10Waits(p *Prog, fn *ssa.Function, depth int) bool {
	found := false
	allInstrs(fn, func(ins ssa.Instruction) {
		if found {
			return
		}
		if c := p.CallOf(ins); c != nil {
			if c.Is("(*sync.Cond).Wait") {
				found = true
			} else if depth > 0 && c.Static != nil && c.Static != fn && p.InModule(c.Static) && c.Static.Blocks != nil && c10Waits(p, c.Static, depth-1) {
				found = true
			}
		}
	})
	return found
}

// c10RawCompletions: inside the queueing limiter a delegate listener (what delegate.Acquire or the hand-off channel
// yielded) is completed only where a delivery to a waiter was refused - the single place where a token is in hand and
// nobody to give it to. Anywhere else, completing it gives the capacity back behind the backlog's back: no waiter is
// woken, and the caller it belonged to is refused although it had been granted.
func c10RawCompletions(p *Prog, l *Ledger) {
	lis := p.coreNamed("Listener")
	var owners []*types.Named
	for _, nt := range p.Implementers(p.coreIface("Limiter")) {
		if !strings.HasPrefix(p.TypeKey(nt), "limiter.") {
			continue
		}
		if st, ok := nt.Underlying().(*types.Struct); ok {
			for i := 0; i < st.NumFields(); i++ {
				if d := derefNamed(st.Field(i).Type()); d != nil {
					if ds, ok := d.Underlying().(*types.Struct); ok {
						for j := 0; j < ds.NumFields(); j++ {
							if isListPtr(ds.Field(j).Type()) {
								owners = append(owners, nt)
							}
						}
					}
				}
			}
		}
	}
	for _, nt := range owners {
		var bad []string
		n := 0
		// the limiter's own methods and those of the listeners it hands out (types holding a pointer to it)
		fns := p.MethodsOf(nt)
		for _, lt := range p.structTypes("limiter") {
			if len(fieldsOfType(lt, types.NewPointer(nt))) > 0 {
				fns = append(fns, p.MethodsOf(lt)...)
			}
		}
		for _, f := range fns {
			allInstrs(f, func(ins ssa.Instruction) {
				call, ok := ins.(*ssa.Call)
				if !ok {
					return
				}
				c := p.CallOf(call)
				isOutcome := false
				for _, o := range c02Outcomes {
					if p.isCoreInvoke(c, "Listener", o) {
						isOutcome = true
					}
				}
				if !isOutcome || c.Recv == nil || !types.Identical(c.Recv.Type(), lis) {
					return
				}
				if _, _, isField := loadedField(strip(c.Recv, false)); isField {
					return // a wrapping listener forwarding to its delegate listener
				}
				n++
				okAll := true
				EnumPathsPrefix(f, call, 100000, func(pa *Path) bool {
					st := pa.StepOf(call)
					refusedDelivery := false
					for _, fct := range pa.Facts {
						if fct.Step > st || fct.True {
							continue
						}
						if dc, isCall := fct.Cond.(*ssa.Call); isCall {
							cc := p.CallOf(dc)
							if cc.Static != nil && p.InModule(cc.Static) && len(cc.Args) == 1 && types.Identical(cc.Args[0].Type(), lis) {
								refusedDelivery = true
							}
						}
					}
					if !refusedDelivery {
						okAll = false
						return false
					}
					return true
				})
				if !okAll {
					bad = append(bad, fmt.Sprintf("%s: %s completes a delegate listener itself (%s) on a path where no delivery to a waiter was refused: the capacity goes back without the next waiter being woken", p.At(ins), p.Key(f), c.Iface.Name()))
				}
			})
		}
		l.Check(len(bad) == 0, "O5", p.TypeKey(nt)+"/raw-completions", "", fmt.Sprintf("%d completion(s) of a delegate listener by the limiter itself, each on the refused-delivery edge", n), "capacity can be released behind the backlog's back", bad...)
	}
}

// c10HandoffFns: the functions that acquire from the delegate for a waiter and deliver to it (the hand-off).
func c10HandoffFns(p *Prog) map[*ssa.Function]bool {
	if p.handoffFns != nil {
		return p.handoffFns
	}
	lis := p.coreNamed("Listener")
	out := map[*ssa.Function]bool{}
	for _, f := range p.Funcs {
		if !p.InPkg(f, "limiter") {
			continue
		}
		acq, deliver := false, false
		allInstrs(f, func(ins ssa.Instruction) {
			switch x := ins.(type) {
			case *ssa.Select:
				for _, st := range x.States {
					if st.Dir == types.SendOnly && st.Send != nil && types.Identical(st.Send.Type(), lis) {
						deliver = true
					}
				}
			case *ssa.Send:
				if types.Identical(x.X.Type(), lis) {
					deliver = true
				}
			case *ssa.Call:
				c := p.CallOf(x)
				if p.callsRoleMethod(c, "Limiter", "Acquire") {
					acq = true
				}
				if c.Static != nil && len(c.Args) == 1 && types.Identical(c.Args[0].Type(), lis) && p.InModule(c.Static) {
					deliver = true
				}
			}
		})
		if acq && deliver {
			out[f] = true
		}
	}
	p.handoffFns = out
	return out
}

// c10AlwaysWakes: calling g wakes whoever can be woken, whatever g decides to look at first: g is a hand-off function
// (which decides under the limiter's mutex that nobody waits), or every returning path of g signals a condition or calls
// a function that always wakes. A helper that skips the hand-off on a test of its own (the backlog looks empty) does not.
func c10AlwaysWakes(p *Prog, g *ssa.Function, depth int) bool {
	if g == nil || g.Blocks == nil {
		return false
	}
	if c10HandoffFns(p)[g] {
		return true
	}
	if depth <= 0 {
		return false
	}
	ok, n := true, 0
	EnumPaths(g, 20000, func(pa *Path) bool {
		if !pa.IsReturn() {
			return true
		}
		n++
		woke := false
		pa.Each(func(step int, ins ssa.Instruction) bool {
			ci, isC := ins.(ssa.CallInstruction)
			if !isC {
				return true
			}
			if _, isGo := ins.(*ssa.Go); isGo {
				return true
			}
			c := p.CallOf(ci)
			if c == nil {
				return true
			}
			if c.Is("(*sync.Cond).Broadcast", "(*sync.Cond).Signal") {
				woke = true
			}
			if c.Static != nil && c.Static != g && p.InModule(c.Static) && c10AlwaysWakes(p, c.Static, depth-1) {
				woke = true
			}
			// a path that returns without waking after having taken an exclusive lock decided under that lock that there
			// is nobody to wake (the hand-off's own "the backlog is empty"): that is the hand-off, split in two functions
			if op, _ := p.lockOpOf(c); op == opLock {
				woke = true
			}
			return !woke
		})
		if !woke {
			ok = false
			return false
		}
		return true
	})
	return ok && n > 0
}
