package main

// E1 — the resolved program: go/packages (LoadAllSyntax) + go/ssa for every package of the
// module under -repo. Nothing is cached between invocations.

import (
	"bytes"
	"fmt"
	"go/token"
	"go/types"
	"os"
	"sort"
	"strings"

	"golang.org/x/tools/go/packages"
	"gclverify/xt/ssa"
	"gclverify/xt/ssa/ssautil"
)

// Prog is the loaded, type-checked, SSA-built module.
type Prog struct {
	Dir    string
	Mod    string // module path
	Arch   string
	Pkgs   []*packages.Package // module packages only
	SSA    *ssa.Program
	Fset   *token.FileSet
	Funcs  []*ssa.Function // every source function of the module incl. anonymous ones
	ByKey  map[string]*ssa.Function
	SPkgs  map[string]*ssa.Package // by path relative to module ("limiter", "limit/functions")
	TPkgs  map[string]*types.Package
	addrTaken map[*ssa.Function]bool
	lockInfo  *LockInfo
	inCallSiteBound int
	immutableField map[string]bool
	handoffFns     map[*ssa.Function]bool
	optCache   map[string]bool
	baselineNames  map[string]bool // bare names of the functions listed in helpers_baseline.txt (variant builder)
	freshFn        map[*ssa.Function]bool
	inlinedSites, removedHelpers []string // variant only: what InlineHelpers did
	Folded         int // branches on constants removed at load time
	constFuncG     map[*ssa.Global]*ssa.Function
	constFuncF     map[string]*ssa.Function
	onlyWriter     map[*ssa.Store]bool
	removed   map[*ssa.Function]bool // helpers that the variant inlined everywhere (dead code in the variant)
	Variant   string // "" = the program as written; otherwise the name of the equivalent variant (variant.go)
}

// required anchor packages (relative to the module root)
var anchorPkgs = []string{
	"core", "limit", "limit/functions", "limiter", "measurements", "strategy", "strategy/matchers",
	"patterns/pool", "grpc", "metric_registry/gometrics", "metric_registry/datadog",
}

const minModulePkgs = 17

func loadProg(dir, goarch string) (*Prog, error) {
	env := os.Environ()
	env = append(env, "GOFLAGS=-mod=mod", "GOPROXY=off", "GOSUMDB=off", "GOTOOLCHAIN=local", "GOWORK=off")
	if goarch != "" {
		env = append(env, "GOARCH="+goarch, "CGO_ENABLED=0")
	}
	cfg := &packages.Config{
		Mode:  packages.LoadAllSyntax | packages.NeedModule,
		Dir:   dir,
		Env:   env,
		Tests: false,
	}
	pkgs, err := packages.Load(cfg, "./...")
	if err != nil {
		return nil, fmt.Errorf("go/packages: %v", err)
	}
	if len(pkgs) == 0 {
		return nil, fmt.Errorf("no packages loaded from %s", dir)
	}
	var errs []string
	packages.Visit(pkgs, nil, func(p *packages.Package) {
		for _, e := range p.Errors {
			errs = append(errs, fmt.Sprintf("%s: %v", p.PkgPath, e))
		}
	})
	if len(errs) > 0 {
		sort.Strings(errs)
		if len(errs) > 8 {
			errs = errs[:8]
		}
		return nil, fmt.Errorf("type-check/load errors (%d): %s", len(errs), strings.Join(errs, "; "))
	}
	mod := ""
	for _, p := range pkgs {
		if p.Module != nil && p.Module.Main {
			mod = p.Module.Path
			break
		}
	}
	if mod == "" {
		return nil, fmt.Errorf("cannot determine main module path")
	}
	sprog, _ := ssautil.AllPackages(pkgs, ssa.InstantiateGenerics)
	sprog.Build()

	pr := &Prog{Dir: dir, Mod: mod, Arch: goarch, SSA: sprog, ByKey: map[string]*ssa.Function{},
		SPkgs: map[string]*ssa.Package{}, TPkgs: map[string]*types.Package{}}
	for _, p := range pkgs {
		if p.Module == nil || !p.Module.Main {
			continue
		}
		pr.Pkgs = append(pr.Pkgs, p)
		if pr.Fset == nil {
			pr.Fset = p.Fset
		}
		rel := strings.TrimPrefix(strings.TrimPrefix(p.PkgPath, mod), "/")
		sp := sprog.Package(p.Types)
		if sp == nil {
			return nil, fmt.Errorf("no SSA package for %s", p.PkgPath)
		}
		pr.SPkgs[rel] = sp
		pr.TPkgs[rel] = p.Types
	}
	if len(pr.Pkgs) < minModulePkgs {
		return nil, fmt.Errorf("only %d module packages loaded (floor %d)", len(pr.Pkgs), minModulePkgs)
	}
	for _, a := range anchorPkgs {
		if pr.SPkgs[a] == nil {
			return nil, fmt.Errorf("anchor package %q not found in module %s", a, mod)
		}
	}
	pr.collectFuncs()
	// branches on a constant (if debugAssertions && ... with const debugAssertions = false) are not control flow: the
	// SSA builder keeps them for fidelity to the source, the analysis removes the dead side
	folded := 0
	for _, f := range pr.Funcs {
		if n := ssa.FoldConstantBranches(f); n > 0 {
			folded += n
			var buf bytes.Buffer
			if e := ssa.FinishInlining(f, &buf); e != nil {
				return nil, fmt.Errorf("constant branch folding in %s: %v: %s", f, e, buf.String())
			}
		}
	}
	pr.Folded = folded
	if folded > 0 {
		pr.computeAddrTaken()
	}
	return pr, nil
}

func (p *Prog) collectFuncs() {
	seen := map[*ssa.Function]bool{}
	var add func(f *ssa.Function)
	add = func(f *ssa.Function) {
		if f == nil || seen[f] || f.Blocks == nil {
			return
		}
		if f.Synthetic != "" && !strings.HasPrefix(f.Synthetic, "package initializer") {
			return
		}
		seen[f] = true
		p.Funcs = append(p.Funcs, f)
		for _, a := range f.AnonFuncs {
			add(a)
		}
	}
	for _, sp := range p.SPkgs {
		for _, m := range sp.Members {
			switch m := m.(type) {
			case *ssa.Function:
				add(m)
			case *ssa.Type:
				nt, ok := m.Type().(*types.Named)
				if !ok {
					continue
				}
				for _, t := range []types.Type{nt, types.NewPointer(nt)} {
					ms := p.SSA.MethodSets.MethodSet(t)
					for i := 0; i < ms.Len(); i++ {
						fn := p.SSA.MethodValue(ms.At(i))
						if fn != nil && fn.Pkg == sp {
							add(fn)
						}
					}
				}
			}
		}
	}
	sort.Slice(p.Funcs, func(i, j int) bool { return p.Key(p.Funcs[i]) < p.Key(p.Funcs[j]) })
	for _, f := range p.Funcs {
		p.ByKey[p.Key(f)] = f
	}
	p.computeAddrTaken()
}

// computeAddrTaken: the functions used as a value (not in call position).
func (p *Prog) computeAddrTaken() {
	p.addrTaken = map[*ssa.Function]bool{}
	for _, f := range p.Funcs {
		for _, b := range f.Blocks {
			for _, ins := range b.Instrs {
				var callee ssa.Value
				if c, ok := ins.(ssa.CallInstruction); ok {
					if _, isGo := ins.(*ssa.Go); !isGo {
						callee = c.Common().Value
					}
				}
				for _, op := range ins.Operands(nil) {
					if op == nil || *op == nil {
						continue
					}
					v := *op
					if v == callee {
						if mc, ok := v.(*ssa.MakeClosure); ok {
							_ = mc
						}
						continue
					}
					switch v := v.(type) {
					case *ssa.Function:
						p.addrTaken[p.unwrap(v)] = true
					}
				}
				if mc, ok := ins.(*ssa.MakeClosure); ok {
					// a closure value: taken unless its only use is being called directly
					fn := mc.Fn.(*ssa.Function)
					direct := true
					if refs := mc.Referrers(); refs != nil {
						for _, r := range *refs {
							c, ok := r.(ssa.CallInstruction)
							if !ok || c.Common().Value != ssa.Value(mc) {
								direct = false
							}
							if _, isGo := r.(*ssa.Go); isGo {
								direct = false
							}
							if _, isDefer := r.(*ssa.Defer); isDefer {
								// deferred closures run in the frame: treat as direct
							}
						}
					}
					if !direct {
						p.addrTaken[p.unwrap(fn)] = true
					}
				}
			}
		}
	}
}

// unwrap maps a bound-method wrapper / thunk to the declared method it wraps.
func (p *Prog) unwrap(f *ssa.Function) *ssa.Function {
	if f == nil {
		return nil
	}
	if f.Synthetic != "" && (strings.HasPrefix(f.Synthetic, "bound method wrapper") || strings.HasPrefix(f.Synthetic, "thunk") || strings.HasPrefix(f.Synthetic, "wrapper for")) {
		if obj, ok := f.Object().(*types.Func); ok && obj != nil {
			if g := p.SSA.FuncValue(obj); g != nil {
				return g
			}
		}
	}
	return f
}

// InModule reports whether the function belongs to the module under analysis.
func (p *Prog) InModule(f *ssa.Function) bool {
	if f == nil {
		return false
	}
	pk := f.Package()
	if pk == nil && f.Parent() != nil {
		return p.InModule(f.Parent())
	}
	if pk == nil {
		if o := f.Origin(); o != nil && o != f {
			pk = o.Package()
		}
	}
	if pk == nil || pk.Pkg == nil {
		return false
	}
	return pk.Pkg.Path() == p.Mod || strings.HasPrefix(pk.Pkg.Path(), p.Mod+"/")
}

func (p *Prog) relPkg(path string) string {
	if path == p.Mod {
		return "."
	}
	return strings.TrimPrefix(path, p.Mod+"/")
}

// Key is a position-independent name: "limiter.DefaultLimiter.Acquire", "limiter.blockUntilSignaled$1".
func (p *Prog) Key(f *ssa.Function) string {
	if f == nil {
		return "<nil>"
	}
	if f.Parent() != nil {
		// anonymous: parent key + $n
		idx := 0
		for i, a := range f.Parent().AnonFuncs {
			if a == f {
				idx = i + 1
			}
		}
		return fmt.Sprintf("%s$%d", p.Key(f.Parent()), idx)
	}
	pkg := ""
	if f.Pkg != nil {
		pkg = p.relPkg(f.Pkg.Pkg.Path())
	} else if obj := f.Object(); obj != nil && obj.Pkg() != nil {
		pkg = p.relPkg(obj.Pkg().Path())
	}
	if f.Signature.Recv() != nil {
		t := f.Signature.Recv().Type()
		if pt, ok := t.(*types.Pointer); ok {
			t = pt.Elem()
		}
		if nt, ok := t.(*types.Named); ok {
			return pkg + "." + nt.Obj().Name() + "." + f.Name()
		}
	}
	return pkg + "." + f.Name()
}

// Pos renders a position relative to the repo directory.
func (p *Prog) Pos(pos token.Pos) string {
	if !pos.IsValid() {
		return "?"
	}
	ps := p.Fset.Position(pos)
	fn := strings.TrimPrefix(ps.Filename, p.Dir+"/")
	return fmt.Sprintf("%s:%d", fn, ps.Line)
}

func (p *Prog) FuncPos(f *ssa.Function) string {
	if f == nil {
		return "?"
	}
	return p.Pos(f.Pos())
}

// Fn looks a function up by key and returns nil when it does not exist.
func (p *Prog) Fn(key string) *ssa.Function { return p.ByKey[key] }

// Named returns the named type pkg.Name (pkg relative to the module) or nil.
func (p *Prog) Named(pkg, name string) *types.Named {
	tp := p.TPkgs[pkg]
	if tp == nil {
		return nil
	}
	obj := tp.Scope().Lookup(name)
	if obj == nil {
		return nil
	}
	tn, ok := obj.(*types.TypeName)
	if !ok {
		return nil
	}
	nt, _ := tn.Type().(*types.Named)
	return nt
}

// Iface returns the interface type pkg.Name.
func (p *Prog) Iface(pkg, name string) *types.Interface {
	nt := p.Named(pkg, name)
	if nt == nil {
		return nil
	}
	it, _ := nt.Underlying().(*types.Interface)
	return it
}

// Implementers lists the module's named (struct or other) types T such that T or *T implements iface,
// sorted by qualified name. Interfaces themselves are skipped.
func (p *Prog) Implementers(iface *types.Interface) []*types.Named {
	var out []*types.Named
	for _, tp := range p.TPkgs {
		sc := tp.Scope()
		for _, n := range sc.Names() {
			tn, ok := sc.Lookup(n).(*types.TypeName)
			if !ok || tn.IsAlias() {
				continue
			}
			nt, ok := tn.Type().(*types.Named)
			if !ok {
				continue
			}
			if _, isI := nt.Underlying().(*types.Interface); isI {
				continue
			}
			if types.Implements(nt, iface) || types.Implements(types.NewPointer(nt), iface) {
				out = append(out, nt)
			}
		}
	}
	sort.Slice(out, func(i, j int) bool { return p.TypeKey(out[i]) < p.TypeKey(out[j]) })
	return out
}

// TypeKey is "limiter.DefaultLimiter".
func (p *Prog) TypeKey(nt *types.Named) string {
	if nt.Obj().Pkg() == nil {
		return nt.Obj().Name()
	}
	return p.relPkg(nt.Obj().Pkg().Path()) + "." + nt.Obj().Name()
}

// Method returns the SSA function of method name on T (value or pointer receiver), or nil.
func (p *Prog) Method(nt *types.Named, name string) *ssa.Function {
	for _, t := range []types.Type{types.NewPointer(nt), nt} {
		ms := p.SSA.MethodSets.MethodSet(t)
		for i := 0; i < ms.Len(); i++ {
			sel := ms.At(i)
			if sel.Obj().Name() == name {
				fn := p.SSA.MethodValue(sel)
				if fn != nil {
					fn = p.unwrap(fn)
					if fn.Blocks != nil && !p.removed[fn] {
						return fn
					}
				}
			}
		}
	}
	return nil
}

// MethodsOf returns all declared methods (not promoted) of the named type.
func (p *Prog) MethodsOf(nt *types.Named) []*ssa.Function {
	var out []*ssa.Function
	for i := 0; i < nt.NumMethods(); i++ {
		if fn := p.SSA.FuncValue(nt.Method(i)); fn != nil && fn.Blocks != nil && !p.removed[fn] {
			out = append(out, fn)
		}
	}
	sort.Slice(out, func(i, j int) bool { return out[i].Name() < out[j].Name() })
	return out
}

// InPkg reports whether the function is declared in the module-relative package rel.
func (p *Prog) InPkg(f *ssa.Function, rel string) bool {
	for f.Parent() != nil {
		f = f.Parent()
	}
	if f.Pkg == nil {
		return false
	}
	return p.relPkg(f.Pkg.Pkg.Path()) == rel
}

func (p *Prog) PkgOf(f *ssa.Function) string {
	for f.Parent() != nil {
		f = f.Parent()
	}
	if f.Pkg == nil {
		// an instance of a generic function belongs to the package of the generic
		if o := f.Origin(); o != nil && o != f && o.Pkg != nil {
			return p.relPkg(o.Pkg.Pkg.Path())
		}
		return ""
	}
	return p.relPkg(f.Pkg.Pkg.Path())
}
