package main

// gclverify — static verification of go-concurrency-limits against the fixed property list.
// Usage: gclverify -repo /repo -verif /verif -property C05 -tier quick [-replay file] [-only key]

import (
	"gclverify/xt/ssa"
	"encoding/json"
	"flag"
	"fmt"
	"os"
	"os/exec"
	"runtime/debug"
	"sort"
	"strconv"
	"strings"
	"time"
)

type ruleSet struct {
	run     func(p *Prog, l *Ledger)
	floors  map[string]int
	explain string
}

var registry = map[string]*ruleSet{}

func register(id string, rs *ruleSet) { registry[id] = rs }

var trustedBase = []string{
	"go/types type checker and go/packages loader (Go toolchain on PATH)",
	"golang.org/x/tools v0.29.0 go/ssa construction",
	"the engines in /verif/checker (paths, lockset, provenance, bound prover), each exercised both ways by /verif/mutants and /verif/seeded",
	"the paper arguments in DESIGN.md that connect the structural obligations to the behavioural property",
}

func main() {
	repo := flag.String("repo", "/repo", "repository working tree to analyse")
	verif := flag.String("verif", "/verif", "verification directory (evidence, known findings)")
	prop := flag.String("property", "", "property id (C01..C20) or 'all'")
	tier := flag.String("tier", "quick", "quick|thorough")
	replay := flag.String("replay", "", "replay file: re-decide only that obligation")
	only := flag.String("only", "", "obligation key: re-decide only that obligation")
	noev := flag.Bool("no-evidence", false, "do not write evidence / replay files")
	list := flag.Bool("list", false, "print every obligation")
	arch := flag.String("goarch", "", "GOARCH for the load (thorough tier uses 386 as a second load)")
	mutants := flag.Bool("mutants", false, "development: replay the mutants of -property (or all) and print which fire")
	par := flag.Int("par", 8, "parallel mutant replays")
	variant := flag.String("variant", "auto", "auto: analyse the program as written and fall back to the helpers-inlined variant when something is not discharged; as-written: never fall back; inlined: analyse only the inlined variant (development)")
	writeHelpers := flag.Bool("write-helper-baseline", false, "development: write helpers_baseline.txt from the tree under -repo")
	flag.Parse()

	if *mutants {
		res, err := runMutants(*repo, *verif, *prop, *par)
		if err != nil {
			fmt.Printf("ERROR mutants: %v\n", err)
			os.Exit(2)
		}
		silent := 0
		for _, r := range res {
			fmt.Printf("%-14s %-44s %s %s\n", r.Status, r.ID, r.Matched, r.Detail)
			if r.Status == "silent" || r.Status == "broken" {
				silent++
			}
		}
		fmt.Printf("mutants=%d silent_or_broken=%d\n", len(res), silent)
		if silent > 0 {
			os.Exit(1)
		}
		os.Exit(0)
	}

	if *replay != "" {
		b, err := os.ReadFile(*replay)
		if err != nil {
			fmt.Printf("ERROR cannot read replay file: %v\n", err)
			os.Exit(2)
		}
		var r struct {
			Property string `json:"property"`
			Key      string `json:"key"`
		}
		if err := json.Unmarshal(b, &r); err != nil || r.Key == "" {
			fmt.Printf("ERROR bad replay file %s\n", *replay)
			os.Exit(2)
		}
		*only = r.Key
		if *prop == "" {
			*prop = r.Property
		}
	}
	var ids []string
	if *prop == "all" {
		for id := range registry {
			ids = append(ids, id)
		}
		sort.Strings(ids)
	} else {
		ids = strings.Split(*prop, ",")
	}
	if len(ids) == 0 || ids[0] == "" {
		fmt.Println("ERROR -property required")
		os.Exit(2)
	}
	seed := 0
	if s := os.Getenv("VERIF_SEED"); s != "" {
		seed, _ = strconv.Atoi(s)
	}
	t0 := time.Now()
	pr, err := loadProg(*repo, *arch)
	if err != nil {
		fmt.Printf("ERROR load failed: %v\n", err)
		os.Exit(2)
	}
	rc = runContext{repo: *repo, arch: *arch, verif: *verif, orig: pr}
	if *writeHelpers {
		var ks []string
		for _, f := range pr.Funcs {
			if pr.helperEligible(f) {
				ks = append(ks, pr.Key(f))
			}
		}
		sort.Strings(ks)
		os.WriteFile(*verif+"/helpers_baseline.txt", []byte("# unexported helper functions of the tree the rules were developed against (validated_tree). The first fallback\n# variant (checker/variant.go) inlines only helpers that are NOT listed here, i.e. helpers introduced by later changes.\n# The list steers which equivalent program variant is analysed; it never suppresses a report.\n"+strings.Join(ks, "\n")+"\n"), 0o644)
		fmt.Printf("wrote %d helper keys\n", len(ks))
		os.Exit(0)
	}
	if *variant == "inlined" {
		var noInline map[string]bool
		if only := os.Getenv("GCLVERIFY_INLINE_ONLY"); only != "" {
			// development: inline just the named helpers
			noInline = map[string]bool{}
			want := map[string]bool{}
			for _, k := range strings.Split(only, ",") {
				want[k] = true
			}
			for _, f := range pr.Funcs {
				if !want[pr.Key(f)] {
					noInline[pr.Key(f)] = true
				}
			}
		}
		inl, rem, err := pr.InlineHelpers(noInline)
		if err != nil {
			fmt.Printf("ERROR inlining failed: %v\n", err)
			os.Exit(2)
		}
		if *list {
			for _, s := range inl {
				fmt.Println("  inlined:", s)
			}
			for _, s := range rem {
				fmt.Println("  removed:", s)
			}
		}
		fmt.Printf("variant helpers-inlined: %d call sites inlined, %d helpers removed\n", len(inl), len(rem))
	}
	exit := 0
	for _, id := range ids {
		rs := registry[id]
		if rs == nil {
			fmt.Printf("ERROR property=%s no check registered\n", id)
			exit = 2
			continue
		}
		code := runOne(pr, id, rs, *tier, *verif, *only, seed, *noev, *list, t0, *repo, *par, *variant == "auto", *arch)
		t0 = time.Now()
		if code > exit {
			exit = code
		}
	}
	os.Exit(exit)
}

func runRules(pr *Prog, id string, rs *ruleSet, tier, only string, t0 time.Time) *Ledger {
	l := NewLedger(id, tier)
	l.start = t0
	l.only = only
	l.Count("packages", len(pr.Pkgs))
	l.Count("functions_in_module", len(pr.Funcs))
	func() {
		defer func() {
			if r := recover(); r != nil {
				l.Fatal("checker panic: %v\n%s", r, debug.Stack())
			}
		}()
		curProg = pr
		canonCache = map[ssa.Value]canonCond{}
		activeRules = map[string]bool{id: true}
		rs.run(pr, l)
	}()
	return l
}

func runOne(pr *Prog, id string, rs *ruleSet, tier, verif, only string, seed int, noev, list bool, t0 time.Time, repo string, par int, fallback bool, arch string) (code int) {
	l := runRules(pr, id, rs, tier, only, t0)
	if os.Getenv("GCLVERIFY_FORCE_V1") != "" && pr.Variant == "" {
		// development: report the verdicts of the first fallback variant whatever the as-written result
		pv, err := loadProg(repo, arch)
		if err == nil {
			inl, rem, _ := pv.InlineHelpers(claimsOf(pr, l, verif))
			fmt.Printf("  forced variant unclaimed-helpers-inlined: inlined %v removed %v\n", inl, rem)
			pv.Variant = "unclaimed-helpers-inlined"
			l = runRules(pv, id, rs, tier, only, t0)
		}
	} else if fallback && only == "" && pr.Variant == "" && len(l.infraErrs) == 0 {
		if open := l.Unlisted(verif, rs.floors); len(open) > 0 {
			if lv := decideOnVariants(pr, l, open, id, rs, tier, verif, t0, repo, arch); lv != nil {
				l = lv
			}
		}
	}
	if tier == "thorough" && only == "" && os.Getenv("GCLVERIFY_CHILD") == "" {
		thorough(pr, id, rs, l, repo, verif, par)
	}
	if list {
		for _, o := range l.Obls {
			fmt.Printf("  [%s] %s @%s: %s\n", o.Verdict, o.Key, o.Anchor, o.Detail)
		}
	}
	return l.Finish(finishOpts{verifDir: verif, floors: rs.floors, explain: rs.explain, trusted: trustedBase, seed: seed,
		checkerCmd: fmt.Sprintf("./run.sh %s %s", id, tier), noEvidence: noev})
}

// decideOnVariants: the rules left something undischarged on the program as written. Run them on equivalent variants
// of the program (variant.go); the first variant on which everything is discharged decides the property. Returns nil
// when no variant does (the as-written report stands).
func decideOnVariants(pr *Prog, l *Ledger, open []*Obligation, id string, rs *ruleSet, tier, verif string, t0 time.Time, repo, arch string) *Ledger {
	claims := claimsOf(pr, l, verif)
	var prevInlined string
	for _, v := range []struct {
		name        string
		keep        map[string]bool
		lowerDefers bool
	}{{"unclaimed-helpers-inlined", claims, false}, {"unclaimed-helpers-inlined, deferring helpers too", claims, true}} {
		// (A second variant with every helper inlined was tried and withdrawn: rules that hang an obligation on the call
		// of a helper they know by role lose that obligation when the helper is inlined, so a real defect - mutant
		// c11-peek-evicts-neighbour - passed on it.)
		pv, inl, rem := variantFor(v.keep, v.lowerDefers)
		if pv == nil {
			continue
		}
		sig := strings.Join(inl, ";")
		if sig == prevInlined {
			continue
		}
		prevInlined = sig
		lv := runRules(pv, id, rs, tier, "", t0)
		if len(lv.infraErrs) > 0 || len(lv.Unlisted(verif, rs.floors)) > 0 {
			// the as-written report stands; where it could only say "shape not recognised" and the variant names the
			// violating construct, say that instead (the variant is an equivalent program: what it violates the program violates)
			for _, o := range l.Obls {
				if o.Verdict != Undecided {
					continue
				}
				if ov := lv.byKey[o.Key]; ov != nil && ov.Verdict == Violated {
					o.Verdict = Violated
					o.Detail = ov.Detail + " (found on the equivalent program with the new helpers inlined; as written: " + o.Detail + ")"
					o.Witness = ov.Witness
					if ov.Anchor != "" {
						o.Anchor = ov.Anchor
					}
				}
			}
			continue
		}
		var keys []string
		for _, o := range open {
			keys = append(keys, o.Key+": "+o.Detail)
		}
		lv.Note("decided on the equivalent program variant %q (helpers inlined at their static call sites; inlining preserves accesses, locking and order of effects). On the program as written %d obligation(s) were not discharged because the rules read one function at a time: %s", v.name, len(open), strings.Join(keys, " | "))
		lv.Extra["variant"] = map[string]interface{}{"name": v.name, "inlined_call_sites": inl, "helpers_removed": rem, "as_written_open": keys}
		fmt.Printf("  %s: %d obligation(s) not discharged on the program as written; all discharged on variant %s (%d call sites inlined)\n", id, len(open), v.name, len(inl))
		return lv
	}
	return nil
}

func loadHelperBaseline(verif string) map[string]bool {
	out := map[string]bool{}
	b, err := os.ReadFile(verif + "/helpers_baseline.txt")
	if err != nil {
		return out
	}
	for _, ln := range strings.Split(string(b), "\n") {
		ln = strings.TrimSpace(ln)
		if ln != "" && !strings.HasPrefix(ln, "#") {
			out[ln] = true
		}
	}
	return out
}

// thorough: second load under GOARCH=386 (verdicts must agree) and the sensitivity replay of the mutants.
func thorough(pr *Prog, id string, rs *ruleSet, l *Ledger, repo, verif string, par int) {
	p2, err := loadProg(repo, "386")
	if err != nil {
		l.Fatal("thorough: GOARCH=386 load failed: %v", err)
	} else {
		saved := rc
		rc = runContext{repo: repo, arch: "386", verif: verif, orig: p2}
		l2 := runSub(p2, id, rs, "thorough")
		for _, e := range l2.infraErrs {
			l.Fatal("on the 386 load: %s", e)
		}
		rc = saved
		diff := 0
		for _, o2 := range l2.Obls {
			o1 := l.byKey[o2.Key]
			if o1 == nil {
				diff++
				l.Add(o2.Rule, strings.TrimPrefix(o2.Key, id+"/"+o2.Rule+"/")+"[386]", o2.Anchor, o2.Verdict, "only present under GOARCH=386: "+o2.Detail, o2.Witness...)
				continue
			}
			if rank(o2.Verdict) > rank(o1.Verdict) {
				diff++
				o1.Verdict, o1.Detail, o1.Witness = o2.Verdict, "[GOARCH=386] "+o2.Detail, o2.Witness
			}
		}
		l.Extra["second_load_goarch_386"] = map[string]interface{}{"obligations": len(l2.Obls), "stricter_verdicts": diff}
	}
	res, err := runMutants(repo, verif, id, par)
	if err != nil {
		l.Fatal("thorough: mutants: %v", err)
		return
	}
	cnt := map[string]int{}
	for _, r := range res {
		cnt[r.Status]++
	}
	l.Extra["sensitivity"] = map[string]interface{}{"applied": len(res) - cnt["not_applicable"], "fired": cnt["fired"], "silent": cnt["silent"],
		"not_applicable": cnt["not_applicable"], "broken": cnt["broken"], "results": res}
	fmt.Printf("  sensitivity replay: mutants=%d fired=%d silent=%d not_applicable=%d broken=%d\n", len(res), cnt["fired"], cnt["silent"], cnt["not_applicable"], cnt["broken"])
	for _, r := range res {
		if r.Status == "silent" || r.Status == "broken" {
			fmt.Printf("  SENSITIVITY %s %s: %s\n", r.Status, r.ID, r.Detail)
		}
	}
	// on the very tree the mutants were validated against, a silent mutant is a checker regression
	if cnt["silent"]+cnt["broken"] > 0 && treeIsValidated(repo, verif) {
		l.Fatal("sensitivity replay: %d mutant(s) no longer detected on the validated tree", cnt["silent"]+cnt["broken"])
	}
}

func treeIsValidated(repo, verif string) bool {
	b, err := os.ReadFile(verif + "/validated_tree")
	if err != nil {
		return false
	}
	want := strings.TrimSpace(string(b))
	head, err := exec.Command("git", "-C", repo, "rev-parse", "HEAD").Output()
	if err != nil || strings.TrimSpace(string(head)) != want {
		return false
	}
	st, err := exec.Command("git", "-C", repo, "status", "--porcelain").Output()
	return err == nil && len(strings.TrimSpace(string(st))) == 0
}

// importObligations runs another property's rules on the same program and copies the obligations selected by keep
// into l under rule id `as` (the imported property's clauses are prerequisites of l's property; they are decided by
// the same code as in their own check).
// rc: what a run needs to re-load the program (variants are built from a fresh load) and the program as written that is
// being decided. Imports are decided on rc.orig with their own fallback, whatever program the importer is looking at.
type runContext struct {
	repo, arch, verif string
	orig              *Prog
	variants          map[string]*Prog
	order             []string
}

var rc runContext

// variantFor returns (building it on first use) the equivalent program in which the helpers not in keep are inlined;
// nil when nothing would be inlined or the variant cannot be built.
func variantFor(keep map[string]bool, lowerDefers bool) (*Prog, []string, []string) {
	var ks []string
	for k := range keep {
		ks = append(ks, k)
	}
	sort.Strings(ks)
	sig := strings.Join(ks, ";")
	if lowerDefers {
		sig = "defers+" + sig
	}
	if rc.variants == nil {
		rc.variants = map[string]*Prog{}
	}
	if pv, ok := rc.variants[sig]; ok {
		if pv == nil {
			return nil, nil, nil
		}
		return pv, pv.inlinedSites, pv.removedHelpers
	}
	pv, err := loadProg(rc.repo, rc.arch)
	if err != nil {
		rc.variants[sig] = nil
		return nil, nil, nil
	}
	ssa.LowerDefers = lowerDefers
	inl, rem, err := pv.InlineHelpers(keep)
	ssa.LowerDefers = false
	if err != nil || len(inl) == 0 {
		rc.variants[sig] = nil
		return nil, nil, nil
	}
	pv.Variant = "unclaimed-helpers-inlined"
	pv.inlinedSites, pv.removedHelpers = inl, rem
	rc.variants[sig] = pv
	rc.order = append(rc.order, sig)
	if len(rc.order) > 3 {
		delete(rc.variants, rc.order[0])
		rc.order = rc.order[1:]
	}
	return pv, inl, rem
}

// runSub runs the rules of one property on a program into a fresh ledger, keeping the per-program globals consistent.
func runSub(pr *Prog, id string, rs *ruleSet, tier string) *Ledger {
	sub := NewLedger(id, tier)
	savedProg, savedCache := curProg, canonCache
	curProg = pr
	canonCache = map[ssa.Value]canonCond{}
	func() {
		defer func() {
			if r := recover(); r != nil {
				sub.Fatal("checker panic: %v\n%s", r, debug.Stack())
			}
		}()
		rs.run(pr, sub)
	}()
	curProg, canonCache = savedProg, savedCache
	return sub
}

// nestedFloors: the vacuity floors that apply to a property decided as an import: all of them except those of rules that
// are themselves fed by imports (an import back into the active chain is skipped, so such a rule is legitimately empty).
func nestedFloors(sub *Ledger, floors map[string]int) map[string]int {
	out := map[string]int{}
	for r, n := range floors {
		if !sub.importFed[r] {
			out[r] = n
		}
	}
	return out
}

// activeRules: the properties whose rules are running (the one being decided and the chain of imports), so that two
// properties can import each other's obligations without recursing.
var activeRules = map[string]bool{}

func importObligations(p *Prog, l *Ledger, from, as string, keep func(o *Obligation) bool) int {
	rs := registry[from]
	if rs == nil {
		l.Infra("cannot import obligations of %s", from)
		return 0
	}
	if l.importFed == nil {
		l.importFed = map[string]bool{}
	}
	l.importFed[as] = true
	if activeRules[from] {
		return 0 // the importing chain started there: its obligations are already on the report
	}
	activeRules[from] = true
	defer delete(activeRules, from)
	// the imported property is decided the way its own check decides it: on the program as written, and when that leaves
	// something open, on the equivalent variant - independently of which program the importing rules are looking at
	orig := rc.orig
	if orig == nil {
		orig = p
	}
	sub := runSub(orig, from, rs, l.Tier)
	if orig.Variant == "" && rc.repo != "" && len(sub.infraErrs) == 0 {
		// (in a nested run the vacuity floors of import-fed rules do not apply: an import back into the active chain is
		// skipped, so such a rule is legitimately empty here)
		if open := sub.Unlisted(rc.verif, nestedFloors(sub, rs.floors)); len(open) > 0 {
			keepSet := loadHelperBaseline(rc.verif)
			for k := range sub.claimed {
				keepSet[k] = true
			}
			pv, _, _ := variantFor(keepSet, false)
			var sv *Ledger
			if pv != nil {
				sv = runSub(pv, from, rs, l.Tier)
			}
			if sv == nil || len(sv.infraErrs) > 0 || len(sv.Unlisted(rc.verif, nestedFloors(sv, rs.floors))) > 0 {
				// second variant: helpers that defer are inlined too (their deferred calls made explicit at their returns)
				if pv2, inl2, _ := variantFor(keepSet, true); pv2 != nil && (pv == nil || strings.Join(inl2, ";") != strings.Join(pv.inlinedSites, ";")) {
					sv2 := runSub(pv2, from, rs, l.Tier)
					if len(sv2.infraErrs) == 0 && len(sv2.Unlisted(rc.verif, nestedFloors(sv2, rs.floors))) == 0 {
						pv, sv = pv2, sv2
					} else if sv == nil {
						pv, sv = pv2, sv2
					}
				}
			}
			if pv != nil && sv != nil {
				if len(sv.infraErrs) == 0 && len(sv.Unlisted(rc.verif, nestedFloors(sv, rs.floors))) == 0 {
					l.Note("the obligations imported from %s were decided on the equivalent program variant (helpers not in helpers_baseline.txt inlined): %d were open on the program as written", from, len(open))
					sub = sv
				} else {
					for _, o := range sub.Obls {
						if ov := sv.byKey[o.Key]; o.Verdict == Undecided && ov != nil && ov.Verdict == Violated {
							o.Verdict, o.Witness = Violated, ov.Witness
							o.Detail = ov.Detail + " (found on the equivalent program with the new helpers inlined; as written: " + o.Detail + ")"
						}
					}
				}
			}
		}
	}
	n := 0
	for _, o := range sub.Obls {
		if keep != nil && !keep(o) {
			continue
		}
		n++
		l.Add(as, o.Key, o.Anchor, o.Verdict, "["+from+"] "+o.Detail, o.Witness...)
	}
	// a rule of the imported property that lost its anchors produces nothing to import: that is an open obligation of the
	// importer too (the imported property's own vacuity floor, for the rules this import keeps)
	for r, floor := range nestedFloors(sub, rs.floors) {
		if c := sub.CountRule(r); c < floor {
			probe := &Obligation{Rule: r, Key: from + "/" + r + "/", Verdict: Undecided}
			if keep == nil || keep(probe) {
				n++
				l.Add(as, from+"/"+r+"/vacuity", "", Undecided, fmt.Sprintf("[%s] rule %s/%s produced %d obligations, floor is %d: the constructs it reads are gone, so what it establishes is not established", from, from, r, c, floor))
			}
		}
	}
	return n
}
