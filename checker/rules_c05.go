package main

import (
	"fmt"
	"go/token"
	"go/types"

	"gclverify/xt/ssa"
)

func init() {
	register("C05", &ruleSet{
		run:    runC05,
		floors: map[string]int{"O1": 1, "O2": 1, "O3": 4, "O4": 4, "O5": 1, "O6": 4},
		explain: "Decides, from the SSA of every path, that (O1) each constructor of a limiter owning a limit and a strategy passes " +
			"strategy.SetLimit(limit.EstimatedLimit()) on every path that returns the limiter; (O2) every call of the limit's OnSample on such a limiter " +
			"is followed on every path, before return and with the limiter's exclusive mutex held throughout, by SetLimit(EstimatedLimit()) on the same " +
			"limit/strategy pair; (O3) every Strategy.SetLimit stores exactly max(1,arg) and hands that same floored value to every partition share update; " +
			"(O4) the enforced-limit fields have no other writer. These are necessary conditions of 'enforcement follows the estimate'; which values the " +
			"algorithm produces is not decided here.",
	})
}

// limiterOwners: limiter types with a core.Limit field and a core.Strategy field.
type limiterOwner struct {
	T     *types.Named
	Limit FieldRef
	Strat FieldRef
}

func (p *Prog) limiterOwners() []limiterOwner {
	var out []limiterOwner
	li := p.coreIface("Limiter")
	if li == nil {
		return nil
	}
	for _, nt := range p.Implementers(li) {
		lf := fieldsOfType(nt, p.coreNamed("Limit"))
		sf := fieldsOfType(nt, p.coreNamed("Strategy"))
		if len(lf) == 1 && len(sf) == 1 {
			out = append(out, limiterOwner{nt, lf[0], sf[0]})
		}
	}
	return out
}

// isEstimateOf: v is the result of EstimatedLimit() invoked on a value for which recvOK holds, with no
// arithmetic in between (conversions that preserve the value are allowed).
func (p *Prog) isEstimateCall(v ssa.Value, recvOK func(recv ssa.Value) bool) bool {
	v = strip(v, true)
	call, ok := v.(*ssa.Call)
	if !ok {
		return false
	}
	c := p.CallOf(call)
	if !p.callsRoleMethod(c, "Limit", "EstimatedLimit") {
		return false
	}
	return recvOK(c.Recv)
}

func runC05(p *Prog, l *Ledger) {
	l.Rule("O1", "constructor: every path returning the limiter passes strategy.SetLimit(limit.EstimatedLimit()) on the stored limit/strategy pair")
	l.Rule("O2", "every Limit.OnSample call on a limiter's limit is followed, on every path and under the limiter's exclusive mutex, by strategy.SetLimit(limit.EstimatedLimit())")
	l.Rule("O3", "Strategy.SetLimit stores exactly max(1,arg) into its limit field on every path (or leaves it when already equal) and passes the same floored value to every share update")
	l.Rule("O4", "enforced-limit fields of strategies are written only by their constructors and SetLimit")
	l.Rule("O5", "every partition share is recomputed from the value it is given and from nothing else: UpdateLimit stores exactly max(1, ceil(float(total) x fraction)) (shared with C03/O2)")
	l.Rule("O6", "share coverage (decided by the C03/O3 rules on the same tree): every selectable partition is given UpdateLimit(current total) in the constructor, in SetLimit and when added dynamically, in the critical section that publishes it; bin limits have no other writer")
	l.NotCovered = []string{"which values the limit algorithm produces", "callers that change a SettableLimit directly (no completion runs)"}
	importObligations(p, l, "C03", "O6", func(o *Obligation) bool { return o.Rule == "O3" })

	owners := p.limiterOwners()
	if len(owners) == 0 {
		l.Infra("no limiter type with a core.Limit and a core.Strategy field found")
		return
	}
	locks := p.Locksets()

	// ---- O1
	for _, ow := range owners {
		ctors := p.Constructors(ow.T)
		if len(ctors) == 0 {
			l.Infra("no constructor found for %s", p.TypeKey(ow.T))
		}
		for _, ctor := range ctors {
			allocs := p.allocsOf(ctor, ow.T)
			npaths, nret := 0, 0
			var bad []string
			_, trunc := EnumPaths(ctor, 200000, func(pa *Path) bool {
				npaths++
				rv := pa.ReturnValues()
				var al *ssa.Alloc
				for _, r := range rv {
					for _, a := range allocs {
						if strip(r, false) == ssa.Value(a) {
							al = a
						}
					}
				}
				if al == nil {
					return true
				}
				nret++
				vL := storesInto(al, ow.Limit)
				vS := storesInto(al, ow.Strat)
				if len(vL) != 1 || len(vS) != 1 {
					bad = append(bad, fmt.Sprintf("limit/strategy fields of the new %s are not each stored exactly once (%d, %d stores)", ow.T.Obj().Name(), len(vL), len(vS)))
					return true
				}
				good, wrong := 0, 0
				pa.Each(func(step int, ins ssa.Instruction) bool {
					c := p.CallOf(ins)
					if c == nil || !p.callsRoleMethod(c, "Strategy", "SetLimit") || len(c.Args) != 1 {
						return true
					}
					if strip(pa.Resolve(c.Recv, step), false) != strip(vS[0], false) {
						return true
					}
					if p.isEstimateCall(pa.Resolve(c.Args[0], step), func(r ssa.Value) bool { return strip(r, false) == strip(vL[0], false) }) {
						good++
					} else {
						wrong++
						bad = append(bad, fmt.Sprintf("%s: SetLimit argument is not limit.EstimatedLimit() of the stored limit: %s", p.At(ins), valueString(c.Args[0])))
					}
					return true
				})
				if good == 0 && wrong == 0 {
					bad = append(bad, "path returns the limiter without strategy.SetLimit(limit.EstimatedLimit()): "+joinWitness(p.DescribePath(pa)))
				}
				return len(bad) < 3
			})
			l.Count("paths", npaths)
			key := p.Key(ctor)
			if trunc {
				l.Unknown("O1", key, p.FuncPos(ctor), "path enumeration truncated")
				continue
			}
			if nret == 0 {
				l.Unknown("O1", key, p.FuncPos(ctor), "no path returns the allocated limiter")
				continue
			}
			l.Check(len(bad) == 0, "O1", key, p.FuncPos(ctor),
				fmt.Sprintf("%d paths, %d return the limiter, each passes SetLimit(EstimatedLimit()) on the stored pair", npaths, nret),
				"constructor can return a limiter whose strategy was not given the limit's estimate", bad...)
		}
	}

	// ---- O2
	ownerByType := map[string]limiterOwner{}
	for _, ow := range owners {
		ownerByType[p.TypeKey(ow.T)] = ow
	}
	for _, f := range p.Funcs {
		idx := 0
		allInstrs(f, func(ins ssa.Instruction) {
			c := p.CallOf(ins)
			if c == nil || !p.callsRoleMethod(c, "Limit", "OnSample") {
				return
			}
			fr, base, ok := loadedField(strip(c.Recv, false))
			if !ok {
				return
			}
			ow, isOwner := ownerByType[p.TypeKey(fr.Type)]
			if !isOwner || !sameField(fr, ow.Limit) {
				return
			}
			idx++
			key := fmt.Sprintf("%s/OnSample#%d", p.Key(f), idx)
			baseAP := AccessPath(base).String()
			mus := mutexFields(ow.T)
			// lock at the OnSample call
			held := locks.Held(ins)
			muKey := ""
			for _, m := range mus {
				if excl, ok := held[baseAP+"."+m]; ok && excl {
					muKey = baseAP + "." + m
				}
			}
			if muKey == "" {
				l.Bad("O2", key, p.At(ins), fmt.Sprintf("limit.OnSample is called without the limiter's exclusive mutex (held: %s)", held))
				return
			}
			npaths := 0
			var bad []string
			_, trunc := EnumPaths(f, 100000, func(pa *Path) bool {
				st := pa.StepOf(ins)
				if st < 0 {
					return true
				}
				npaths++
				seen := false
				okPath := false
				var why string
				pa.Each(func(step int, i2 ssa.Instruction) bool {
					if i2 == ins {
						seen = true
						return true
					}
					if !seen {
						return true
					}
					c2 := p.CallOf(i2)
					if c2 == nil {
						return true
					}
					if _, isCall := i2.(*ssa.Call); !isCall {
						return true
					}
					if op, k := p.lockOpOf(c2); (op == opUnlock || op == opRUnlock) && k == muKey {
						why = fmt.Sprintf("%s: limiter mutex released before the strategy is updated", p.At(i2))
						return false
					}
					if p.callsRoleMethod(c2, "Limit", "OnSample") {
						return true
					}
					if p.callsRoleMethod(c2, "Strategy", "SetLimit") && len(c2.Args) == 1 && loadOfFieldOn(c2.Recv, ow.Strat, baseAP) {
						if p.isEstimateCall(pa.Resolve(c2.Args[0], step), func(r ssa.Value) bool { return loadOfFieldOn(r, ow.Limit, baseAP) }) {
							// the EstimatedLimit() call itself must come after OnSample
							ec := strip(pa.Resolve(c2.Args[0], step), true).(*ssa.Call)
							if !instrAfterOnPath(pa, ins, ec) {
								why = fmt.Sprintf("%s: SetLimit uses an estimate read before OnSample", p.At(i2))
								return false
							}
							if excl, ok := locks.Held(i2)[muKey]; !ok || !excl {
								why = fmt.Sprintf("%s: SetLimit is not under the limiter's exclusive mutex", p.At(i2))
								return false
							}
							okPath = true
							return false
						}
						why = fmt.Sprintf("%s: SetLimit argument is not limit.EstimatedLimit() of the same limiter: %s", p.At(i2), valueString(c2.Args[0]))
						return false
					}
					return true
				})
				if !okPath {
					if why == "" {
						why = "path reaches return after OnSample without strategy.SetLimit(limit.EstimatedLimit()): " + joinWitness(p.DescribePath(pa))
					}
					bad = append(bad, why)
				}
				return len(bad) < 3
			})
			l.Count("paths", npaths)
			if trunc {
				l.Unknown("O2", key, p.At(ins), "path enumeration truncated")
				return
			}
			l.Check(len(bad) == 0, "O2", key, p.At(ins),
				fmt.Sprintf("%d paths through the call; each continues with SetLimit(EstimatedLimit()) on %s under %s", npaths, baseAP, muKey),
				"an update of the limit algorithm can complete without the strategy being given the new estimate", bad...)
		})
	}

	c05Shares(p, l)

	// ---- O3 / O4
	si := p.coreIface("Strategy")
	strategies := p.Implementers(si)
	for _, st := range strategies {
		fn := p.Method(st, "SetLimit")
		if fn == nil || len(fn.Params) != 2 {
			l.Infra("strategy %s has no SetLimit(limit)", p.TypeKey(st))
			continue
		}
		param := fn.Params[1]
		// limit field: fields of the receiver written in SetLimit
		var limitFields []FieldRef
		for _, a := range p.Accesses(fn) {
			if a.Write && types.Identical(a.Field.Type, st) {
				dup := false
				for _, f := range limitFields {
					if sameField(f, a.Field) {
						dup = true
					}
				}
				if !dup {
					limitFields = append(limitFields, a.Field)
				}
			}
		}
		key := p.Key(fn)
		if len(limitFields) != 1 {
			l.Unknown("O3", key, p.FuncPos(fn), fmt.Sprintf("SetLimit writes %d fields of its receiver; expected exactly one enforced-limit field", len(limitFields)))
			continue
		}
		lf := limitFields[0]
		writes := map[ssa.Instruction]FieldAccess{}
		for _, a := range p.Accesses(fn) {
			if a.Write && sameField(a.Field, lf) {
				writes[a.Instr] = a
			}
		}
		npaths := 0
		var bad []string
		_, trunc := EnumPaths(fn, 100000, func(pa *Path) bool {
			if !pa.IsReturn() {
				return true
			}
			npaths++
			nw := 0
			pa.Each(func(step int, ins ssa.Instruction) bool {
				if a, ok := writes[ins]; ok {
					nw++
					if why := flooredParam(pa, a.Val, param, step); why != "" {
						bad = append(bad, fmt.Sprintf("%s: value stored into %s is not max(1, %s): %s", p.At(ins), p.FieldKey(lf), param.Name(), why))
					}
					return true
				}
				c := p.CallOf(ins)
				if c != nil && c.MethodName() == "UpdateLimit" && len(c.Args) == 1 && p.InModule(c.Static) {
					if why := flooredParam(pa, c.Args[0], param, step); why != "" {
						bad = append(bad, fmt.Sprintf("%s: share update is not given max(1, %s): %s", p.At(ins), param.Name(), why))
					}
				}
				return true
			})
			if nw == 0 {
				// allowed only if the path established that the field already equals the floored value
				eq := pa.HoldsRel(-1, func(r Rel) bool {
					if r.Op != token.EQL {
						return false
					}
					fr, _, ok := loadedField(strip(r.X, true))
					if !ok || !sameField(fr, lf) {
						return false
					}
					return flooredParam(pa, r.Y, param, len(pa.Blocks)-1) == ""
				})
				if !eq {
					bad = append(bad, "path returns without storing the limit and without having compared it equal to max(1,arg): "+joinWitness(p.DescribePath(pa)))
				}
			}
			return len(bad) < 4
		})
		l.Count("paths", npaths)
		if trunc {
			l.Unknown("O3", key, p.FuncPos(fn), "path enumeration truncated")
		} else {
			l.Check(len(bad) == 0, "O3", key, p.FuncPos(fn),
				fmt.Sprintf("%d paths; %s always receives max(1,%s); share updates receive the same value", npaths, p.FieldKey(lf), param.Name()),
				"SetLimit can leave a stale, un-floored or differently-rounded limit in force", bad...)
		}

		// O4 who-may-write
		var offenders []string
		nsites := 0
		for _, f := range p.Funcs {
			for _, a := range p.Accesses(f) {
				if !a.Write || !sameField(a.Field, lf) {
					continue
				}
				nsites++
				if f == fn || freshBase(a) {
					continue
				}
				offenders = append(offenders, fmt.Sprintf("%s in %s", p.At(a.Instr), p.Key(f)))
			}
		}
		l.Count("write_sites", nsites)
		l.Check(len(offenders) == 0, "O4", p.FieldKey(lf), p.FuncPos(fn),
			fmt.Sprintf("%d write sites, all in SetLimit or on a freshly allocated object", nsites),
			"enforced limit is written outside its constructor and SetLimit", offenders...)
	}
}

func c05Shares(p *Prog, l *Ledger) {
	for _, st := range c03Discover(p, l) {
		n, bad := c03ShareFormula(p, st)
		l.Check(len(bad) == 0 && n > 0, "O5", p.Key(st.Update), p.FuncPos(st.Update), "the share depends only on the total it is given and the partition's immutable fraction", "a partition share is not recomputed from the new limit alone", bad...)
	}
}

func joinWitness(w []string) string {
	s := ""
	for i, x := range w {
		if i > 0 {
			s += " -> "
		}
		s += x
	}
	return s
}

// instrAfterOnPath: b occurs after a on the path.
func instrAfterOnPath(pa *Path, a, b ssa.Instruction) bool {
	seen := false
	res := false
	pa.Each(func(step int, ins ssa.Instruction) bool {
		if ins == a {
			seen = true
			return true
		}
		if ins == b {
			res = seen
			return false
		}
		return true
	})
	return res
}

// flooredParam checks that v, on this path at step, equals max(1, param). Returns "" when it does,
// otherwise the reason.
func flooredParam(pa *Path, v ssa.Value, param *ssa.Parameter, step int) string {
	return flooredParamD(pa, v, param, step, 0)
}

func flooredParamD(pa *Path, v ssa.Value, param *ssa.Parameter, step int, depth int) string {
	r := pa.ResolveWidths(v, step)
	// the value re-read from a field it was stored into earlier on the path (s.limit = max(1, limit); ... UpdateLimit(s.limit))
	if fr, base, ok := loadedField(r); ok && depth < 3 {
		ld, _ := r.(ssa.Instruction)
		var lastVal ssa.Value
		lastStep := -1
		done := false
		pa.Each(func(st int, ins ssa.Instruction) bool {
			if ins == ld || st > step {
				done = true
				return false
			}
			if sto, isS := ins.(*ssa.Store); isS {
				if fa, isFA := sto.Addr.(*ssa.FieldAddr); isFA {
					if f2, b2, _ := fieldOf(fa); sameField(f2, fr) && AccessPath(b2).String() == AccessPath(base).String() {
						lastVal, lastStep = sto.Val, st
					}
				}
			}
			return true
		})
		_ = done
		if lastVal != nil {
			return flooredParamD(pa, lastVal, param, lastStep, depth+1)
		}
	}
	if r == ssa.Value(param) {
		if lb, ok := pa.IntLowerBound(param, step+1); ok && lb >= 1 {
			return ""
		}
		return "the raw argument is used on a path that has not established arg >= 1"
	}
	if k, ok := constInt(r); ok {
		if k != 1 {
			return fmt.Sprintf("constant %d", k)
		}
		if ub, ok := pa.IntUpperBound(param, step+1); ok && ub <= 1 {
			return ""
		}
		return "constant 1 is used on a path that has not established arg <= 1"
	}
	// max(1, param) / math.Max(1, float64(param))
	if call, ok := r.(*ssa.Call); ok {
		cc := call.Common()
		name := ""
		if b, ok := cc.Value.(*ssa.Builtin); ok {
			name = b.Name()
		} else if f := cc.StaticCallee(); f != nil {
			name = f.String()
		}
		if (name == "max" || name == "math.Max") && len(cc.Args) == 2 {
			a0, a1 := pa.ResolveWidths(cc.Args[0], step), pa.ResolveWidths(cc.Args[1], step)
			isP := func(x ssa.Value) bool {
				if cv, ok := x.(*ssa.Convert); ok {
					x = strip(cv.X, true)
				}
				return x == ssa.Value(param)
			}
			isOne := func(x ssa.Value) bool { f, ok := constFloat(x); return ok && f == 1 }
			if (isP(a0) && isOne(a1)) || (isP(a1) && isOne(a0)) {
				return ""
			}
		}
	}
	if cv, ok := r.(*ssa.Convert); ok {
		// float -> int of math.Max(1, float(param))
		return flooredParam(pa, cv.X, param, step)
	}
	return "derives from " + valueString(r)
}
