package main

import (
	"fmt"
	"go/token"
	"go/types"
	"sort"
	"strings"

	"gclverify/xt/ssa"
)

func init() {
	register("C18", &ruleSet{
		run:    runC18,
		floors: map[string]int{"O1": 6, "O2": 3, "O3": 4, "O4": 1, "O5": 2, "O6": 4, "O7": 4},
		explain: "Decides the structural clauses of the measurement primitives (all numeric clauses - mean during warm-up, hull bounds, variance >= 0, percentile accuracy - are " +
			"not applicable to a static argument): (O1) Reset is complete: every field that Add/Update can write, followed through owned sub-measurements, is re-initialised by " +
			"Reset to the value the constructor gives it (a zero constant, the immutable 'initial' field the constructor set from the same argument, or the sub-measurement's own " +
			"Reset); (O2) no ImmutableSampleWindow method stores through its receiver; (O3) for the types whose Add reports a single stored field, the returned flag is true, or a " +
			"'!=' comparison of old and new, whenever the stored value can differ - an '==' comparison is a violation; (O4) SingleMeasurement.Add stores exactly its argument.",
	})
}

type c18Eff struct {
	direct map[int]bool    // field indices of T written directly
	sub    map[int]string  // owned sub-measurement fields touched -> "w" (written) / "r" (reset)
}

func runC18(p *Prog, l *Ledger) {
	l.Rule("O1", "Reset completeness: fields written by Add/Update (through owned sub-measurements) are a subset of what Reset re-initialises, each to the constructor's initial value")
	l.Rule("O2", "window immutability: no ImmutableSampleWindow method stores through its receiver")
	l.Rule("O3", "changed-flag polarity: whenever the stored value can differ the flag is true or an old != new comparison; never old == new")
	l.Rule("O4", "latest value: SingleMeasurement.Add stores exactly its argument")
	l.Rule("O5", "every sample is folded in: each Add path of an averaging measurement stores a value computed from the sample; a warm-up path also counts it (+1) and adds it to the running sum exactly once")
	l.Rule("O6", "Update is atomic: the value handed to the operation is read, and the result stored back, within one exclusive critical section - unless the result is merged through Add")
	l.Rule("O7", "the sample window summarises exactly the samples added (decided by the C09/O2 and O4 rules on the same tree): a new window starts from the fold's identity - count 0, sum 0, no drop, minimum +infinity - and the Add methods are the fold")
	importObligations(p, l, "C09", "O7", func(o *Obligation) bool { return o.Rule == "O2" || o.Rule == "O4" })
	l.NotCovered = []string{"arithmetic mean during warm-up", "exponential average stays within the hull of the samples", "variance >= 0", "percentile accuracy", "flag of the composite types (SimpleMovingVariance, WindowlessMovingPercentile) whose stored value is not a single field"}

	mi := p.coreIface("MeasurementInterface")
	if mi == nil {
		l.Infra("core.MeasurementInterface not found")
		return
	}
	types_ := p.Implementers(mi)
	isMeas := func(t types.Type) *types.Named {
		d := derefNamed(t)
		if d == nil {
			return nil
		}
		for _, m := range types_ {
			if types.Identical(m, d) {
				return d
			}
		}
		return nil
	}

	// effects of a method of T on T's own fields and on owned sub-measurements
	var effects func(fn *ssa.Function, T *types.Named, depth int) c18Eff
	effects = func(fn *ssa.Function, T *types.Named, depth int) c18Eff {
		e := c18Eff{direct: map[int]bool{}, sub: map[int]string{}}
		if fn == nil || depth > 4 {
			return e
		}
		for _, a := range p.Accesses(fn) {
			if a.Write && types.Identical(a.Field.Type, T) && !freshBase(a) {
				e.direct[a.Field.Index] = true
			}
		}
		allInstrs(fn, func(ins ssa.Instruction) {
			call, ok := ins.(*ssa.Call)
			if !ok {
				return
			}
			c := p.CallOf(call)
			if c.Static == nil || c.Recv == nil {
				return
			}
			// own helper
			if d := derefNamed(c.Recv.Type()); d != nil && types.Identical(d, T) && AccessPath(c.Recv).Root == ssa.Value(fn.Params[0]) && len(AccessPath(c.Recv).Sel) == 0 {
				se := effects(c.Static, T, depth+1)
				for k := range se.direct {
					e.direct[k] = true
				}
				for k, v := range se.sub {
					if e.sub[k] != "w" {
						e.sub[k] = v
					}
				}
				return
			}
			// call on an owned sub-measurement field
			if fr, _, ok := fieldPointerLoad(c.Recv); ok && types.Identical(fr.Type, T) && isMeas(c.Recv.Type()) != nil {
				sub := isMeas(c.Recv.Type())
				if c.Static.Name() == "Reset" {
					if e.sub[fr.Index] != "w" {
						e.sub[fr.Index] = "r"
					}
					return
				}
				se := effects(c.Static, sub, depth+1)
				if len(se.direct) > 0 || len(se.sub) > 0 {
					e.sub[fr.Index] = "w"
				}
			}
		})
		return e
	}

	for _, T := range types_ {
		tk := p.TypeKey(T)
		st, ok := T.Underlying().(*types.Struct)
		if !ok {
			continue
		}
		written := c18Eff{direct: map[int]bool{}, sub: map[int]string{}}
		for _, mn := range []string{"Add", "Update"} {
			e := effects(p.Method(T, mn), T, 0)
			for k := range e.direct {
				written.direct[k] = true
			}
			for k, v := range e.sub {
				if v == "w" {
					written.sub[k] = "w"
				}
			}
		}
		reset := p.Method(T, "Reset")
		if reset == nil {
			l.Infra("%s has no Reset", tk)
			continue
		}
		re := effects(reset, T, 0)
		var bad []string
		var missing []string
		for k := range written.direct {
			if !re.direct[k] {
				missing = append(missing, st.Field(k).Name())
			}
		}
		for k := range written.sub {
			if re.sub[k] != "r" {
				missing = append(missing, st.Field(k).Name()+" (sub-measurement state)")
			}
		}
		sort.Strings(missing)
		for _, m := range missing {
			bad = append(bad, fmt.Sprintf("field %s is changed by Add/Update but not re-initialised by Reset: a reset instance differs from a new one", m))
		}
		// values stored by Reset equal the constructor's initial values
		ctors := p.Constructors(T)
		for _, a := range p.Accesses(reset) {
			if !a.Write || !types.Identical(a.Field.Type, T) {
				continue
			}
			v := strip(a.Val, true)
			if zc, isC := v.(*ssa.Const); isC && zc.Value == nil {
				// the zero value of an aggregate (m.warmup = warmupState{}): every part is zero; constructors must leave it zero
				if _, isStruct := zc.Type().Underlying().(*types.Struct); isStruct {
					for _, c := range ctors {
						for _, al := range p.allocsOf(c, T) {
							if len(storesInto(al, a.Field)) > 0 {
								bad = append(bad, fmt.Sprintf("%s: Reset zeroes %s but %s initialises it", p.At(a.Instr), a.Field.Name, p.Key(c)))
							}
						}
					}
					continue
				}
			}
			if f, isC := constFloat(v); isC {
				if f != 0 {
					bad = append(bad, fmt.Sprintf("%s: Reset stores the non-zero constant %g into %s", p.At(a.Instr), f, a.Field.Name))
					continue
				}
				// constructors must leave it zero (or store zero)
				for _, c := range ctors {
					for _, al := range p.allocsOf(c, T) {
						for _, sv := range storesInto(al, a.Field) {
							if z, isZ := constFloat(strip(sv, true)); !isZ || z != 0 {
								bad = append(bad, fmt.Sprintf("%s: Reset zeroes %s but %s initialises it to %s", p.At(a.Instr), a.Field.Name, p.Key(c), valueString(sv)))
							}
						}
					}
				}
				continue
			}
			if fr, _, isF := loadedField(v); isF && types.Identical(fr.Type, T) {
				// an 'initial' field: never written after construction, and set by the constructor from the same value as the field
				immutable := true
				for _, f := range p.Funcs {
					for _, a2 := range p.Accesses(f) {
						if a2.Write && sameField(a2.Field, fr) && !freshBase(a2) {
							immutable = false
						}
					}
				}
				same := len(ctors) > 0
				for _, c := range ctors {
					for _, al := range p.allocsOf(c, T) {
						v1, v2 := storesInto(al, a.Field), storesInto(al, fr)
						if len(v1) != 1 || len(v2) != 1 || strip(v1[0], false) != strip(v2[0], false) {
							same = false
						}
					}
				}
				if !immutable || !same {
					bad = append(bad, fmt.Sprintf("%s: Reset restores %s from %s, which is not the constructor's initial value of %s", p.At(a.Instr), a.Field.Name, fr.Name, a.Field.Name))
				}
				continue
			}
			bad = append(bad, fmt.Sprintf("%s: Reset stores a value into %s that is neither zero nor the recorded initial value: %s", p.At(a.Instr), a.Field.Name, valueString(v)))
		}
		var wnames []string
		for k := range written.direct {
			wnames = append(wnames, st.Field(k).Name())
		}
		for k := range written.sub {
			wnames = append(wnames, st.Field(k).Name()+".*")
		}
		sort.Strings(wnames)
		l.Check(len(bad) == 0, "O1", tk+".Reset", p.FuncPos(reset), fmt.Sprintf("Add/Update write {%s}; Reset re-initialises all of them to the constructor's values", strings.Join(wnames, ", ")), "Reset is incomplete", bad...)
	}

	// ---- O2 window immutability
	if w := p.Named("measurements", "ImmutableSampleWindow"); w != nil {
		var bad []string
		n := 0
		for _, m := range p.MethodsOf(w) {
			n++
			for _, a := range p.Accesses(m) {
				if a.Write && types.Identical(a.Field.Type, w) && !freshBase(a) {
					bad = append(bad, fmt.Sprintf("%s: %s stores into field %s of its receiver", p.At(a.Instr), m.Name(), a.Field.Name))
				}
			}
		}
		l.Check(len(bad) == 0, "O2", "measurements.ImmutableSampleWindow/methods", "", fmt.Sprintf("%d methods, none stores through the receiver", n), "the sample window is mutated in place", bad...)
		// Add* return a newly allocated window
		for _, name := range []string{"AddSample", "AddDroppedSample"} {
			m := p.Method(w, name)
			if m == nil {
				continue
			}
			fresh := true
			allInstrs(m, func(ins ssa.Instruction) {
				if ret, ok := ins.(*ssa.Return); ok {
					for _, r := range ret.Results {
						if strip(r, false) == ssa.Value(m.Params[0]) {
							fresh = false
						}
					}
				}
			})
			l.Check(fresh, "O2", p.Key(m)+"/returns-new", p.FuncPos(m), "returns a new window, never the receiver", "the fold returns its receiver instead of a new value")
		}
	} else {
		l.Infra("measurements.ImmutableSampleWindow not found")
	}

	// ---- O3 flag polarity
	for _, T := range types_ {
		// the function that computes (value, flag): Add itself or the helper it tail-calls
		add := p.Method(T, "Add")
		if add == nil {
			continue
		}
		target := add
		EnumPaths(add, 1000, func(pa *Path) bool {
			rv := pa.ReturnValues()
			if len(rv) == 2 {
				if ex, ok := strip(rv[0], false).(*ssa.Extract); ok {
					if call, ok := ex.Tuple.(*ssa.Call); ok {
						if c := p.CallOf(call); c.Static != nil && p.InModule(c.Static) {
							target = c.Static
						}
					}
				}
			}
			return true
		})
		// single stored field returned?
		var valF *FieldRef
		single := true
		EnumPaths(target, 10000, func(pa *Path) bool {
			rv := pa.ReturnValues()
			if len(rv) != 2 {
				return true
			}
			fr, _, ok := loadedField(strip(rv[0], false))
			if !ok {
				// the returned value is the local that was just stored into the field
				pa.Each(func(step int, ins ssa.Instruction) bool {
					if st, isS := ins.(*ssa.Store); isS && strip(st.Val, false) == strip(rv[0], false) {
						if fa, isF := st.Addr.(*ssa.FieldAddr); isF {
							if f2, _, ok2 := fieldOf(fa); ok2 && f2.Type != nil && types.Identical(f2.Type, T) {
								fr, ok = f2, true
							}
						}
					}
					return true
				})
			}
			if !ok || !types.Identical(fr.Type, T) {
				single = false
				return false
			}
			if valF != nil && !sameField(*valF, fr) {
				single = false
				return false
			}
			f := fr
			valF = &f
			return true
		})
		if !single || valF == nil {
			continue
		}
		key := p.Key(target) + "/flag"
		var bad []string
		n := 0
		EnumPaths(target, 10000, func(pa *Path) bool {
			rv := pa.ReturnValues()
			if len(rv) != 2 {
				return true
			}
			n++
			// stores to the value field on this path
			var stores []*ssa.Store
			pa.Each(func(step int, ins ssa.Instruction) bool {
				if st, ok := ins.(*ssa.Store); ok {
					if fa, ok := st.Addr.(*ssa.FieldAddr); ok {
						if fr, _, _ := fieldOf(fa); sameField(fr, *valF) {
							stores = append(stores, st)
						}
					}
				}
				return true
			})
			flag := strip(pa.Resolve(rv[1], len(pa.Blocks)-1), false)
			storeEq := func(st *ssa.Store) bool {
				return pa.HoldsRel(-1, func(r Rel) bool {
					if r.Op != token.EQL {
						return false
					}
					fr, _, isF := loadedField(strip(r.Y, false))
					return strip(r.X, false) == strip(st.Val, false) && isF && sameField(fr, *valF)
				})
			}
			// the path compared the field as it is after its last store with the field as it was before its first store
			// (previous := m.value; ...; if m.value != previous) and found them equal: nothing changed on this path
			if len(stores) > 0 {
				pos := map[ssa.Instruction]int{}
				k := 0
				pa.Each(func(step int, ins ssa.Instruction) bool {
					k++
					if _, seen := pos[ins]; !seen {
						pos[ins] = k
					}
					return true
				})
				first, last := pos[stores[0]], pos[stores[0]]
				for _, st := range stores {
					if pos[st] < first {
						first = pos[st]
					}
					if pos[st] > last {
						last = pos[st]
					}
				}
				unchanged := pa.HoldsRel(-1, func(r Rel) bool {
					if r.Op != token.EQL {
						return false
					}
					x, y := strip(r.X, false), strip(r.Y, false)
					fx, _, okx := loadedField(x)
					fy, _, oky := loadedField(y)
					if !okx || !oky || !sameField(fx, *valF) || !sameField(fy, *valF) {
						return false
					}
					ix, iy := x.(ssa.Instruction), y.(ssa.Instruction)
					return (pos[ix] > last && pos[iy] < first) || (pos[iy] > last && pos[ix] < first)
				})
				if unchanged {
					return true
				}
			}
			if b, isC := constBool(flag); isC {
				if b {
					return true
				}
				// false: every store on the path must have been established equal to the old value
				for _, st := range stores {
					if !storeEq(st) {
						bad = append(bad, fmt.Sprintf("%s: the value is stored but the flag is false on a path that has not established new == old", p.At(st)))
					}
				}
				return len(bad) < 3
			}
			// the path established that what it stores equals the old value: the value cannot change here, any flag will do
			allEq := true
			for _, st := range stores {
				if !storeEq(st) {
					allEq = false
				}
			}
			if allEq {
				return true
			}
			bo, isB := flag.(*ssa.BinOp)
			if !isB {
				bad = append(bad, "the flag is neither a constant nor a comparison: "+valueString(flag))
				return len(bad) < 3
			}
			involves := func(v ssa.Value) bool {
				v = strip(v, false)
				if fr, _, ok := loadedField(v); ok && sameField(fr, *valF) {
					return true
				}
				for _, st := range stores {
					if strip(st.Val, false) == v {
						return true
					}
				}
				return false
			}
			if !(involves(bo.X) || involves(bo.Y)) {
				bad = append(bad, fmt.Sprintf("%s: the flag compares values unrelated to the stored field", p.At(bo)))
				return len(bad) < 3
			}
			switch bo.Op {
			case token.NEQ:
			case token.EQL:
				bad = append(bad, fmt.Sprintf("%s: the flag is 'old == new': it is false exactly when the stored value changed", p.At(bo)))
			default:
				bad = append(bad, fmt.Sprintf("%s: the flag is a '%s' comparison, not a change test", p.At(bo), bo.Op))
			}
			return len(bad) < 3
		})
		l.Check(len(bad) == 0 && n > 0, "O3", key, p.FuncPos(target), fmt.Sprintf("%d paths; the flag is true / old != new whenever %s can change", n, valF.Name), "Add's flag does not report that the stored value changed", bad...)
	}

	// ---- O5 averaging types fold every sample
	for _, T := range types_ {
		if !strings.Contains(T.Obj().Name(), "Average") {
			continue
		}
		add := p.Method(T, "Add")
		if add == nil {
			continue
		}
		target := add
		EnumPaths(add, 1000, func(pa *Path) bool {
			rv := pa.ReturnValues()
			if len(rv) == 2 {
				if ex, ok := strip(rv[0], false).(*ssa.Extract); ok {
					if call, ok := ex.Tuple.(*ssa.Call); ok {
						if c := p.CallOf(call); c.Static != nil && p.InModule(c.Static) {
							target = c.Static
						}
					}
				}
			}
			return true
		})
		sample := target.Params[1]
		var bad []string
		n := 0
		EnumPaths(target, 10000, func(pa *Path) bool {
			if !pa.IsReturn() {
				return true
			}
			n++
			folded := false
			counts, sums := 0, 0
			pa.Each(func(step int, ins ssa.Instruction) bool {
				if d, ok := p.DeltaOf(ins); ok && types.Identical(d.Field.Type, T) && d.By == 1 {
					counts++
				}
				if st, ok := ins.(*ssa.Store); ok {
					if fa, ok := st.Addr.(*ssa.FieldAddr); ok {
						if fr, _, _ := fieldOf(fa); types.Identical(fr.Type, T) && isFloat(structOf(T).Field(fr.Index).Type()) {
							if c18DerivesFrom(pa, st.Val, sample, step, 8) {
								folded = true
							}
							// running sum: old + sample
							if bo, ok := strip(st.Val, false).(*ssa.BinOp); ok && bo.Op == token.ADD {
								f2, _, isF := loadedField(strip(bo.X, false))
								if isF && sameField(f2, fr) && strip(bo.Y, false) == ssa.Value(sample) {
									sums++
								}
							}
						}
					}
				}
				return true
			})
			if !folded {
				bad = append(bad, "a path returns without folding the sample into the stored value: "+joinWitness(p.DescribePath(pa)))
			}
			if sums > 0 {
				if sums != 1 || counts != 1 {
					bad = append(bad, fmt.Sprintf("a warm-up path counts the sample %d times and adds it to the sum %d times (want once each)", counts, sums))
				}
			}
			return len(bad) < 3
		})
		l.Check(len(bad) == 0 && n > 0, "O5", p.Key(target)+"/fold", p.FuncPos(target), fmt.Sprintf("%d paths; every sample reaches the stored value", n), "an averaging measurement can silently skip a sample", bad...)
	}

	// ---- O6 Update is one critical section
	for _, T := range types_ {
		up := p.Method(T, "Update")
		if up == nil || len(up.Params) < 2 {
			continue
		}
		op := up.Params[1]
		if _, isSig := op.Type().Underlying().(*types.Signature); !isSig {
			continue
		}
		locks := p.Locksets()
		recvAP := AccessPath(up.Params[0]).String()
		var opCalls []*ssa.Call
		allInstrs(up, func(ins ssa.Instruction) {
			if call, ok := ins.(*ssa.Call); ok && call.Call.Value == ssa.Value(op) {
				opCalls = append(opCalls, call)
			}
		})
		if len(opCalls) == 0 {
			// delegated to a helper (add / a locked core): the variant inlines new helpers; an existing one is its own site
			continue
		}
		var bad []string
		for _, oc := range opCalls {
			// loads of T's fields feeding the operation's argument
			var loads []ssa.Instruction
			for _, a := range oc.Call.Args {
				if fr, _, ok := loadedField(strip(a, true)); ok && types.Identical(fr.Type, T) {
					loads = append(loads, strip(a, true).(ssa.Instruction))
				}
			}
			// stores of T's fields fed by the operation's result
			var stores []*ssa.Store
			allInstrs(up, func(ins ssa.Instruction) {
				if st, ok := ins.(*ssa.Store); ok {
					if fa, ok := st.Addr.(*ssa.FieldAddr); ok {
						if fr, _, _ := fieldOf(fa); fr.Type != nil && types.Identical(fr.Type, T) && valueDerivesFrom(st.Val, oc, nil, 8) {
							stores = append(stores, st)
						}
					}
				}
			})
			if len(stores) == 0 {
				continue // the result is merged through Add (a minimum stays a minimum whatever interleaves)
			}
			exclAt := func(ins ssa.Instruction) bool {
				for _, m := range mutexFields(T) {
					if ex, ok := locks.Held(ins)[recvAP+"."+m]; ok && ex {
						return true
					}
				}
				return false
			}
			for _, ld := range loads {
				if !exclAt(ld) {
					bad = append(bad, fmt.Sprintf("%s: the value handed to the operation is read without the exclusive lock", p.At(ld)))
				}
			}
			for _, st := range stores {
				if !exclAt(st) {
					bad = append(bad, fmt.Sprintf("%s: the operation's result is stored without the exclusive lock", p.At(st)))
				}
			}
			// no release between the read and the store
			EnumPaths(up, 20000, func(pa *Path) bool {
				in := false
				pa.Each(func(step int, ins ssa.Instruction) bool {
					for _, ld := range loads {
						if ins == ld {
							in = true
						}
					}
					for _, st := range stores {
						if ins == ssa.Instruction(st) {
							in = false
						}
					}
					if in {
						if call, ok := ins.(*ssa.Call); ok {
							if o, _ := p.lockOpOf(p.CallOf(call)); o == opUnlock || o == opRUnlock {
								bad = append(bad, fmt.Sprintf("%s: the lock is released between reading the value and storing the operation's result: an Add or Reset completed in between is overwritten", p.At(ins)))
								return false
							}
						}
					}
					return true
				})
				return len(bad) < 3
			})
		}
		l.Check(len(bad) == 0, "O6", p.Key(up), p.FuncPos(up), "the value is read, transformed and stored back within one exclusive critical section (or merged through Add)", "Update can overwrite a concurrent Add / Reset with a result computed from the old value", bad...)
	}

	// ---- O4
	if sm := p.Named("measurements", "SingleMeasurement"); sm != nil {
		add := p.Method(sm, "Add")
		var bad []string
		n := 0
		for _, a := range p.Accesses(add) {
			if a.Write && types.Identical(a.Field.Type, sm) {
				n++
				stored := strip(a.Val, false)
				// the sample kept as its IEEE bit pattern in an atomic word (math.Float64bits) is the sample, provided the
				// reader decodes it the same way
				if call, ok := stored.(*ssa.Call); ok {
					if c := p.CallOf(call); c != nil && c.Name == "math.Float64bits" && len(c.Args) == 1 {
						decodes := false
						if get := p.Method(sm, "Get"); get != nil {
							allInstrs(get, func(ins ssa.Instruction) {
								if gc := p.CallOf(ins); gc != nil && gc.Name == "math.Float64frombits" {
									decodes = true
								}
							})
						}
						if decodes {
							stored = strip(c.Args[0], false)
						}
					}
				}
				if stored != ssa.Value(add.Params[1]) {
					bad = append(bad, fmt.Sprintf("%s: stores %s instead of the sample", p.At(a.Instr), valueString(a.Val)))
				}
			}
		}
		l.Check(len(bad) == 0 && n == 1, "O4", p.Key(add), p.FuncPos(add), "stores exactly the sample", "the latest-value measurement does not keep the latest sample", bad...)
	}
}

// c18DerivesFrom: v is computed (through arithmetic, conversions, phis resolved on the path, and reloads of fields
// stored earlier on the path) from target.
func c18DerivesFrom(pa *Path, v ssa.Value, target ssa.Value, step, depth int) bool {
	if depth < 0 || v == nil {
		return false
	}
	v = strip(pa.Resolve(v, step), false)
	if v == target {
		return true
	}
	switch x := v.(type) {
	case *ssa.Convert:
		return c18DerivesFrom(pa, x.X, target, step, depth-1)
	case *ssa.BinOp:
		return c18DerivesFrom(pa, x.X, target, step, depth-1) || c18DerivesFrom(pa, x.Y, target, step, depth-1)
	case *ssa.UnOp:
		if fa, ok := x.X.(*ssa.FieldAddr); ok {
			// reload of a field: follow the last store to that field on the path before this load
			fr, _, _ := fieldOf(fa)
			var last ssa.Value
			done := false
			pa.Each(func(s int, ins ssa.Instruction) bool {
				if ins == ssa.Instruction(x) {
					done = true
					return false
				}
				if st, ok := ins.(*ssa.Store); ok {
					if fa2, ok := st.Addr.(*ssa.FieldAddr); ok {
						if f2, _, _ := fieldOf(fa2); sameField(f2, fr) {
							last = st.Val
						}
					}
				}
				return true
			})
			if done && last != nil {
				return c18DerivesFrom(pa, last, target, step, depth-1)
			}
		}
	case *ssa.Call:
		for _, a := range x.Call.Args {
			if c18DerivesFrom(pa, a, target, step, depth-1) {
				return true
			}
		}
	}
	return false
}
