package main

import (
	"sort"
	"fmt"
	"go/token"
	"go/types"
	"strings"

	"gclverify/xt/ssa"
)

func init() {
	register("C13", &ruleSet{
		run:    runC13,
		floors: map[string]int{"O1": 4, "O2": 2, "O3": 1, "O4": 1, "O5": 3, "O6": 2, "O7": 2, "O8": 1, "O9": 3, "O10": 2},
		explain: "Decides the existence and ordering of the give-up mechanisms (instants are not applicable to a static argument): (O1) every blocking select in " +
			"the limiter package has a wake-up/hand-off case, a ctx.Done() case (unconditional in the cond-var wait, conditional only on the configured eviction flag " +
			"in the queue limiter) and a timer case armed from the configured bound whenever that bound is positive (a select without a timer is reachable only when " +
			"the bound is <= 0); the wake-up case alone yields success, every give-up case yields refusal; (O2) in the blocking and deadline limiters the ctx.Err() " +
			"test - and the deadline test - dominate every delegate.Acquire call, their failing edges return (nil,false) without touching the delegate, and an " +
			"Acquire that follows a wait is dominated by the wait's 'signalled' result; (O3) wherever the wait bound is computed (time remaining to a deadline) " +
			"rather than configured, the duration handed to the wait primitive is proved > 0, because the primitive treats <= 0 as 'no timer'.",
	})
}

type c13Select struct {
	fn    *ssa.Function
	sel   *ssa.Select
	kinds []string // per state: "ctx", "timer", "wake"
	cond  []bool   // per state: channel may be nil (conditional case)
	timerArg ssa.Value
}

// chanKind classifies a select channel operand.
func c13ChanKind(p *Prog, v ssa.Value, depth int) (kind string, conditional bool, timerArg ssa.Value) {
	v = strip(v, false)
	if depth > 6 {
		return "wake", false, nil
	}
	switch x := v.(type) {
	case *ssa.Phi:
		kind = ""
		for _, e := range x.Edges {
			if isNilConst(strip(e, false)) {
				conditional = true
				continue
			}
			k, c, ta := c13ChanKind(p, e, depth+1)
			if kind != "" && kind != k {
				return "wake", true, nil
			}
			kind, timerArg = k, ta
			conditional = conditional || c
		}
		return kind, conditional, timerArg
	case *ssa.Call:
		c := p.CallOf(x)
		if c.Iface != nil && c.Iface.Name() == "Done" && strings.HasSuffix(c.Name, "(context.Context).Done") {
			return "ctx", false, nil
		}
		if c.Is("time.After") {
			return "timer", false, c.Args[0]
		}
	case *ssa.UnOp:
		if x.Op == token.MUL {
			if fa, ok := x.X.(*ssa.FieldAddr); ok {
				if nt := derefNamed(fa.X.Type()); nt != nil && nt.Obj().Pkg() != nil && nt.Obj().Pkg().Path() == "time" && nt.Obj().Name() == "Timer" {
					if call, ok := strip(fa.X, false).(*ssa.Call); ok {
						if c := p.CallOf(call); c.Is("time.NewTimer") {
							return "timer", false, c.Args[0]
						}
					}
					return "timer", false, nil
				}
			}
			if al, ok := x.X.(*ssa.Alloc); ok {
				if s := singleStore(al); s != nil {
					return c13ChanKind(p, s, depth+1)
				}
			}
		}
	}
	return "wake", false, nil
}

func runC13(p *Prog, l *Ledger) {
	l.Rule("O1", "every blocking select has a wake-up case, a ctx.Done case and a timer case armed from the configured bound when it is positive; only the wake-up case yields success")
	l.Rule("O2", "pre-checks (ctx.Err, deadline) dominate every delegate.Acquire; their failing edges refuse without touching the delegate; an Acquire after a wait requires the 'signalled' result")
	l.Rule("O3", "a computed wait bound (remaining time to a deadline) is proved > 0 where it is handed to a wait primitive that treats <= 0 as 'no timer'")
	l.Rule("O4", "no wait outside the give-up mechanisms: the wait primitive hands the condition's lock it is entered with to a waiter on every way out (the C10/O1 lock-handed-over rule on the same tree); a lock left held parks every later Acquire in Lock(), where neither timeout nor cancellation applies")
	l.NotCovered = []string{"that the return happens at the bound and not before (exact instants / virtual clock)", "the blocking limiter's timeout is a poll interval, not a give-up bound (by design)"}
	importObligations(p, l, "C10", "O4", func(o *Obligation) bool { return o.Rule == "O1" && strings.HasSuffix(o.Key, "/lock-handed-over") })

	l.Rule("O6", "not before the bound while no capacity is offered (decided by the C12/O4 and C10/O5 rules on the same tree): a queued caller is taken out of the backlog, and its hand-off channel written or closed, only by its own give-up or together with a token acquired for it")
	importObligations(p, l, "C12", "O6", func(o *Obligation) bool { return o.Rule == "O4" })

	l.Rule("O10", "the pools hand their limiters a usable bound (decided by the C19/O1 rule on the same tree): backlog size and timeout reach the wrapper's configuration, a negative timeout normalised first - the queue limiter arms no timer for a non-positive one")
	importObligations(p, l, "C19", "O10", func(o *Obligation) bool { return o.Rule == "O1" })

	// ---------------- O9: why a blocking limiter refuses
	l.Rule("O9", "a limiter that blocks on a condition refuses only for a reason the property names: every path of its Acquire / tryAcquire that answers (nil, false) has tested, on that path, the caller's context, the clock against the deadline, or the outcome of a wait; a refusal decided by remembered state (a sticky 'expired' flag) can come long before the bound")
	{
		n9 := 0
		for _, nt := range p.Implementers(p.coreIface("Limiter")) {
			if !strings.HasPrefix(p.TypeKey(nt), "limiter.") || !hasCondField(nt) {
				continue
			}
			for _, m := range p.MethodsOf(nt) {
				res := m.Signature.Results()
				if m.Blocks == nil || res.Len() != 2 {
					continue
				}
				if b, ok := res.At(1).Type().Underlying().(*types.Basic); !ok || b.Kind() != types.Bool {
					continue
				}
				n9++
				var bad []string
				np := 0
				EnumPaths(m, 100000, func(pa *Path) bool {
					if !pa.IsReturn() {
						return true
					}
					rv := pa.ReturnValues()
					if b, isC := constBool(strip(rv[1], false)); !isC || b {
						return true
					}
					np++
					ok := false
					for _, fct := range pa.Facts {
						seen := map[ssa.Value]bool{}
						var walk func(v ssa.Value, d int)
						walk = func(v ssa.Value, d int) {
							if v == nil || seen[v] || d > 6 || ok {
								return
							}
							seen[v] = true
							if call, isCall := v.(*ssa.Call); isCall {
								c := p.CallOf(call)
								switch {
								case c.Iface != nil && c.Iface.Name() == "Err" && strings.HasSuffix(c.Name, "(context.Context).Err"):
									ok = true
								case c.Is("(time.Time).After", "(time.Time).Before", "(time.Time).Sub", "time.Until", "time.Since", "(time.Time).Compare"):
									ok = true
								case c.Static != nil && p.InModule(c.Static) && c13Waits(p, c.Static, 3):
									ok = true
								}
							}
							if ins, isI := v.(ssa.Instruction); isI {
								for _, op := range ins.Operands(nil) {
									if op != nil && *op != nil {
										walk(*op, d+1)
									}
								}
							}
						}
						walk(fct.Cond, 0)
						if ok {
							break
						}
					}
					if !ok {
						bad = append(bad, "a path refuses without having tested the context, the deadline or a wait: "+joinWitness(p.DescribePath(pa)))
					}
					return len(bad) < 2
				})
				l.Check(len(bad) == 0, "O9", p.Key(m)+"/refusal-reason", p.FuncPos(m), fmt.Sprintf("%d refusing paths, each after a test of the context, the deadline or a wait's outcome", np), "a caller can be refused before its bound for a reason that is not its bound", bad...)
			}
		}
		if n9 == 0 {
			l.Infra("no Acquire / tryAcquire of a condition-based limiter found")
		}
	}

	// ---------------- O8: nothing waits on a mutex it holds itself
	l.Rule("O8", "no self-deadlock: no function takes (directly or through a method it calls on the same object) a sync mutex that it already holds on every path reaching that point; such a goroutine, and every Acquire that needs the mutex afterwards, blocks without any bound")
	{
		n8, bad := p.selfDeadlocks(p.Locksets())
		sort.Strings(bad)
		if len(bad) > 6 {
			bad = bad[:6]
		}
		l.Check(len(bad) == 0 && n8 > 0, "O8", "module/self-deadlock", "", fmt.Sprintf("%d lock acquisitions under a held lock examined, none on a mutex already held", n8), "a goroutine waits for a mutex it holds", bad...)
	}

	// ---------------- O7: the bound that is enforced is the bound that was configured
	l.Rule("O7", "the bound is the configured bound: every constructor of a blocking limiter stores the timeout / deadline it was given (modulo location; only a negative duration is replaced)")
	{
		n7 := 0
		for _, nt := range p.Implementers(p.coreIface("Limiter")) {
			if !strings.HasPrefix(p.TypeKey(nt), "limiter.") {
				continue
			}
			st, ok := nt.Underlying().(*types.Struct)
			if !ok {
				continue
			}
			for i := 0; i < st.NumFields(); i++ {
				ft, ok := st.Field(i).Type().(*types.Named)
				if !ok || ft.Obj().Pkg() == nil || ft.Obj().Pkg().Path() != "time" || (ft.Obj().Name() != "Time" && ft.Obj().Name() != "Duration") {
					continue
				}
				fr := FieldRef{Type: nt, Index: i, Name: st.Field(i).Name()}
				if len(p.allocSitesOf(nt)) == 0 {
					continue
				}
				n7++
				bad := storedAsGiven(p, fr)
				l.Check(len(bad) == 0, "O7", p.FieldKey(fr)+"/configured", "", "stored as given by every constructor", "a blocked Acquire is bounded by something other than the configured timeout / deadline", bad...)
			}
		}
		if n7 == 0 {
			l.Infra("no timeout / deadline field found on the limiter types")
		}
		// a configuration's defaulting method only fills what was left unset: a duration the caller configured is not
		// rescaled, capped or otherwise rewritten on its way to the limiter
		for _, ct := range p.structTypes("limiter") {
			ad := p.Method(ct, "ApplyDefaults")
			if ad == nil || len(ad.Params) == 0 {
				continue
			}
			cst := ct.Underlying().(*types.Struct)
			for i := 0; i < cst.NumFields(); i++ {
				ft, ok := cst.Field(i).Type().(*types.Named)
				if !ok || ft.Obj().Pkg() == nil || ft.Obj().Pkg().Path() != "time" || ft.Obj().Name() != "Duration" {
					continue
				}
				fr := FieldRef{Type: ct, Index: i, Name: cst.Field(i).Name()}
				var bad []string
				nst := 0
				EnumPaths(ad, 100000, func(pa *Path) bool {
					if !pa.IsReturn() {
						return true
					}
					pa.Each(func(step int, ins ssa.Instruction) bool {
						st, ok := ins.(*ssa.Store)
						if !ok {
							return true
						}
						fa, ok := st.Addr.(*ssa.FieldAddr)
						if !ok {
							return true
						}
						if f2, _, ok := fieldOf(fa); !ok || !sameField(f2, fr) {
							return true
						}
						nst++
						_, isC := strip(pa.Resolve(st.Val, step), true).(*ssa.Const)
						unset := pa.HoldsRel(step+1, func(r Rel) bool {
							f3, _, ok := loadedField(strip(r.X, true))
							if !ok || !sameField(f3, fr) {
								return false
							}
							k, isK := constInt(strip(r.Y, true))
							return isK && ((r.Op == token.EQL && k == 0) || (r.Op == token.LEQ && k == 0) || (r.Op == token.LSS && k <= 0))
						})
						if !isC || !unset {
							bad = append(bad, fmt.Sprintf("%s: %s rewrites %s on a path where it was configured (stores %s): %s", p.At(ins), p.Key(ad), fr.Name, valueString(strip(st.Val, true)), joinWitness(p.DescribePath(pa))))
						}
						return len(bad) < 2
					})
					return len(bad) < 2
				})
				l.Check(len(bad) == 0, "O7", p.FieldKey(fr)+"/defaulting", p.FuncPos(ad), fmt.Sprintf("%d store(s): only a constant, and only where the field was left unset", nst), "the bound that is enforced is not the one that was configured", bad...)
			}
		}
	}

	// ---------------- O5: completions do not run under the condition's lock
	l.Rule("O5", "the condition's lock, which every arriving and retrying Acquire takes before it can reach its select, is not held while a completion is delivered to the delegate's listener (a callback of unbounded duration: it runs the limit algorithm and its change listeners)")
	{
		locks := p.Locksets()
		lisNamed := p.coreNamed("Listener")
		n5 := 0
		for _, nt := range p.Implementers(p.coreIface("Listener")) {
			if !strings.HasPrefix(p.TypeKey(nt), "limiter.") || len(fieldsOfType(nt, lisNamed)) != 1 || !hasCondField(nt) {
				continue
			}
			df := fieldsOfType(nt, lisNamed)[0]
			for _, mname := range c02Outcomes {
				m := p.Method(nt, mname)
				if m == nil {
					continue
				}
				var bad []string
				found := 0
				// the delegate's completion, in the method or in what it calls directly
				var scan func(f *ssa.Function, depth int)
				scan = func(f *ssa.Function, depth int) {
					allInstrs(f, func(ins ssa.Instruction) {
						call, ok := ins.(*ssa.Call)
						if !ok {
							return
						}
						c := p.CallOf(call)
						for _, o := range c02Outcomes {
							if p.isCoreInvoke(c, "Listener", o) {
								if fr, _, ok := loadedField(strip(c.Recv, false)); ok && sameField(fr, df) {
									found++
									for k, ex := range locks.Held(ins) {
										if strings.HasSuffix(k, ".L") {
											bad = append(bad, fmt.Sprintf("%s: delegate.%s runs with %s held (exclusive=%v): an Acquire that arrives or retries meanwhile waits in Lock(), where neither its timeout nor its cancellation applies", p.At(ins), o, k, ex))
										}
									}
								}
							}
						}
						if depth < 2 && c.Static != nil && p.InModule(c.Static) && c.Static.Blocks != nil && c.Recv != nil && AccessPath(c.Recv).Root == ssa.Value(f.Params[0]) && len(f.Params) > 0 {
							scan(c.Static, depth+1)
						}
					})
				}
				scan(m, 0)
				n5++
				if found == 0 {
					l.Unknown("O5", p.Key(m), p.FuncPos(m), "the delivery of the completion to the delegate's listener was not found in "+p.Key(m))
					continue
				}
				l.Check(len(bad) == 0, "O5", p.Key(m), p.FuncPos(m), fmt.Sprintf("delegate.%s is invoked without the condition's lock", mname), "a blocked Acquire can outlast its bound", bad...)
			}
		}
		if n5 == 0 {
			l.Infra("no wrapping listener with a condition variable found in package limiter")
		}
	}

	// ---------------- O1: selects
	var sels []*c13Select
	waitPrims := map[*ssa.Function]int{} // functions with a blocking select and a duration parameter -> param index
	for _, f := range p.Funcs {
		if !p.InPkg(f, "limiter") {
			continue
		}
		allInstrs(f, func(ins ssa.Instruction) {
			s, ok := ins.(*ssa.Select)
			if !ok || !s.Blocking {
				return
			}
			cs := &c13Select{fn: f, sel: s}
			for _, st := range s.States {
				k, c, ta := c13ChanKind(p, st.Chan, 0)
				if st.Dir != types.RecvOnly {
					k = "send"
				}
				cs.kinds = append(cs.kinds, k)
				cs.cond = append(cs.cond, c)
				if k == "timer" && ta != nil {
					cs.timerArg = ta
				}
			}
			sels = append(sels, cs)
		})
	}
	l.Count("blocking_selects", len(sels))
	// bare blocking channel operations (outside a select) have no give-up case at all
	for _, f := range p.Funcs {
		if !p.InPkg(f, "limiter") {
			continue
		}
		allInstrs(f, func(ins ssa.Instruction) {
			switch x := ins.(type) {
			case *ssa.UnOp:
				if x.Op == token.ARROW {
					l.Bad("O1", p.Key(f)+"/bare-receive", p.At(ins), "blocking channel receive outside a select: neither timeout nor cancellation can end this wait")
				}
			case *ssa.Send:
				l.Bad("O1", p.Key(f)+"/bare-send", p.At(ins), "blocking channel send outside a select: neither timeout nor cancellation can end this wait")
			}
		})
	}
	perFn := map[*ssa.Function][]*c13Select{}
	for _, s := range sels {
		perFn[s.fn] = append(perFn[s.fn], s)
	}
	for f, ss := range perFn {
		for i, s := range ss {
			key := fmt.Sprintf("%s/select#%d", p.Key(f), i+1)
			var bad []string
			idx := map[string]int{"ctx": -1, "timer": -1, "wake": -1}
			for j, k := range s.kinds {
				if _, ok := idx[k]; ok {
					idx[k] = j
				}
			}
			if idx["wake"] < 0 {
				bad = append(bad, "no wake-up / hand-off case")
			}
			if idx["ctx"] < 0 {
				bad = append(bad, "no ctx.Done() case: cancellation cannot end the wait")
			} else if s.cond[idx["ctx"]] {
				// conditional only on a bool field of the receiver (the eviction flag): the non-nil edge is taken when the flag is true
				if why := c13CondOnFlag(p, s, idx["ctx"]); why != "" {
					bad = append(bad, why)
				}
			}
			// timer: present, armed from the bound; absence/conditionality only when bound <= 0
			bound := c13Bound(p, f)
			if bound == nil {
				bad = append(bad, "cannot identify the configured wait bound (a time.Duration parameter or receiver field)")
			} else if idx["timer"] >= 0 {
				if s.timerArg == nil || !sameValueOrLoad(s.timerArg, bound) {
					bad = append(bad, "the timer is not armed from the configured bound "+operandString(bound))
				}
				if s.cond[idx["timer"]] {
					if why := c13TimerCondOnPositive(p, s, idx["timer"], bound); why != "" {
						bad = append(bad, why)
					}
				} else if call := c13NewTimerCall(p, s.sel.States[idx["timer"]].Chan); call != nil {
					// unconditional timer inside a branch: fine
					_ = call
				}
			} else {
				// no timer case: this select must be reachable only when bound <= 0
				ok := c13OnlyWhenNonPositive(p, f, s.sel, bound)
				if !ok {
					bad = append(bad, "a select without a timer case is reachable while the configured bound is positive")
				}
			}
			l.Check(len(bad) == 0, "O1", key, p.At(s.sel), fmt.Sprintf("cases %v; ctx and timer cases present as required", s.kinds), "a blocked caller lacks a give-up mechanism", bad...)
		}
		// outcome per case along paths
		key := p.Key(f) + "/outcomes"
		var bad []string
		npaths := 0
		EnumPaths(f, 100000, func(pa *Path) bool {
			if !pa.IsReturn() {
				return true
			}
			for _, s := range ss {
				st := pa.StepOf(s.sel)
				if st < 0 {
					continue
				}
				npaths++
				// chosen case
				var idxV ssa.Value
				if refs := s.sel.Referrers(); refs != nil {
					for _, r := range *refs {
						if ex, ok := r.(*ssa.Extract); ok && ex.Index == 0 {
							idxV = ex
						}
					}
				}
				chosen := -1
				for _, rel := range pa.Rels(-1) {
					if rel.Op == token.EQL && strip(rel.X, false) == idxV {
						if k, ok := constInt(rel.Y); ok {
							chosen = int(k)
						}
					}
				}
				if chosen < 0 || chosen >= len(s.kinds) {
					continue
				}
				rv := pa.ReturnValues()
				if len(rv) == 0 {
					continue
				}
				r0 := strip(rv[0], false)
				success := false
				if b, ok := constBool(r0); ok {
					success = b
				} else if !isNilConst(r0) {
					success = true
				}
				isWake := s.kinds[chosen] == "wake"
				if isWake && !success {
					bad = append(bad, fmt.Sprintf("%s: the wake-up case reports failure", p.At(s.sel)))
				}
				if !isWake && success {
					// a give-up case may return what a drain helper found already delivered in the hand-off channel
					drained := false
					if call, ok := r0.(*ssa.Call); ok {
						if c := p.CallOf(call); c.Static != nil && p.InModule(c.Static) && p.drainHelper(c.Static) == "" {
							drained = true
						}
					}
					if !drained {
						bad = append(bad, fmt.Sprintf("%s: the %s case reports success: %s", p.At(s.sel), s.kinds[chosen], joinWitness(p.DescribePath(pa))))
					}
				}
				if isWake && success && !isNilConst(r0) {
					if _, isB := constBool(r0); !isB {
						// a received value must be what the hand-off channel delivered
						if ex, ok := r0.(*ssa.Extract); !ok || ex.Tuple != ssa.Value(s.sel) {
							bad = append(bad, fmt.Sprintf("%s: the value returned after a hand-off is not the value received", p.At(s.sel)))
						}
					}
				}
			}
			return len(bad) < 4
		})
		l.Check(len(bad) == 0, "O1", key, p.FuncPos(f), fmt.Sprintf("%d select outcomes: only the wake-up case succeeds; ctx/timer cases refuse", npaths), "a give-up case does not refuse (or the wake-up case does not succeed)", bad...)
		if b := c13Bound(p, f); b != nil {
			if prm, ok := b.(*ssa.Parameter); ok {
				for i, q := range f.Params {
					if q == prm {
						waitPrims[f] = i
					}
				}
			}
		}
	}

	// ---------------- O2: pre-checks dominate acquisition
	for _, f := range p.Funcs {
		if !p.InPkg(f, "limiter") {
			continue
		}
		var acqs, waits []*ssa.Call
		allInstrs(f, func(ins ssa.Instruction) {
			if call, ok := ins.(*ssa.Call); ok {
				c := p.CallOf(call)
				if p.callsRoleMethod(c, "Limiter", "Acquire") {
					acqs = append(acqs, call)
				}
				if c.Static != nil {
					if _, ok := waitPrims[c.Static]; ok {
						waits = append(waits, call)
					}
				}
			}
		})
		if len(acqs) == 0 || len(waits) == 0 {
			continue
		}
		key := p.Key(f)
		// pre-check tests: If on ctx.Err() != nil ; If on time...After(deadline)
		type check struct {
			name string
			iff  *ssa.If
			okSucc int // successor taken when the check passes
		}
		var checks []check
		for _, b := range f.Blocks {
			iff, ok := b.Instrs[len(b.Instrs)-1].(*ssa.If)
			if !ok {
				continue
			}
			cond, neg := normCond(iff.Cond)
			if bo, ok := cond.(*ssa.BinOp); ok && (bo.Op == token.NEQ || bo.Op == token.EQL) {
				var other ssa.Value
				if isNilConst(bo.Y) {
					other = bo.X
				} else if isNilConst(bo.X) {
					other = bo.Y
				}
				if call, ok := strip(other, false).(*ssa.Call); ok && other != nil {
					c := p.CallOf(call)
					if c.Iface != nil && c.Iface.Name() == "Err" && strings.HasSuffix(c.Name, "(context.Context).Err") {
						// passes when err == nil
						passOnTrue := (bo.Op == token.EQL) != neg
						s := 1
						if passOnTrue {
							s = 0
						}
						checks = append(checks, check{"ctx.Err()", iff, s})
					}
				}
			}
			if call, ok := cond.(*ssa.Call); ok {
				c := p.CallOf(call)
				if c.Is("(time.Time).After") {
					// passes when NOT after the deadline
					s := 1
					if neg {
						s = 0
					}
					// the argument must be a receiver field (the configured deadline)
					if _, _, isF := loadedField(strip(c.Args[0], false)); isF {
						checks = append(checks, check{"deadline", iff, s})
					}
				}
			}
		}
		var bad []string
		hasDeadlineField := false
		if f.Signature.Recv() != nil {
			if st := structOf(f.Signature.Recv().Type()); st != nil {
				for i := 0; i < st.NumFields(); i++ {
					if nt, ok := st.Field(i).Type().(*types.Named); ok && nt.Obj().Pkg() != nil && nt.Obj().Pkg().Path() == "time" && nt.Obj().Name() == "Time" {
						hasDeadlineField = true
					}
				}
			}
		}
		want := []string{"ctx.Err()"}
		if hasDeadlineField {
			want = append(want, "deadline")
		}
		for _, w := range want {
			var ck *check
			for i := range checks {
				if checks[i].name == w {
					ck = &checks[i]
				}
			}
			if ck == nil {
				bad = append(bad, "no "+w+" test found before acquiring")
				continue
			}
			pass := ck.iff.Block().Succs[ck.okSucc]
			fail := ck.iff.Block().Succs[1-ck.okSucc]
			for _, a := range acqs {
				if !(len(pass.Preds) == 1 && pass.Dominates(a.Block())) {
					bad = append(bad, fmt.Sprintf("%s: delegate.Acquire is not dominated by the passing edge of the %s test", p.At(a), w))
				}
			}
			// failing edge: refuses without delegate call
			EnumPathsFrom(f, fail, 10000, 1, func(pa *Path) bool {
				if !pa.IsReturn() {
					return true
				}
				rv := pa.ReturnValues()
				touched := false
				pa.Each(func(step int, ins ssa.Instruction) bool {
					for _, a := range acqs {
						if ins == ssa.Instruction(a) {
							touched = true
						}
					}
					return true
				})
				okRet := len(rv) == 2 && isNilConst(strip(rv[0], false))
				if okRet {
					if b, isB := constBool(strip(rv[1], false)); !isB || b {
						okRet = false
					}
				}
				if touched || !okRet {
					bad = append(bad, fmt.Sprintf("%s: the failing edge of the %s test does not refuse with (nil,false) before touching the delegate", p.At(ck.iff), w))
					return false
				}
				return true
			})
		}
		// an Acquire reachable from a wait (without passing the loop head) must be dominated by the wait's true result
		for _, w := range waits {
			for _, a := range acqs {
				if !c13ReachesWithin(w.Block(), a.Block(), w, a) {
					continue
				}
				dominated := false
				for _, b := range f.Blocks {
					iff, ok := b.Instrs[len(b.Instrs)-1].(*ssa.If)
					if !ok {
						continue
					}
					cond, neg := normCond(iff.Cond)
					if cond == ssa.Value(w) {
						s := 0
						if neg {
							s = 1
						}
						succ := b.Succs[s]
						if len(succ.Preds) == 1 && succ.Dominates(a.Block()) {
							dominated = true
						}
					}
				}
				if !dominated {
					bad = append(bad, fmt.Sprintf("%s: delegate.Acquire after the wait is not conditional on the wait having been signalled (a timed-out or cancelled wait acquires)", p.At(a)))
				}
			}
		}
		l.Check(len(bad) == 0, "O2", key, p.FuncPos(f), fmt.Sprintf("%d Acquire sites dominated by %v; failing edges refuse untouched; post-wait Acquire requires the signalled result", len(acqs), want),
			"an already-cancelled / expired call can consume capacity", bad...)

		// ---------------- O3: computed wait bounds
		for i, w := range waits {
			c := p.CallOf(w)
			arg := w.Call.Args[waitPrims[c.Static]]
			if _, _, isField := loadedField(strip(arg, false)); isField {
				continue // configured bound (0 = no timeout by design)
			}
			if _, isC := strip(arg, false).(*ssa.Const); isC {
				continue
			}
			k3 := fmt.Sprintf("%s/wait#%d", key, i+1)
			npaths := 0
			var bad3 []string
			// freshness: the remaining time must be re-computed from the configured deadline in the same loop iteration as the wait
			if why := c13FreshBound(p, f, w, arg); why != "" {
				bad3 = append(bad3, why)
			}
			EnumPathsPrefix(f, w, 100000, func(pa *Path) bool {
				npaths++
				pr := &prover{p: p, pa: pa, step: len(pa.Blocks) - 1}
				if !pr.GT(arg, atomConst(0)) {
					bad3 = append(bad3, fmt.Sprintf("the computed wait bound %s is not proved > 0 on the path %s; the wait primitive arms no timer for a bound <= 0, so the wait is unbounded", operandString(pr.res(arg)), joinWitness(p.DescribePath(pa))))
				}
				return len(bad3) < 2
			})
			l.Check(len(bad3) == 0 && npaths > 0, "O3", k3, p.At(w), fmt.Sprintf("%d paths to the wait; the computed bound is > 0 on each", npaths), "a deadline wait can be entered with no timer armed", bad3...)
		}
	}
}

// c13Bound: the configured wait bound of a function with a blocking select: a time.Duration parameter, or a
// time.Duration field of the receiver that is compared with 0.
func c13Bound(p *Prog, f *ssa.Function) ssa.Value {
	isDur := func(t types.Type) bool {
		nt, ok := t.(*types.Named)
		return ok && nt.Obj().Pkg() != nil && nt.Obj().Pkg().Path() == "time" && nt.Obj().Name() == "Duration"
	}
	for _, q := range f.Params {
		if isDur(q.Type()) {
			return q
		}
	}
	var out ssa.Value
	allInstrs(f, func(ins ssa.Instruction) {
		if bo, ok := ins.(*ssa.BinOp); ok && out == nil {
			for _, v := range []ssa.Value{bo.X, bo.Y} {
				if fr, _, ok := loadedField(strip(v, false)); ok && isDur(structOf(fr.Type).Field(fr.Index).Type()) {
					out = strip(v, false)
				}
			}
		}
	})
	return out
}

func c13NewTimerCall(p *Prog, ch ssa.Value) *ssa.Call {
	var out *ssa.Call
	var walk func(v ssa.Value, d int)
	walk = func(v ssa.Value, d int) {
		if d > 6 || v == nil {
			return
		}
		v = strip(v, false)
		switch x := v.(type) {
		case *ssa.Phi:
			for _, e := range x.Edges {
				walk(e, d+1)
			}
		case *ssa.UnOp:
			walk(x.X, d+1)
		case *ssa.FieldAddr:
			walk(x.X, d+1)
		case *ssa.Call:
			if p.CallOf(x).Is("time.NewTimer") {
				out = x
			}
		}
	}
	walk(ch, 0)
	return out
}

// c13OnlyWhenNonPositive: the select is dominated by the false edge of "bound > 0" (or the true edge of "bound <= 0").
func c13OnlyWhenNonPositive(p *Prog, f *ssa.Function, sel *ssa.Select, bound ssa.Value) bool {
	for _, b := range f.Blocks {
		iff, ok := b.Instrs[len(b.Instrs)-1].(*ssa.If)
		if !ok {
			continue
		}
		cond, neg := normCond(iff.Cond)
		bo, ok := cond.(*ssa.BinOp)
		if !ok {
			continue
		}
		x, y, op := bo.X, bo.Y, bo.Op
		if k, isC := constInt(x); isC && k == 0 {
			x, y, op = y, x, flipOp(op)
		}
		if k, isC := constInt(y); !isC || k != 0 || !sameValueOrLoad(x, bound) {
			continue
		}
		// op is relation "bound op 0"; which successor means bound <= 0 ?
		var nonPos int
		switch op {
		case token.GTR:
			nonPos = 1
		case token.LEQ:
			nonPos = 0
		default:
			continue
		}
		if neg {
			nonPos = 1 - nonPos
		}
		pos := b.Succs[1-nonPos]
		// the select must not be reachable through the positive edge; with a diamond-free structure:
		// the positive successor must not reach the select's block
		if !blockReaches(pos, sel.Block(), map[*ssa.BasicBlock]bool{}) {
			return true
		}
	}
	return false
}

func blockReaches(from, to *ssa.BasicBlock, seen map[*ssa.BasicBlock]bool) bool {
	if from == to {
		return true
	}
	if seen[from] {
		return false
	}
	seen[from] = true
	for _, s := range from.Succs {
		if blockReaches(s, to, seen) {
			return true
		}
	}
	return false
}

// c13TimerCondOnPositive: a conditional timer channel (nil unless armed) is armed exactly on the edge bound > 0.
func c13TimerCondOnPositive(p *Prog, s *c13Select, i int, bound ssa.Value) string {
	call := c13NewTimerCall(p, s.sel.States[i].Chan)
	if call == nil {
		return "cannot find the timer construction of the conditional timer case"
	}
	// the NewTimer call must be dominated by the positive edge, and the positive edge must lead to it unconditionally
	f := s.fn
	for _, b := range f.Blocks {
		iff, ok := b.Instrs[len(b.Instrs)-1].(*ssa.If)
		if !ok {
			continue
		}
		cond, neg := normCond(iff.Cond)
		bo, ok := cond.(*ssa.BinOp)
		if !ok {
			continue
		}
		x, y, op := bo.X, bo.Y, bo.Op
		if k, isC := constInt(x); isC && k == 0 {
			x, y, op = y, x, flipOp(op)
		}
		if k, isC := constInt(y); !isC || k != 0 || !sameValueOrLoad(x, bound) {
			continue
		}
		posIdx := -1
		switch op {
		case token.GTR:
			posIdx = 0
		case token.LEQ:
			posIdx = 1
		}
		if posIdx < 0 {
			continue
		}
		if neg {
			posIdx = 1 - posIdx
		}
		if b.Succs[posIdx] == call.Block() && len(call.Block().Preds) == 1 {
			return ""
		}
	}
	return "the timer is not armed on exactly the edge 'configured bound > 0'"
}

// c13CondOnFlag: the conditional ctx.Done case is enabled on the true edge of a bool field of the receiver.
func c13CondOnFlag(p *Prog, s *c13Select, i int) string {
	phi, ok := strip(s.sel.States[i].Chan, false).(*ssa.Phi)
	if !ok {
		return "conditional ctx.Done() case of unrecognised shape"
	}
	for k, e := range phi.Edges {
		if isNilConst(strip(e, false)) {
			continue
		}
		pred := phi.Block().Preds[k]
		// pred must be reached only by the true edge of an If on a bool receiver field
		if len(pred.Preds) != 1 {
			return "ctx.Done() is enabled on a merged edge"
		}
		hd := pred.Preds[0]
		iff, ok := hd.Instrs[len(hd.Instrs)-1].(*ssa.If)
		if !ok {
			return "ctx.Done() is enabled unconditionally through an unexpected edge"
		}
		cond, neg := normCond(iff.Cond)
		fr, _, isF := loadedField(strip(cond, false))
		if !isF {
			return "ctx.Done() is gated by something other than a configuration flag: " + condString(cond)
		}
		if b, ok := structOf(fr.Type).Field(fr.Index).Type().Underlying().(*types.Basic); !ok || b.Kind() != types.Bool {
			return "ctx.Done() is gated by a non-boolean field"
		}
		if !strings.Contains(strings.ToLower(fr.Name), "ctx") && !strings.Contains(strings.ToLower(fr.Name), "evict") {
			return "ctx.Done() is gated by flag " + fr.Name + ", which is not the cancellation-eviction flag"
		}
		want := 0
		if neg {
			want = 1
		}
		if hd.Succs[want] != pred {
			return "ctx.Done() is enabled when the eviction flag is false"
		}
	}
	return ""
}

// c13ReachesWithin: block `to` is reachable from `from` without traversing a back edge (same loop iteration);
// when both are in one block, a must come after w.
func c13ReachesWithin(from, to *ssa.BasicBlock, w, a ssa.Instruction) bool {
	if from == to {
		return indexIn(w) < indexIn(a)
	}
	seen := map[*ssa.BasicBlock]bool{}
	var dfs func(b *ssa.BasicBlock) bool
	dfs = func(b *ssa.BasicBlock) bool {
		if b == to {
			return true
		}
		if seen[b] {
			return false
		}
		seen[b] = true
		for _, s := range b.Succs {
			if s.Dominates(b) {
				continue // back edge
			}
			if dfs(s) {
				return true
			}
		}
		return false
	}
	return dfs(from)
}

// c13FreshBound: the computed bound comes from deadline.Sub(now) / time.Until(deadline) on the receiver's deadline
// field, evaluated inside every loop that contains the wait (so each retry waits only for what is left).
func c13FreshBound(p *Prog, f *ssa.Function, wait *ssa.Call, arg ssa.Value) string {
	var clocks []*ssa.Call
	usesDeadline := false
	seen := map[ssa.Value]bool{}
	var walk func(v ssa.Value, d int)
	walk = func(v ssa.Value, d int) {
		if v == nil || d > 10 || seen[v] {
			return
		}
		seen[v] = true
		v = strip(v, true)
		switch x := v.(type) {
		case *ssa.Phi:
			for _, e := range x.Edges {
				walk(e, d+1)
			}
		case *ssa.BinOp:
			walk(x.X, d+1)
			walk(x.Y, d+1)
		case *ssa.Convert:
			walk(x.X, d+1)
		case *ssa.UnOp:
			if al, ok := x.X.(*ssa.Alloc); ok {
				if refs := al.Referrers(); refs != nil {
					for _, r := range *refs {
						if st, ok := r.(*ssa.Store); ok && st.Addr == ssa.Value(al) {
							walk(st.Val, d+1)
						}
					}
				}
			}
			if fr, _, ok := loadedField(x); ok {
				if nt, ok := structOf(fr.Type).Field(fr.Index).Type().(*types.Named); ok && nt.Obj().Name() == "Time" {
					usesDeadline = true
				}
			}
		case *ssa.Call:
			c := p.CallOf(x)
			switch c.Name {
			case "(time.Time).Sub", "time.Until", "time.Now", "(time.Time).UTC", "time.Since":
				clocks = append(clocks, x)
				if c.Recv != nil {
					walk(c.Recv, d+1)
				}
				for _, a := range c.Args {
					walk(a, d+1)
				}
			}
		}
	}
	walk(arg, 0)
	if len(clocks) == 0 {
		return "the computed wait bound does not come from the clock (deadline.Sub(now) / time.Until(deadline))"
	}
	if !usesDeadline {
		return "the computed wait bound does not derive from the limiter's configured deadline"
	}
	for _, b := range f.Blocks {
		if !isLoopHeader(b) || !b.Dominates(wait.Block()) {
			continue
		}
		// wait is inside the loop headed by b (it can reach b again)
		if !blockReaches(wait.Block(), b, map[*ssa.BasicBlock]bool{}) {
			continue
		}
		for _, c := range clocks {
			if !b.Dominates(c.Block()) {
				return fmt.Sprintf("%s: the time left until the deadline is computed once outside the retry loop; after a fruitless wake-up the next wait reuses the stale bound and outlasts the deadline", p.At(c))
			}
		}
	}
	return ""
}

// hasCondField: the struct has a *sync.Cond (or sync.Cond) field.
func hasCondField(nt *types.Named) bool {
	st, ok := nt.Underlying().(*types.Struct)
	if !ok {
		return false
	}
	for i := 0; i < st.NumFields(); i++ {
		t := st.Field(i).Type()
		if pt, ok := t.(*types.Pointer); ok {
			t = pt.Elem()
		}
		if n, ok := t.(*types.Named); ok && n.Obj().Pkg() != nil && n.Obj().Pkg().Path() == "sync" && n.Obj().Name() == "Cond" {
			return true
		}
	}
	return false
}

// c13Waits: the function (or a module function it calls, to the given depth, including goroutines it spawns) waits on a
// condition variable or in a select: its boolean result is the outcome of a wait.
func c13Waits(p *Prog, f *ssa.Function, depth int) bool {
	found := false
	allInstrs(f, func(ins ssa.Instruction) {
		if found {
			return
		}
		switch x := ins.(type) {
		case *ssa.Select:
			if x.Blocking {
				found = true
			}
		case ssa.CallInstruction:
			c := p.CallOf(x)
			if c == nil {
				return
			}
			if c.Is("(*sync.Cond).Wait") {
				found = true
				return
			}
			if depth > 0 && c.Static != nil && p.InModule(c.Static) && c.Static != f && c13Waits(p, c.Static, depth-1) {
				found = true
			}
		}
	})
	return found
}
