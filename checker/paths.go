package main

// E2 — all-paths engine. Enumerates every path of a function's SSA control-flow graph in which each CFG
// edge is used at most once (loops are taken zero times and once), prunes paths that test the same SSA
// value with contradicting outcomes, and gives rules a path-sensitive view: the instructions in order,
// the branch facts taken, and the concrete incoming value of every phi.

import (
	"fmt"
	"go/constant"
	"go/token"
	"go/types"
	"strings"

	"gclverify/xt/ssa"
)

type Fact struct {
	Cond ssa.Value // normalised: never an UnOp NOT
	True bool
	Step int
}

type Path struct {
	Fn     *ssa.Function
	Blocks []*ssa.BasicBlock
	Succ   []int // successor index taken from Blocks[i]; -1 on the last block
	Facts  []Fact
	Cut    bool // the path ended because every onward edge was already used (it loops back), not at a return / panic
}

// Term is the final instruction of the path (Return, Panic, or the last instruction of a dead end).
func (p *Path) Term() ssa.Instruction {
	b := p.Blocks[len(p.Blocks)-1]
	if len(b.Instrs) == 0 {
		return nil
	}
	return b.Instrs[len(b.Instrs)-1]
}

func (p *Path) IsReturn() bool {
	_, ok := p.Term().(*ssa.Return)
	return ok
}

// Each visits the instructions in path order.
func (p *Path) Each(fn func(step int, ins ssa.Instruction) bool) {
	for i, b := range p.Blocks {
		for _, ins := range b.Instrs {
			if !fn(i, ins) {
				return
			}
		}
	}
}

// Phi returns the value flowing into phi for the occurrence of its block at step (or the latest
// occurrence before step if the block is not at step).
func (p *Path) Phi(phi *ssa.Phi, step int) ssa.Value {
	b := phi.Block()
	at := -1
	for i := step; i >= 0; i-- {
		if i < len(p.Blocks) && p.Blocks[i] == b {
			at = i
			break
		}
	}
	if at <= 0 {
		return nil
	}
	pred := p.Blocks[at-1]
	for i, pb := range b.Preds {
		if pb == pred {
			// several edges from the same pred (if both branches go to b) are disambiguated by Succ
			if pred.Succs[p.Succ[at-1]] == b {
				// find which pred slot corresponds: count occurrences
				slot := 0
				for k := 0; k < p.Succ[at-1]; k++ {
					if pred.Succs[k] == b {
						slot++
					}
				}
				seen := 0
				for j, pb2 := range b.Preds {
					if pb2 == pred {
						if seen == slot {
							return phi.Edges[j]
						}
						seen++
					}
				}
			}
			return phi.Edges[i]
		}
	}
	return nil
}

// Resolve looks through phis (using the path) and no-op conversions.
func (p *Path) Resolve(v ssa.Value, step int) ssa.Value {
	for i := 0; i < 32; i++ {
		v = strip(v, false)
		phi, ok := v.(*ssa.Phi)
		if !ok {
			return v
		}
		// position of the phi's block at or before step
		at := -1
		for k := step; k >= 0; k-- {
			if k < len(p.Blocks) && p.Blocks[k] == phi.Block() {
				at = k
				break
			}
		}
		if at < 0 {
			return v
		}
		in := p.Phi(phi, at)
		if in == nil {
			return v
		}
		v = in
		step = at - 1
		if step < 0 {
			step = 0
		}
	}
	return v
}

// FactOn reports the truth value the path established for cond (normalised), if any, before step.
func (p *Path) FactOn(cond ssa.Value, before int) (bool, bool) {
	c, neg := normCond(cond)
	for i := len(p.Facts) - 1; i >= 0; i-- {
		f := p.Facts[i]
		if f.Step < before && f.Cond == c {
			return f.True != neg, true
		}
	}
	return false, false
}

func normCond(v ssa.Value) (ssa.Value, bool) {
	neg := false
	for i := 0; i < 16; i++ {
		if u, ok := v.(*ssa.UnOp); ok && u.Op == token.NOT {
			v = u.X
			neg = !neg
			continue
		}
		// a flag read back from the cell of a captured / address-taken local that is assigned once is that value
		if s := strip(v, false); s != v {
			v = s
			continue
		}
		return v, neg
	}
	return v, neg
}

// curProg is the program being analysed (set by runRules); the path engine asks it which fields are immutable.
var curProg *Prog

type canonCond struct {
	lhs, rhs string
	op       token.Token
	ok       bool
}

var canonCache = map[ssa.Value]canonCond{}

func operandKey(v ssa.Value) string {
	v = strip(v, false)
	switch x := v.(type) {
	case *ssa.Const:
		if x.Value == nil {
			return "c:nil:" + x.Type().String()
		}
		return "c:" + x.Value.ExactString() + ":" + x.Type().String()
	case *ssa.Parameter:
		return "p:" + x.Name()
	}
	if fr, base, ok := loadedField(v); ok && curProg != nil && curProg.FieldImmutable(fr) {
		ap := AccessPath(base)
		switch ap.Root.(type) {
		case *ssa.Parameter, *ssa.FreeVar:
			for _, f := range ap.Fields {
				if !curProg.FieldImmutable(f) {
					return ""
				}
			}
			return "f:" + ap.String() + "." + fr.Name
		}
	}
	return ""
}

// canon: a comparison whose operands are constants, parameters and loads of immutable fields reached from a parameter
// has the same truth value wherever it is evaluated in one activation of the function (two loads of such a field are
// equal). Such comparisons are identified by their operands, not by the SSA value that computes them.
func canon(c ssa.Value) canonCond {
	if cc, ok := canonCache[c]; ok {
		return cc
	}
	var cc canonCond
	if b, ok := c.(*ssa.BinOp); ok {
		switch b.Op {
		case token.LSS, token.LEQ, token.GTR, token.GEQ, token.EQL, token.NEQ:
			l, r := operandKey(b.X), operandKey(b.Y)
			if l != "" && r != "" && (strings.HasPrefix(l, "f:") || strings.HasPrefix(r, "f:")) {
				cc = canonCond{lhs: l, rhs: r, op: b.Op, ok: true}
			}
		}
	}
	canonCache[c] = cc
	return cc
}

// impliedBy: the truth of cond a (canonical) given that cond b (canonical) has truth tb; ok=false when unrelated.
func impliedBy(a, b canonCond, tb bool) (bool, bool) {
	if !a.ok || !b.ok {
		return false, false
	}
	if a.lhs == b.rhs && a.rhs == b.lhs {
		b = canonCond{lhs: b.rhs, rhs: b.lhs, op: flipOp(b.op), ok: true}
	}
	if a.lhs != b.lhs || a.rhs != b.rhs {
		return false, false
	}
	if a.op == b.op {
		return tb, true
	}
	if a.op == negOp(b.op) {
		return !tb, true
	}
	return false, false
}

// evalOnPath decides an == / != comparison from the values its operands have on the path (phis resolved): two
// constants, or nil against a value that is never nil (a freshly made channel, map, slice, closure, allocation, function).
func evalOnPath(pa *Path, c ssa.Value, step int) (bool, bool) {
	b, ok := c.(*ssa.BinOp)
	if !ok {
		return false, false
	}
	_, px := strip(b.X, false).(*ssa.Phi)
	_, py := strip(b.Y, false).(*ssa.Phi)
	if !px && !py {
		return false, false
	}
	// a merge at a loop head has the resolved value on the first iteration only; paths are enumerated with bounded
	// unrolling, where the first iteration stands for all of them: such a comparison is left undecided
	for _, v := range []ssa.Value{strip(b.X, false), strip(b.Y, false)} {
		if ph, ok := v.(*ssa.Phi); ok {
			for _, pred := range ph.Block().Preds {
				if ph.Block().Dominates(pred) {
					return false, false
				}
			}
		}
	}
	x, y := pa.Resolve(b.X, step), pa.Resolve(b.Y, step)
	switch b.Op {
	case token.LSS, token.LEQ, token.GTR, token.GEQ:
		// an ordered comparison of two integer constants, one of them a merge that this path resolves (t := r; if r < 0 {t = 0}; if t <= 0)
		cx, okx := strip(x, true).(*ssa.Const)
		cy, oky := strip(y, true).(*ssa.Const)
		if okx && oky && cx.Value != nil && cy.Value != nil && cx.Value.Kind() == constant.Int && cy.Value.Kind() == constant.Int {
			return constant.Compare(cx.Value, b.Op, cy.Value), true
		}
		return false, false
	case token.EQL, token.NEQ:
	default:
		return false, false
	}
	kind := func(v ssa.Value) int { // 1 nil, 2 never nil, 0 unknown
		switch t := strip(v, false).(type) {
		case *ssa.Const:
			if t.Value == nil {
				switch t.Type().Underlying().(type) {
				case *types.Pointer, *types.Chan, *types.Map, *types.Slice, *types.Signature, *types.Interface:
					return 1
				}
			}
		case *ssa.MakeChan, *ssa.MakeMap, *ssa.MakeSlice, *ssa.MakeClosure, *ssa.Alloc, *ssa.Function:
			return 2
		}
		return 0
	}
	eq, known := false, false
	kx, ky := kind(x), kind(y)
	switch {
	case kx == 1 && ky == 1:
		eq, known = true, true
	case (kx == 1 && ky == 2) || (kx == 2 && ky == 1):
		eq, known = false, true
	default:
		cx, okx := strip(x, false).(*ssa.Const)
		cy, oky := strip(y, false).(*ssa.Const)
		if okx && oky && cx.Value != nil && cy.Value != nil && cx.Value.Kind() == cy.Value.Kind() && cx.Value.Kind() != constant.Float && cx.Value.Kind() != constant.Complex {
			eq, known = constant.Compare(cx.Value, token.EQL, cy.Value), true
		}
	}
	if !known {
		return false, false
	}
	if b.Op == token.NEQ {
		return !eq, true
	}
	return eq, true
}

type pathEnum struct {
	fn       *ssa.Function
	max      int
	n        int
	trunc    bool
	visit    func(*Path) bool
	stop     bool
	blocks   []*ssa.BasicBlock
	succ     []int
	facts    []Fact
	used     map[[2]int]int
	loopIter int
	target   *ssa.BasicBlock
	emitCut  bool
}

// EnumPaths enumerates the paths of fn from its entry block. visit returns false to stop early.
// Returns the number of paths visited and whether enumeration was truncated by the cap.
func EnumPaths(fn *ssa.Function, max int, visit func(*Path) bool) (int, bool) {
	return EnumPathsFrom(fn, fn.Blocks[0], max, 1, visit)
}

func EnumPathsFrom(fn *ssa.Function, start *ssa.BasicBlock, max, loopIter int, visit func(*Path) bool) (int, bool) {
	e := &pathEnum{fn: fn, max: max, visit: visit, used: map[[2]int]int{}, loopIter: loopIter}
	e.dfs(start)
	return e.n, e.trunc
}

// EnumPathsWithLoops is EnumPaths, but also emits (with Cut set) the paths that end by looping back onto an
// edge they already used; typestate rules use it to see what is still outstanding when a loop iterates.
func EnumPathsWithLoops(fn *ssa.Function, max int, visit func(*Path) bool) (int, bool) {
	e := &pathEnum{fn: fn, max: max, visit: visit, used: map[[2]int]int{}, loopIter: 1, emitCut: true}
	e.dfs(fn.Blocks[0])
	return e.n, e.trunc
}

// EnumPathsPrefix enumerates the paths from the entry block to the block containing target (the path ends
// with that block; rules look at the facts established before it).
func EnumPathsPrefix(fn *ssa.Function, target ssa.Instruction, max int, visit func(*Path) bool) (int, bool) {
	e := &pathEnum{fn: fn, max: max, visit: visit, used: map[[2]int]int{}, loopIter: 1, target: target.Block()}
	e.dfs(fn.Blocks[0])
	return e.n, e.trunc
}

func definingBlock(v ssa.Value) *ssa.BasicBlock {
	if ins, ok := v.(ssa.Instruction); ok {
		return ins.Block()
	}
	return nil
}

func (e *pathEnum) dfs(b *ssa.BasicBlock) {
	if e.stop {
		return
	}
	if e.fn.Recover != nil && b == e.fn.Recover {
		return
	}
	step := len(e.blocks)
	// entering b: facts about values defined in b are about an older dynamic instance
	savedFacts := e.facts
	if len(e.facts) > 0 {
		var kept []Fact
		dropped := false
		for _, f := range e.facts {
			if definingBlock(f.Cond) == b {
				dropped = true
				continue
			}
			kept = append(kept, f)
		}
		if dropped {
			e.facts = kept
		}
	}
	e.blocks = append(e.blocks, b)
	defer func() {
		e.blocks = e.blocks[:step]
		e.facts = savedFacts
	}()

	if e.target != nil && b != e.target && len(b.Succs) == 0 {
		return
	}
	if len(b.Succs) == 0 || b == e.target {
		e.succ = append(e.succ, -1)
		e.emit()
		e.succ = e.succ[:step]
		return
	}
	var allowed []int
	if iff, ok := b.Instrs[len(b.Instrs)-1].(*ssa.If); ok {
		c, neg := normCond(iff.Cond)
		// a condition merged by a phi (a && b, a || b, a flag set on some branches): on this path it is the incoming value
		var rc ssa.Value
		rneg := false
		if _, isPhi := c.(*ssa.Phi); isPhi {
			tmp := &Path{Fn: e.fn, Blocks: e.blocks, Succ: e.succ}
			if r := tmp.Resolve(c, step); r != nil && r != c {
				r, n2 := normCond(r)
				if _, still := r.(*ssa.Phi); !still {
					rc, rneg = r, n2
				}
			}
		}
		if rc == nil {
			// a comparison whose operands are merged by phis: on this path they are the incoming values; two constants, or
			// nil against a freshly made object, decide the branch
			if t, ok := evalOnPath(&Path{Fn: e.fn, Blocks: e.blocks, Succ: e.succ}, c, step); ok {
				if t {
					rc = ssa.NewConst(constant.MakeBool(true), types.Typ[types.Bool])
				} else {
					rc = ssa.NewConst(constant.MakeBool(false), types.Typ[types.Bool])
				}
			}
		}
		if cb, isC := constBool(c); isC {
			if cb != neg {
				allowed = []int{0}
			} else {
				allowed = []int{1}
			}
		} else if cb, isC := constBool(rc); rc != nil && isC {
			if cb != (neg != rneg) {
				allowed = []int{0}
			} else {
				allowed = []int{1}
			}
		} else {
			known := false
			var val bool
			for i := len(e.facts) - 1; i >= 0; i-- {
				if e.facts[i].Cond == c {
					known, val = true, e.facts[i].True
					break
				}
				if rc != nil && e.facts[i].Cond == rc {
					known, val = true, e.facts[i].True != rneg
					break
				}
			}
			if !known {
				cc := canon(c)
				if cc.ok {
					for i := len(e.facts) - 1; i >= 0 && !known; i-- {
						if t, ok := impliedBy(cc, canon(e.facts[i].Cond), e.facts[i].True); ok {
							known, val = true, t
						}
					}
				}
			}
			if known {
				if val != neg {
					allowed = []int{0}
				} else {
					allowed = []int{1}
				}
			} else {
				allowed = []int{0, 1}
			}
		}
		progressed := false
		defer func() {
			if !progressed && e.emitCut && !e.stop {
				e.succ = append(e.succ, -1)
				e.emitWith(true)
				e.succ = e.succ[:step]
			}
		}()
		for _, si := range allowed {
			key := [2]int{b.Index, si}
			if e.used[key] >= e.loopIter {
				continue
			}
			progressed = true
			e.used[key]++
			e.succ = append(e.succ, si)
			nf := len(e.facts)
			e.facts = append(e.facts[:nf:nf], Fact{Cond: c, True: (si == 0) != neg, Step: step})
			if rc != nil {
				e.facts = append(e.facts, Fact{Cond: rc, True: ((si == 0) != neg) != rneg, Step: step})
			}
			e.dfs(b.Succs[si])
			e.facts = e.facts[:nf]
			e.succ = e.succ[:step]
			e.used[key]--
			if e.stop {
				return
			}
		}
		return
	}
	progressed2 := false
	for si := range b.Succs {
		key := [2]int{b.Index, si}
		if e.used[key] >= e.loopIter {
			continue
		}
		progressed2 = true
		e.used[key]++
		e.succ = append(e.succ, si)
		e.dfs(b.Succs[si])
		e.succ = e.succ[:step]
		e.used[key]--
		if e.stop {
			return
		}
	}
	if !progressed2 && e.emitCut && !e.stop {
		e.succ = append(e.succ, -1)
		e.emitWith(true)
		e.succ = e.succ[:step]
	}
}

func (e *pathEnum) emit() { e.emitWith(false) }

func (e *pathEnum) emitWith(cut bool) {
	if e.n >= e.max {
		e.trunc = true
		e.stop = true
		return
	}
	e.n++
	p := &Path{Fn: e.fn, Blocks: append([]*ssa.BasicBlock{}, e.blocks...), Succ: append([]int{}, e.succ...), Facts: append([]Fact{}, e.facts...), Cut: cut}
	if !e.visit(p) {
		e.stop = true
	}
}

// Describe renders the path as the list of source lines of its branch decisions.
func (p *Prog) DescribePath(pa *Path) []string {
	var out []string
	for _, f := range pa.Facts {
		pos := "?"
		if ins, ok := f.Cond.(ssa.Instruction); ok {
			pos = p.At(ins)
		}
		out = append(out, fmt.Sprintf("%s: (%s) is %v", pos, condString(f.Cond), f.True))
	}
	if t := pa.Term(); t != nil {
		out = append(out, fmt.Sprintf("%s: %s", p.At(t), t.String()))
	}
	return out
}

func condString(v ssa.Value) string {
	switch x := v.(type) {
	case *ssa.BinOp:
		return fmt.Sprintf("%s %s %s", operandString(x.X), x.Op, operandString(x.Y))
	}
	return operandString(v)
}

func operandString(v ssa.Value) string {
	v = strip(v, true)
	switch x := v.(type) {
	case *ssa.Const:
		return x.String()
	case *ssa.Parameter:
		return x.Name()
	case *ssa.UnOp:
		if x.Op == token.MUL {
			return AccessPath(x).String()
		}
	case *ssa.Call:
		return x.Call.String()
	case *ssa.Extract:
		return fmt.Sprintf("%s#%d", operandString(x.Tuple), x.Index)
	case *ssa.Convert:
		return operandString(x.X)
	}
	return v.Name()
}

// ReturnValues returns the values returned at the end of the path, resolved through phis and through
// the named-result cells that defer introduces (store->load forwarding along the path).
func (pa *Path) ReturnValues() []ssa.Value {
	ret, ok := pa.Term().(*ssa.Return)
	if !ok {
		return nil
	}
	last := len(pa.Blocks) - 1
	out := make([]ssa.Value, len(ret.Results))
	for i, r := range ret.Results {
		out[i] = pa.ResolveDeep(r, last)
	}
	return out
}

// ResolveDeep resolves phis and, for loads of local cells (Alloc), the last store on the path.
func (pa *Path) ResolveDeep(v ssa.Value, step int) ssa.Value {
	for i := 0; i < 16; i++ {
		v = pa.Resolve(v, step)
		u, ok := v.(*ssa.UnOp)
		if !ok || u.Op != token.MUL {
			return v
		}
		al, ok := u.X.(*ssa.Alloc)
		if !ok {
			return v
		}
		// find the last store to al on the path before the load
		var lastVal ssa.Value
		lastStep := -1
		done := false
		pa.Each(func(s int, ins ssa.Instruction) bool {
			if ins == ssa.Instruction(u) && s <= step {
				// loads may appear in several steps only in loops; take the first match at/after lastStep
				done = true
				return false
			}
			if st, ok := ins.(*ssa.Store); ok && st.Addr == ssa.Value(al) {
				lastVal = st.Val
				lastStep = s
			}
			return true
		})
		_ = done
		if lastVal == nil {
			return v
		}
		v = lastVal
		step = lastStep
	}
	return v
}

// sameCellValueOnPath: a and b are loads of the same local cell (a variable captured by a closure lives in one) and the
// path stores nothing into that cell between the two loads: they read the same value.
func sameCellValueOnPath(pa *Path, a, b ssa.Value) bool {
	ua, ok1 := strip(a, false).(*ssa.UnOp)
	ub, ok2 := strip(b, false).(*ssa.UnOp)
	if !ok1 || !ok2 || ua.Op != token.MUL || ub.Op != token.MUL {
		return false
	}
	cell, isCell := ua.X.(*ssa.Alloc)
	if !isCell || ub.X != ssa.Value(cell) {
		return false
	}
	state := 0 // 0 before the first load, 1 between, 2 after
	same := true
	pa.Each(func(step int, ins ssa.Instruction) bool {
		if ins == ssa.Instruction(ua) || ins == ssa.Instruction(ub) {
			state++
			return state < 2
		}
		if state == 1 {
			if st, ok := ins.(*ssa.Store); ok && st.Addr == ssa.Value(cell) {
				same = false
				return false
			}
		}
		return true
	})
	return same && state == 2
}
