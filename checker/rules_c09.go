package main

import (
	"sort"
	"fmt"
	"go/token"
	"go/types"
	"math"
	"strings"

	"gclverify/xt/ssa"
)

func init() {
	register("C09", &ruleSet{
		run:    runC09,
		floors: map[string]int{"O1": 2, "O2": 2, "O3": 2, "O4": 3, "O5": 7},
		explain: "Decides the window protocol structurally: (O1) at each call of the delegate algorithm's OnSample from a windowing component the RTT argument is the " +
			"window's candidate (default limiter) / average (windowed limit) RTT, the in-flight argument its MaxInFlight and the drop argument its DidDrop, all of one " +
			"snapshot that is the window being replaced; (O2) on every path that calls the delegate the window field is re-assigned an empty window and the " +
			"next-update time is advanced from the end time by a value clamped between the configured minimum and maximum window time, and on every other path " +
			"neither happens; (O3) the delegate call is dominated by endTime > nextUpdateTime (re-read under the lock) and by the readiness predicate, whose " +
			"positive result requires a strict '>' against the configured window size; (O4) AddSample/AddDroppedSample never store through the receiver and build " +
			"the new window with min/max selections, sum+rtt, count+1 and a sticky drop flag; (O5) OnSuccess records only when rtt >= threshold, OnDropped records a " +
			"dropped sample, and nothing reachable from OnIgnore writes a window or calls the algorithm. Concurrent completions between snapshot and re-lock are " +
			"not decided (C09 quantifies over histories).",
	})
}

type c09Roles struct {
	W       *types.Named
	Min     FieldRef
	MaxIF   FieldRef
	Count   FieldRef
	Drop    FieldRef
	Sum     FieldRef
	Ctor    *ssa.Function
	CtorPos map[int]int // field index -> constructor parameter index
}

// accessorField: the field a zero-argument accessor returns.
func (p *Prog) accessorField(nt *types.Named, name string) (FieldRef, bool) {
	fn := p.Method(nt, name)
	if fn == nil {
		return FieldRef{}, false
	}
	var out FieldRef
	ok := true
	n := 0
	allInstrs(fn, func(ins ssa.Instruction) {
		if r, isR := ins.(*ssa.Return); isR && len(r.Results) == 1 {
			fr, _, isF := loadedField(strip(r.Results[0], false))
			if !isF {
				ok = false
				return
			}
			if n > 0 && !sameField(out, fr) {
				ok = false
			}
			out = fr
			n++
		}
	})
	return out, ok && n > 0
}

func c09FindRoles(p *Prog, l *Ledger) *c09Roles {
	w := p.Named("measurements", "ImmutableSampleWindow")
	if w == nil {
		l.Infra("measurements.ImmutableSampleWindow not found")
		return nil
	}
	r := &c09Roles{W: w, CtorPos: map[int]int{}}
	var ok1, ok2, ok3, ok4 bool
	r.Min, ok1 = p.accessorField(w, "CandidateRTTNanoseconds")
	r.MaxIF, ok2 = p.accessorField(w, "MaxInFlight")
	r.Count, ok3 = p.accessorField(w, "SampleCount")
	r.Drop, ok4 = p.accessorField(w, "DidDrop")
	if !(ok1 && ok2 && ok3 && ok4) {
		l.Infra("cannot resolve the window's accessor fields (candidate/max-in-flight/count/drop)")
		return nil
	}
	// sum: numerator of the division in AverageRTTNanoseconds, divisor derives from the count
	if avg := p.Method(w, "AverageRTTNanoseconds"); avg != nil {
		allInstrs(avg, func(ins ssa.Instruction) {
			if b, ok := ins.(*ssa.BinOp); ok && b.Op == token.QUO {
				if fr, _, ok := loadedField(strip(b.X, true)); ok {
					den := strip(b.Y, true)
					if cv, ok := den.(*ssa.Convert); ok {
						den = strip(cv.X, true)
					}
					if fd, _, ok := loadedField(den); ok && sameField(fd, r.Count) {
						r.Sum = fr
					}
				}
			}
		})
	}
	if !r.Sum.Valid() {
		l.Infra("cannot resolve the window's sum field from AverageRTTNanoseconds (sum / count)")
		return nil
	}
	// constructor taking every field as a parameter
	for _, c := range p.Constructors(w) {
		if len(c.Params) >= 5 {
			r.Ctor = c
		}
	}
	if r.Ctor == nil {
		l.Infra("no full constructor of the sample window found")
		return nil
	}
	al := p.allocOf(r.Ctor, w)
	st := w.Underlying().(*types.Struct)
	for i := 0; i < st.NumFields(); i++ {
		fr := FieldRef{w, i, st.Field(i).Name()}
		for _, v := range storesInto(al, fr) {
			// the stored value is a parameter, or a phi of a parameter and a constant (0 -> MaxInt64)
			v = strip(v, false)
			var prm *ssa.Parameter
			switch x := v.(type) {
			case *ssa.Parameter:
				prm = x
			case *ssa.Phi:
				for _, e := range x.Edges {
					if pp, ok := strip(e, false).(*ssa.Parameter); ok {
						prm = pp
					}
				}
			}
			if prm != nil {
				for pi, q := range r.Ctor.Params {
					if q == prm {
						r.CtorPos[i] = pi
					}
				}
			}
		}
	}
	for _, fr := range []FieldRef{r.Min, r.MaxIF, r.Count, r.Drop, r.Sum} {
		if _, ok := r.CtorPos[fr.Index]; !ok {
			l.Infra("window constructor does not initialise field %s from a parameter", fr.Name)
			return nil
		}
	}
	return r
}

// windowCall: v is the result of calling accessor `name` on a window; returns the receiver.
func (p *Prog) windowCall(v ssa.Value, w *types.Named, name string) (ssa.Value, bool) {
	call, ok := strip(v, false).(*ssa.Call)
	if !ok {
		return nil, false
	}
	c := p.CallOf(call)
	if c.Recv == nil || c.MethodName() != name {
		return nil, false
	}
	if d := derefNamed(c.Recv.Type()); d == nil || !types.Identical(d, w) {
		// interface core.SampleWindow also accepted
		if !p.isCoreInvoke(c, "SampleWindow", name) {
			return nil, false
		}
	}
	return c.Recv, true
}

// isEmptyWindowCtor: call constructs the fold identity (count 0, sum 0, no drop, max-in-flight 0, min = +inf).
func c09EmptyWindow(p *Prog, r *c09Roles, v ssa.Value, depth int) (bool, string) {
	call, ok := strip(v, false).(*ssa.Call)
	if !ok {
		return false, "not a constructor call: " + valueString(v)
	}
	c := p.CallOf(call)
	if c.Static == nil {
		return false, "dynamic call"
	}
	if c.Static == r.Ctor {
		args := call.Call.Args
		chk := func(fr FieldRef, want ...int64) bool {
			k, ok := constInt(args[r.CtorPos[fr.Index]])
			if !ok {
				return false
			}
			for _, w := range want {
				if k == w {
					return true
				}
			}
			return false
		}
		if !chk(r.Sum, 0) || !chk(r.MaxIF, 0) || !chk(r.Count, 0) || !chk(r.Min, 0, math.MaxInt64) {
			return false, "the new window does not start from count 0 / sum 0 / max-in-flight 0 / no minimum"
		}
		if chk(r.Min, 0) && !c09CtorMapsZeroMin(p, r) {
			// "no minimum yet" is spelled 0 at this call site: the constructor must turn it into +infinity, or every
			// positive RTT compares larger than the minimum and the window's minimum stays 0
			return false, "the new window is created with minimum 0, and the constructor stores it as given (it does not map 0 to 'no minimum')"
		}
		if b, ok := constBool(args[r.CtorPos[r.Drop.Index]]); !ok || b {
			return false, "the new window does not start with the drop flag cleared"
		}
		return true, ""
	}
	if depth > 0 && p.InModule(c.Static) && len(c.Static.Blocks) > 0 {
		// helper constructor: every return must itself be an empty-window call
		okAll, why := true, ""
		n := 0
		allInstrs(c.Static, func(ins ssa.Instruction) {
			if ret, isR := ins.(*ssa.Return); isR && len(ret.Results) == 1 {
				n++
				if ok, w := c09EmptyWindow(p, r, ret.Results[0], depth-1); !ok {
					okAll, why = false, w
				}
			}
		})
		return okAll && n > 0, why
	}
	return false, "window produced by " + c.Name
}

func runC09(p *Prog, l *Ledger) {
	l.Rule("O1", "delegate OnSample arguments are the candidate/average RTT, MaxInFlight and DidDrop of one snapshot: the window being replaced")
	l.Rule("O2", "close/reset pairing: every path calling the delegate re-assigns an empty window and advances nextUpdateTime by a value within [minWindowTime, maxWindowTime]; other paths do neither")
	l.Rule("O3", "close condition: the delegate call is dominated by endTime > nextUpdateTime (read under the lock) and the readiness predicate ('>' against the window size)")
	l.Rule("O4", "fold: AddSample/AddDroppedSample are pure and build min/max selections, sum+rtt, count+1, sticky drop")
	l.Rule("O5", "outcome mapping: success below the RTT threshold and ignored completions leave no trace; drops add a dropped sample")
	l.NotCovered = []string{"samples added by concurrent completions between the snapshot and the re-lock in DefaultListener (schedules are not quantified by C09)", "numeric value of the mean"}
	r := c09FindRoles(p, l)
	if r == nil {
		return
	}
	locks := p.Locksets()
	wptr := types.NewPointer(r.W)
	readyHelpers := map[*ssa.Function]bool{} // bool helpers whose 'true' guards a window close

	// ---------------- O1 / O2 / O3 per windowing component
	type site struct {
		f    *ssa.Function
		call *ssa.Call
		comp *types.Named // struct owning the window field
		wf   FieldRef
	}
	var sites []site
	for _, f := range p.Funcs {
		if !(p.InPkg(f, "limiter") || p.InPkg(f, "limit")) || f.Signature.Recv() == nil {
			continue
		}
		recvT := derefNamed(f.Signature.Recv().Type())
		if recvT == nil {
			continue
		}
		// component = receiver type, or a struct it points to, that owns a window field
		var comp *types.Named
		var wf FieldRef
		cands := []*types.Named{recvT}
		if st, ok := recvT.Underlying().(*types.Struct); ok {
			for i := 0; i < st.NumFields(); i++ {
				if d := derefNamed(st.Field(i).Type()); d != nil {
					if _, isS := d.Underlying().(*types.Struct); isS && d.Obj().Pkg() == recvT.Obj().Pkg() {
						cands = append(cands, d)
					}
				}
			}
		}
		for _, c := range cands {
			if fs := fieldsOfType(c, wptr); len(fs) == 1 {
				comp, wf = c, fs[0]
			}
		}
		if comp == nil {
			continue
		}
		allInstrs(f, func(ins ssa.Instruction) {
			if call, ok := ins.(*ssa.Call); ok {
				if c := p.CallOf(call); p.callsRoleMethod(c, "Limit", "OnSample") && len(c.Args) == 4 {
					sites = append(sites, site{f, call, comp, wf})
				}
			}
		})
	}
	l.Count("windowing_call_sites", len(sites))
	for _, s := range sites {
		f := s.f
		key := p.Key(f)
		c := p.CallOf(s.call)
		wantRTT := "CandidateRTTNanoseconds"
		if p.InPkg(f, "limit") {
			wantRTT = "AverageRTTNanoseconds"
		}
		var bad []string
		r1, ok1 := p.windowCall(c.Args[1], r.W, wantRTT)
		r2, ok2 := p.windowCall(c.Args[2], r.W, "MaxInFlight")
		r3, ok3 := p.windowCall(c.Args[3], r.W, "DidDrop")
		if !ok1 {
			bad = append(bad, fmt.Sprintf("RTT argument is not the window's %s(): %s", wantRTT, valueString(strip(c.Args[1], false))))
		}
		if !ok2 {
			bad = append(bad, "in-flight argument is not the window's MaxInFlight(): "+valueString(strip(c.Args[2], false)))
		}
		if !ok3 {
			bad = append(bad, "drop argument is not the window's DidDrop(): "+valueString(strip(c.Args[3], false)))
		}
		var W ssa.Value
		if ok1 && ok2 && ok3 {
			if r1 != r2 || r2 != r3 {
				bad = append(bad, "the three arguments are read from different window values")
			} else {
				W = r1
			}
		}
		var snapLoad ssa.Instruction // load of the window field that produced W (case A)
		if W != nil {
			switch x := W.(type) {
			case *ssa.Alloc:
				// by-value parameter spilled at entry
				sv := singleStore(x)
				prm, isP := sv.(*ssa.Parameter)
				if !isP {
					bad = append(bad, "the snapshot is a local that is written more than once")
				} else if why := c09ParamIsWindow(p, r, f, prm, s.wf); why != "" {
					bad = append(bad, why)
				}
			default:
				fr, _, ok := fieldPointerLoad(W)
				if !ok || !sameField(fr, s.wf) {
					bad = append(bad, "the snapshot is not read from the component's window field: "+valueString(W))
				} else {
					snapLoad = W.(ssa.Instruction)
				}
			}
		}
		l.Check(len(bad) == 0, "O1", key, p.At(s.call), fmt.Sprintf("OnSample(_, W.%s(), W.MaxInFlight(), W.DidDrop()) with W the window being closed", wantRTT),
			"the algorithm is not given the closed window's own aggregate", bad...)

		// ---- O2 + O3 on paths
		// next-update field: the field compared with '>' against a value, whose store is in this function
		var nextF FieldRef
		for _, a := range p.Accesses(f) {
			if a.Write && types.Identical(a.Field.Type, s.comp) && !sameField(a.Field, s.wf) {
				if b, ok := structOf(s.comp).Field(a.Field.Index).Type().Underlying().(*types.Basic); ok && b.Kind() == types.Int64 {
					nextF = a.Field
				}
			}
		}
		var bad2, bad3 []string
		npaths, nclose := 0, 0
		_, trunc := EnumPaths(f, 200000, func(pa *Path) bool {
			if !pa.IsReturn() {
				return true
			}
			npaths++
			order := map[ssa.Instruction]int{}
			k := 0
			var resets, nextStores, accum []ssa.Instruction
			var nextVal ssa.Value
			nextStep := 0
			called := false
			callStep := 0
			pa.Each(func(step int, ins ssa.Instruction) bool {
				k++
				order[ins] = k
				if ins == ssa.Instruction(s.call) {
					called = true
					callStep = step
				}
				if st, ok := ins.(*ssa.Store); ok {
					if fa, ok := st.Addr.(*ssa.FieldAddr); ok {
						fr, _, _ := fieldOf(fa)
						if sameField(fr, s.wf) {
							if ok, _ := c09EmptyWindow(p, r, st.Val, 1); ok {
								resets = append(resets, ins)
							} else {
								accum = append(accum, ins)
							}
						}
						if nextF.Valid() && sameField(fr, nextF) {
							nextStores = append(nextStores, ins)
							nextVal, nextStep = st.Val, step
						}
					}
				}
				return true
			})
			if !called {
				if len(resets) > 0 {
					bad2 = append(bad2, fmt.Sprintf("%s: the window is reset on a path that does not update the algorithm: %s", p.At(resets[0]), joinWitness(p.DescribePath(pa))))
				}
				if len(nextStores) > 0 {
					bad2 = append(bad2, fmt.Sprintf("%s: nextUpdateTime is advanced on a path that does not update the algorithm", p.At(nextStores[0])))
				}
				return len(bad2) < 4
			}
			nclose++
			if len(resets) != 1 {
				why := "not reset to an empty window"
				if len(accum) > 0 {
					if _, w := c09EmptyWindow(p, r, accum[len(accum)-1].(*ssa.Store).Val, 1); w != "" {
						why += " (" + w + ")"
					}
				}
				bad2 = append(bad2, fmt.Sprintf("the window is %s on a path that updates the algorithm (%d resets): %s", why, len(resets), joinWitness(p.DescribePath(pa))))
			} else {
				for _, a := range accum {
					if order[a] > order[resets[0]] {
						bad2 = append(bad2, fmt.Sprintf("%s: the window field is overwritten again after the reset", p.At(a)))
					}
				}
				if snapLoad != nil && order[snapLoad] > order[resets[0]] {
					bad2 = append(bad2, fmt.Sprintf("%s: the snapshot is read after the window was reset", p.At(snapLoad)))
				}
				// a component that reads the window it closes from its own field hands it over in one critical section:
				// between reading the snapshot and installing the empty window the component's lock is not released,
				// or a completion recorded in between is folded into a window nobody will see
				if snapLoad != nil && order[snapLoad] < order[resets[0]] {
					pa.Each(func(step int, ins ssa.Instruction) bool {
						if order[ins] <= order[snapLoad] || order[ins] >= order[resets[0]] {
							return true
						}
						if call, ok := ins.(*ssa.Call); ok {
							if op, k := p.lockOpOf(p.CallOf(call)); op == opUnlock || op == opRUnlock {
								for _, m := range mutexFields(s.comp) {
									if strings.HasSuffix(k, "."+m) {
										bad2 = append(bad2, fmt.Sprintf("%s: the component's lock is released between reading the window that is closed and installing the empty one: a completion recorded in between is lost", p.At(ins)))
									}
								}
							}
						}
						return true
					})
				}
			}
			if !nextF.Valid() || len(nextStores) != 1 {
				bad2 = append(bad2, fmt.Sprintf("nextUpdateTime is stored %d times on a path that updates the algorithm (want once)", len(nextStores)))
			} else if why := c09NextUpdate(p, pa, s.comp, nextVal, nextStep); why != "" {
				bad2 = append(bad2, fmt.Sprintf("%s: %s", p.At(nextStores[0]), why))
			}
			// O3: close condition facts at the call
			okTime, okReady := false, false
			for _, rel := range pa.Rels(callStep) {
				for _, rr := range []Rel{rel, {X: rel.Y, Y: rel.X, Op: flipOp(rel.Op)}} {
					if rr.Op != token.GTR {
						continue
					}
					fr, base, ok := loadedField(strip(rr.Y, false))
					if !ok || !nextF.Valid() || !sameField(fr, nextF) {
						continue
					}
					// the compared nextUpdateTime must be read under the component's exclusive lock
					ld := strip(rr.Y, false).(ssa.Instruction)
					held := locks.Held(ld)
					bap := AccessPath(base).String()
					for _, m := range mutexFields(s.comp) {
						if ex, ok := held[bap+"."+m]; ok && ex {
							okTime = true
						}
					}
				}
			}
			// readiness: 'count > window size' established on the path itself, or by a bool helper that returned true
			// (the helper is checked below, once)
			if c09HasGtrFact(p, r, pa, callStep) {
				okReady = true
			}
			for _, fct := range pa.Facts {
				if fct.Step >= callStep || !fct.True {
					continue
				}
				if call, ok := fct.Cond.(*ssa.Call); ok {
					cc := p.CallOf(call)
					if cc.Static != nil && p.InModule(cc.Static) && cc.Static.Blocks != nil && cc.Static.Signature.Results().Len() == 1 {
						if b, ok := cc.Static.Signature.Results().At(0).Type().Underlying().(*types.Basic); ok && b.Kind() == types.Bool {
							okReady = true
							readyHelpers[cc.Static] = true
						}
					}
				}
			}
			if !okTime {
				bad3 = append(bad3, "the delegate is updated on a path that has not established endTime > nextUpdateTime under the lock: "+joinWitness(p.DescribePath(pa)))
			}
			if !okReady {
				bad3 = append(bad3, "the delegate is updated on a path that has not passed the readiness predicate: "+joinWitness(p.DescribePath(pa)))
			}
			return len(bad2) < 4 && len(bad3) < 4
		})
		l.Count("paths", npaths)
		if trunc {
			l.Unknown("O2", key, p.FuncPos(f), "path enumeration truncated")
			continue
		}
		if nclose == 0 {
			bad2 = append(bad2, "no path reaches the delegate call")
		}
		l.Check(len(bad2) == 0, "O2", key, p.At(s.call), fmt.Sprintf("%d paths, %d close the window: each resets it to the empty window once and advances %s once by a value within [min,max] window time; the others do neither", npaths, nclose, nextF.Name),
			"window close and reset are not paired", bad2...)
		l.Check(len(bad3) == 0, "O3", key, p.At(s.call), "every closing path established endTime > nextUpdateTime under the lock and the readiness predicate", "the window can be closed early or when not ready", bad3...)
	}

	// readiness predicates: the bool helpers that guard a close (wherever they are declared), and the unexported bool
	// methods of the components
	for _, nt := range append(p.structTypes("limiter"), p.structTypes("limit")...) {
		if len(fieldsOfType(nt, wptr)) != 1 {
			continue
		}
		for _, m := range p.MethodsOf(nt) {
			res := m.Signature.Results()
			if res.Len() != 1 || token_IsExported(m.Name()) {
				continue
			}
			if b, ok := res.At(0).Type().Underlying().(*types.Basic); !ok || b.Kind() != types.Bool {
				continue
			}
			readyHelpers[m] = true
		}
	}
	var helpers []*ssa.Function
	for m := range readyHelpers {
		helpers = append(helpers, m)
	}
	sort.Slice(helpers, func(i, j int) bool { return p.Key(helpers[i]) < p.Key(helpers[j]) })
	for _, m := range helpers {
		bad, ntrue := c09ReadinessProblems(p, r, m)
		if ntrue > 0 {
			l.Check(len(bad) == 0, "O3", p.Key(m)+"/readiness", p.FuncPos(m), "readiness is true only when a quantity strictly exceeds the configured window size", "the readiness comparator is not a strict '>' against the window size", bad...)
		}
	}

	c09Fold(p, l, r)
	c09Outcomes(p, l, r, wptr)
}

// c09IsCountVsSize: "x > y" where y is a load of a configuration field that is never written after construction and is
// a size, not a time (its type is not the 64-bit type of the time fields): the configured window size. Identified by
// role, not by name: the field may be renamed or grouped into a sub-struct. What is compared with it (the window's
// sample count for the default limiter, the sample's in-flight for the windowed limit) is the code's readiness rule.
func c09IsCountVsSize(p *Prog, r *c09Roles, x, y ssa.Value, op token.Token) bool {
	if op != token.GTR {
		return false
	}
	y = strip(y, true)
	fr, _, ok := loadedField(y)
	if !ok || !isIntegral(y.Type()) || !p.FieldImmutable(fr) {
		return false
	}
	if b, ok := y.Type().Underlying().(*types.Basic); ok && (b.Kind() == types.Int64 || b.Kind() == types.Uint64) {
		return false
	}
	return true
}

// c09GtrWindowSize: comparison "count > window size" (or flipped).
func c09GtrWindowSize(p *Prog, r *c09Roles, bo *ssa.BinOp) bool {
	return c09IsCountVsSize(p, r, bo.X, bo.Y, bo.Op) || c09IsCountVsSize(p, r, bo.Y, bo.X, flipOp(bo.Op))
}

// c09HasGtrFact: the path established "count > window size" before step (step < 0: anywhere).
func c09HasGtrFact(p *Prog, r *c09Roles, pa *Path, before int) bool {
	for _, rel := range pa.Rels(before) {
		if c09IsCountVsSize(p, r, rel.X, rel.Y, rel.Op) || c09IsCountVsSize(p, r, rel.Y, rel.X, flipOp(rel.Op)) {
			return true
		}
	}
	return false
}

// c09ReadinessProblems: every path on which the bool function m returns true (or returns a comparison that may be true)
// has established "count > window size". Returns the problems and the number of such paths.
func c09ReadinessProblems(p *Prog, r *c09Roles, m *ssa.Function) ([]string, int) {
	var bad []string
	ntrue := 0
	EnumPaths(m, 10000, func(pa *Path) bool {
		rv := pa.ReturnValues()
		if len(rv) != 1 {
			return true
		}
		v := strip(rv[0], false)
		if b, ok := constBool(v); ok {
			if b {
				ntrue++
				if !c09HasGtrFact(p, r, pa, -1) {
					bad = append(bad, "readiness returns true on a path that has not established 'count > window size': "+joinWitness(p.DescribePath(pa)))
				}
			}
			return true
		}
		ntrue++
		if bo, ok := v.(*ssa.BinOp); ok {
			// the returned comparison is the last conjunct
			if !c09GtrWindowSize(p, r, bo) && !c09HasGtrFact(p, r, pa, -1) {
				bad = append(bad, fmt.Sprintf("%s: readiness can be true without 'count > window size'", p.At(bo)))
			}
			return true
		}
		if !c09HasGtrFact(p, r, pa, -1) {
			bad = append(bad, "readiness may return true on a path that has not established 'count > window size': "+joinWitness(p.DescribePath(pa)))
		}
		return true
	})
	return bad, ntrue
}

// c09ParamIsWindow: every call site of f passes, for prm, the window that f's caller just installed in the window
// field (result of a helper that stores its result into the field) or a load of that field.
func c09ParamIsWindow(p *Prog, r *c09Roles, f *ssa.Function, prm *ssa.Parameter, wf FieldRef) string {
	idx := -1
	for i, q := range f.Params {
		if q == prm {
			idx = i
		}
	}
	nsites := 0
	for _, g := range p.Funcs {
		var why string
		allInstrs(g, func(ins ssa.Instruction) {
			call, ok := ins.(*ssa.Call)
			if !ok {
				return
			}
			c := p.CallOf(call)
			if c.Static != f {
				return
			}
			nsites++
			arg := strip(call.Call.Args[idx], false)
			if ex, ok := arg.(*ssa.Extract); ok {
				if hc, ok := ex.Tuple.(*ssa.Call); ok {
					h := p.CallOf(hc).Static
					if h != nil && c09HelperReturnsInstalled(p, h, ex.Index, wf) {
						return
					}
				}
			}
			if hc, ok := arg.(*ssa.Call); ok {
				// a helper with a single result: the window it has just installed
				if h := p.CallOf(hc).Static; h != nil && h.Signature.Results().Len() == 1 && c09HelperReturnsInstalled(p, h, 0, wf) {
					return
				}
			}
			if u, ok := arg.(*ssa.UnOp); ok {
				if fr, _, ok := fieldPointerLoad(u.X); ok && sameField(fr, wf) {
					return
				}
			}
			why = fmt.Sprintf("%s: %s is called with a window that is not the one installed in %s: %s", p.At(ins), p.Key(f), wf.Name, valueString(arg))
		})
		if why != "" {
			return why
		}
	}
	if nsites == 0 {
		return "no call site of " + p.Key(f) + " found"
	}
	return ""
}

// c09HelperReturnsInstalled: result #i of h is the window h has just stored into the window field.
func c09HelperReturnsInstalled(p *Prog, h *ssa.Function, i int, wf FieldRef) bool {
	ok := false
	EnumPaths(h, 1000, func(pa *Path) bool {
		ret, isR := pa.Term().(*ssa.Return)
		if !isR || i >= len(ret.Results) {
			ok = false
			return false
		}
		installed := func(al *ssa.Alloc) bool {
			stored := false
			pa.Each(func(step int, ins ssa.Instruction) bool {
				if st, isS := ins.(*ssa.Store); isS && st.Val == ssa.Value(al) {
					if fa, isF := st.Addr.(*ssa.FieldAddr); isF {
						if fr, _, _ := fieldOf(fa); sameField(fr, wf) {
							stored = true
						}
					}
				}
				return true
			})
			return stored
		}
		v := ret.Results[i]
		found := false
		for k := 0; k < 6 && !found; k++ {
			v = strip(pa.Resolve(v, len(pa.Blocks)-1), false)
			u, isU := v.(*ssa.UnOp)
			if !isU {
				break
			}
			al, isA := u.X.(*ssa.Alloc)
			if !isA {
				break
			}
			if installed(al) {
				found = true
				break
			}
			// forward the last store into the local cell
			var last ssa.Value
			pa.Each(func(step int, ins ssa.Instruction) bool {
				if st, isS := ins.(*ssa.Store); isS && st.Addr == ssa.Value(al) {
					last = st.Val
				}
				return true
			})
			if last == nil {
				break
			}
			v = last
		}
		ok = found
		return found
	})
	return ok
}

// c09NextUpdate: the stored value is end + d where d is within [minWindowTime, maxWindowTime] on this path.
// Recognised shapes for d: min/max helper calls, builtin min/max, and open-coded if-clamps (resolved along the path).
func c09NextUpdate(p *Prog, pa *Path, comp *types.Named, v ssa.Value, step int) string {
	v = pa.Resolve(v, step)
	bo, ok := v.(*ssa.BinOp)
	if !ok || bo.Op != token.ADD {
		return "nextUpdateTime is not endTime + window duration: " + valueString(v)
	}
	// one operand is the end time (a value compared against nextUpdateTime), the other the duration
	var d ssa.Value
	isEnd := func(x ssa.Value) bool {
		x = pa.Resolve(x, step)
		for _, rel := range pa.Rels(step + 1) {
			for _, rr := range []Rel{rel, {X: rel.Y, Y: rel.X, Op: flipOp(rel.Op)}} {
				if rr.Op == token.GTR && strip(rr.X, false) == x {
					return true
				}
			}
		}
		return false
	}
	if isEnd(bo.X) {
		d = bo.Y
	} else if isEnd(bo.Y) {
		d = bo.X
	} else {
		return "nextUpdateTime is not advanced from the end time that closed the window"
	}
	// the period is derived from the window that was closed (its candidate RTT), not from the completion that happened to
	// close it: a raw integer parameter of the closing call has no business in the duration
	{
		seen := map[ssa.Value]bool{}
		var raw *ssa.Parameter
		var walk func(v ssa.Value, depth int)
		walk = func(v ssa.Value, depth int) {
			if v == nil || seen[v] || depth > 10 || raw != nil {
				return
			}
			seen[v] = true
			v = pa.Resolve(v, step)
			if prm, ok := v.(*ssa.Parameter); ok {
				if isIntegral(prm.Type()) && len(prm.Parent().Params) > 0 && prm != prm.Parent().Params[0] {
					raw = prm
				}
				return
			}
			if _, _, isF := loadedField(v); isF {
				return
			}
			if ins, ok := v.(ssa.Instruction); ok {
				for _, op := range ins.Operands(nil) {
					if op != nil && *op != nil {
						walk(*op, depth+1)
					}
				}
			}
		}
		walk(d, 0)
		if raw != nil {
			return "the next window period is computed from the parameter " + raw.Name() + " of the completion that closed the window, not from the closed window's own RTT"
		}
	}
	pr := &prover{p: p, pa: pa, step: step}
	minF, maxF := c09WindowBounds(comp)
	if !minF.Valid() || !maxF.Valid() {
		return "cannot find the component's min/max window-time fields"
	}
	pr.axiomLE(atomField(minF), atomField(maxF)) // constructor-validated: minWindowTime <= maxWindowTime
	if !pr.GE(d, atomField(minF)) {
		return "the window duration is not proved >= " + minF.Name + ": " + pr.why
	}
	if !pr.LE(d, atomField(maxF)) {
		return "the window duration is not proved <= " + maxF.Name + ": " + pr.why
	}
	return ""
}

func c09WindowBounds(comp *types.Named) (FieldRef, FieldRef) {
	var minF, maxF FieldRef
	var scan func(nt *types.Named, depth int)
	scan = func(nt *types.Named, depth int) {
		st, ok := nt.Underlying().(*types.Struct)
		if !ok {
			return
		}
		for i := 0; i < st.NumFields(); i++ {
			n := strings.ToLower(st.Field(i).Name())
			if strings.Contains(n, "window") && strings.Contains(n, "time") {
				if strings.HasPrefix(n, "min") && !minF.Valid() {
					minF = FieldRef{nt, i, st.Field(i).Name()}
				}
				if strings.HasPrefix(n, "max") && !maxF.Valid() {
					maxF = FieldRef{nt, i, st.Field(i).Name()}
				}
			}
			// settings grouped into a sub-struct of the component
			if sub, ok := st.Field(i).Type().(*types.Named); ok && depth < 2 && sub.Obj().Pkg() == nt.Obj().Pkg() {
				if _, isStruct := sub.Underlying().(*types.Struct); isStruct {
					scan(sub, depth+1)
				}
			}
		}
	}
	scan(comp, 0)
	return minF, maxF
}

// ---------------------------------------------------------------- O4 fold

func c09Fold(p *Prog, l *Ledger, r *c09Roles) {
	// purity of every method of the window type
	for _, m := range p.MethodsOf(r.W) {
		var w []string
		for _, a := range p.Accesses(m) {
			if a.Write && types.Identical(a.Field.Type, r.W) && !freshBase(a) {
				w = append(w, fmt.Sprintf("%s: stores into field %s of an existing window", p.At(a.Instr), a.Field.Name))
			}
		}
		if strings.HasPrefix(m.Name(), "Add") || len(w) > 0 {
			l.Check(len(w) == 0, "O4", p.Key(m)+"/pure", p.FuncPos(m), "never stores through the receiver", "a sample window is mutated in place", w...)
		}
	}
	for _, name := range []string{"AddSample", "AddDroppedSample"} {
		m := p.Method(r.W, name)
		if m == nil {
			l.Infra("window method %s not found", name)
			continue
		}
		dropped := name == "AddDroppedSample"
		key := p.Key(m) + "/fold"
		recv := m.Params[0]
		// parameters by role: rtt = the int64 parameter that is not the start time (second int64), in-flight = int
		var rttP, ifP *ssa.Parameter
		n64 := 0
		for _, q := range m.Params[1:] {
			if b, ok := q.Type().Underlying().(*types.Basic); ok {
				if b.Kind() == types.Int64 {
					n64++
					if n64 == 2 {
						rttP = q
					}
				}
				if b.Kind() == types.Int {
					ifP = q
				}
			}
		}
		if ifP == nil || (!dropped && rttP == nil) {
			l.Unknown("O4", key, p.FuncPos(m), "cannot identify the rtt / in-flight parameters")
			continue
		}
		isOld := func(v ssa.Value, fr FieldRef) bool {
			f2, base, ok := loadedField(strip(v, false))
			return ok && sameField(f2, fr) && strip(base, false) == ssa.Value(recv)
		}
		npaths := 0
		var bad []string
		EnumPaths(m, 100000, func(pa *Path) bool {
			rv := pa.ReturnValues()
			if len(rv) != 1 {
				return true
			}
			npaths++
			call, ok := strip(rv[0], false).(*ssa.Call)
			if !ok || p.CallOf(call).Static != r.Ctor {
				bad = append(bad, "does not return a newly constructed window: "+valueString(rv[0]))
				return false
			}
			last := len(pa.Blocks) - 1
			arg := func(fr FieldRef) ssa.Value { return pa.Resolve(call.Call.Args[r.CtorPos[fr.Index]], last) }
			// selections under comparisons
			selOK := func(v ssa.Value, fr FieldRef, prm *ssa.Parameter, keepOldWhen token.Token) string {
				// v == old requires fact NOT(prm < old) for min [keepOldWhen=GEQ], or (prm < old) for max [LSS]
				rel := func(op token.Token) bool {
					return pa.HoldsRel(-1, func(rr Rel) bool { return rr.Op == op && strip(rr.X, false) == ssa.Value(prm) && isOld(rr.Y, fr) })
				}
				// min(old, sample) / max(old, sample) through the builtin, math.Min/Max or a module helper classified as such
				if name, args := (&prover{p: p, pa: pa, step: last}).mathCall(strip(v, false)); (name == "min" || name == "max") && len(args) == 2 {
					a0, a1 := pa.Resolve(args[0], last), pa.Resolve(args[1], last)
					operands := (isOld(a0, fr) && strip(a1, false) == ssa.Value(prm)) || (isOld(a1, fr) && strip(a0, false) == ssa.Value(prm))
					want := "min"
					if keepOldWhen == token.LSS {
						want = "max"
					}
					if operands && name == want {
						return ""
					}
					return fr.Name + " is " + name + "(" + valueString(a0) + ", " + valueString(a1) + "), want " + want + " of the old value and the sample"
				}
				if isOld(v, fr) {
					if keepOldWhen == token.GEQ && (rel(token.GEQ) || rel(token.GTR)) {
						return ""
					}
					if keepOldWhen == token.LSS && (rel(token.LSS) || rel(token.LEQ)) {
						return ""
					}
					return "keeps the old " + fr.Name + " on a path that has not compared it with the new sample in the right direction"
				}
				if strip(v, false) == ssa.Value(prm) {
					if keepOldWhen == token.GEQ && (rel(token.LSS) || rel(token.LEQ)) {
						return ""
					}
					if keepOldWhen == token.LSS && (rel(token.GEQ) || rel(token.GTR)) {
						return ""
					}
					return "takes the new sample for " + fr.Name + " on a path that has not compared it with the old value in the right direction"
				}
				return fr.Name + " is neither the old value nor the sample: " + valueString(v)
			}
			if why := selOK(arg(r.MaxIF), r.MaxIF, ifP, token.LSS); why != "" {
				bad = append(bad, why)
			}
			if dropped {
				if !isOld(arg(r.Min), r.Min) || !isOld(arg(r.Sum), r.Sum) || !isOld(arg(r.Count), r.Count) {
					bad = append(bad, "a dropped sample changes the minimum, the sum or the count")
				}
				if b, ok := constBool(arg(r.Drop)); !ok || !b {
					bad = append(bad, "a dropped sample does not set the drop flag")
				}
			} else {
				if why := selOK(arg(r.Min), r.Min, rttP, token.GEQ); why != "" {
					bad = append(bad, why)
				}
				sum, ok := arg(r.Sum).(*ssa.BinOp)
				if !ok || sum.Op != token.ADD || !((isOld(sum.X, r.Sum) && strip(sum.Y, false) == ssa.Value(rttP)) || (isOld(sum.Y, r.Sum) && strip(sum.X, false) == ssa.Value(rttP))) {
					bad = append(bad, "sum is not old sum + rtt")
				}
				cnt, ok := arg(r.Count).(*ssa.BinOp)
				one := func(v ssa.Value) bool { k, ok := constInt(v); return ok && k == 1 }
				if !ok || cnt.Op != token.ADD || !((isOld(cnt.X, r.Count) && one(cnt.Y)) || (isOld(cnt.Y, r.Count) && one(cnt.X))) {
					bad = append(bad, "count is not old count + 1")
				}
				if !isOld(arg(r.Drop), r.Drop) {
					bad = append(bad, "the drop flag is not carried over (sticky) by a successful sample")
				}
			}
			return len(bad) < 4
		})
		l.Check(len(bad) == 0 && npaths > 0, "O4", key, p.FuncPos(m), fmt.Sprintf("%d paths; new window = fold(old, sample) with min/max selections, +rtt, +1, sticky drop", npaths), "the window does not summarise exactly the samples added", bad...)
	}
}

// ---------------------------------------------------------------- O5 outcomes

func c09Outcomes(p *Prog, l *Ledger, r *c09Roles, wptr types.Type) {
	// window writes: stores to any *ImmutableSampleWindow field of limiter / limit components
	isWindowWrite := func(f *ssa.Function) []ssa.Instruction {
		var out []ssa.Instruction
		for _, a := range p.Accesses(f) {
			if a.Write && !a.Pointee && !freshBase(a) {
				if st := structOf(a.Field.Type); st != nil && types.Identical(st.Field(a.Field.Index).Type(), wptr) {
					out = append(out, a.Instr)
				}
			}
		}
		return out
	}
	listener := p.coreIface("Listener")
	for _, nt := range p.Implementers(listener) {
		for _, name := range []string{"OnIgnore"} {
			m := p.Method(nt, name)
			if m == nil {
				continue
			}
			key := p.Key(m) + "/no-trace"
			reach := p.Reachable(m)
			var bad []string
			for g := range reach {
				for _, ins := range isWindowWrite(g) {
					bad = append(bad, fmt.Sprintf("%s: %s (reachable from %s) writes a sample window", p.At(ins), p.Key(g), p.Key(m)))
				}
				allInstrs(g, func(ins ssa.Instruction) {
					if call, ok := ins.(*ssa.Call); ok {
						if c := p.CallOf(call); p.callsRoleMethod(c, "Limit", "OnSample") {
							bad = append(bad, fmt.Sprintf("%s: %s (reachable from %s) calls the algorithm's OnSample", p.At(ins), p.Key(g), p.Key(m)))
						}
					}
				})
			}
			if len(bad) > 4 {
				bad = bad[:4]
			}
			l.Count("reachable_from_OnIgnore", len(reach))
			l.Check(len(bad) == 0, "O5", key, p.FuncPos(m), fmt.Sprintf("%d functions reachable; none writes a window or calls Limit.OnSample", len(reach)), "an ignored completion leaves a trace in a sampling window", bad...)
		}
	}
	thresholds := map[string]FieldRef{}
	defer func() {
		// the threshold that filters is the threshold that was configured: constructors store their parameter as given
		// (0 is a meaningful value: no filtering); only a negative one may be replaced
		var ks []string
		for k := range thresholds {
			ks = append(ks, k)
		}
		sort.Strings(ks)
		for _, k := range ks {
			bad := storedAsGiven(p, thresholds[k])
			l.Check(len(bad) == 0, "O5", k+"/configured", "", "every constructor stores the threshold it was given (only a negative one is replaced)", "completions slower than the configured threshold can be discarded (or faster ones recorded)", bad...)
		}
	}()
	// threshold filter and outcome->fold mapping in components that own a window (or reach one through a helper)
	for _, f := range p.Funcs {
		if f.Signature.Recv() == nil || !(p.InPkg(f, "limiter") || p.InPkg(f, "limit")) {
			continue
		}
		if !(f.Name() == "OnSuccess" || f.Name() == "OnDropped" || f.Name() == "OnSample") {
			continue
		}
		// recording events: direct window-field stores, or calls of helpers that store the window field
		type rec struct {
			ins  ssa.Instruction
			adds []string  // names of window Add* methods feeding the recorded value
			val  ssa.Value // the stored window value (direct stores): resolved along each path
		}
		var recs []rec
		for _, ins := range isWindowWrite(f) {
			st := ins.(*ssa.Store)
			if ok, _ := c09EmptyWindow(p, r, st.Val, 1); ok {
				continue
			}
			recs = append(recs, rec{ins, c09AddCalls(p, r, st.Val, f), st.Val})
		}
		allInstrs(f, func(ins ssa.Instruction) {
			call, ok := ins.(*ssa.Call)
			if !ok {
				return
			}
			c := p.CallOf(call)
			if c.Static == nil || !p.InModule(c.Static) || len(isWindowWrite(c.Static)) == 0 || c.Static == f {
				return
			}
			// helper(f func(window) window): the closure argument decides which Add is used
			var adds []string
			for _, a := range c.Args {
				if cl := p.funcOfValue(a); cl != nil {
					allInstrs(cl, func(i2 ssa.Instruction) {
						if c2 := p.CallOf(i2); c2 != nil && c2.Static != nil && c2.Recv != nil {
							if d := derefNamed(c2.Recv.Type()); d != nil && types.Identical(d, r.W) && strings.HasPrefix(c2.Static.Name(), "Add") {
								adds = append(adds, c2.Static.Name())
							}
						}
					})
				}
			}
			if len(adds) > 0 {
				recs = append(recs, rec{ins, adds, nil})
			}
		})
		if len(recs) == 0 {
			continue
		}
		key := p.Key(f) + "/outcome"
		var bad []string
		// threshold field of the receiver's struct
		recvT := derefNamed(f.Signature.Recv().Type())
		npaths := 0
		EnumPaths(f, 100000, func(pa *Path) bool {
			if !pa.IsReturn() {
				return true
			}
			npaths++
			for _, rc := range recs {
				st := pa.StepOf(rc.ins)
				if st < 0 {
					continue
				}
				needThreshold := f.Name() == "OnSuccess" || f.Name() == "OnSample"
				if needThreshold {
					ok := pa.HoldsRel(st+1, func(rr Rel) bool {
						if !(rr.Op == token.GEQ || rr.Op == token.GTR) {
							return false
						}
						// the threshold: a configuration field (never written after construction), whatever it is called
						fr, _, isF := loadedField(strip(rr.Y, false))
						_ = recvT
						if isF && p.FieldImmutable(fr) && isIntegral(rr.Y.Type()) {
							thresholds[p.FieldKey(fr)] = fr
							return true
						}
						return false
					})
					if !ok {
						bad = append(bad, fmt.Sprintf("%s: a sample is recorded on a path that has not established rtt >= minRTTThreshold", p.At(rc.ins)))
					}
				}
				adds := rc.adds
				if rc.val != nil {
					// the value stored on this path (a merge of the two folds is resolved to the one this path took)
					adds = c09AddCalls(p, r, pa.Resolve(rc.val, st), f)
				}
				for _, a := range adds {
					switch f.Name() {
					case "OnSuccess":
						if a != "AddSample" {
							bad = append(bad, fmt.Sprintf("%s: a successful completion is recorded with %s", p.At(rc.ins), a))
						}
					case "OnDropped":
						if a != "AddDroppedSample" {
							bad = append(bad, fmt.Sprintf("%s: a dropped completion is recorded with %s", p.At(rc.ins), a))
						}
					case "OnSample":
						// didDrop parameter decides
						if len(f.Params) == 5 {
							dropTrue, known := pa.FactOn(f.Params[4], st+1)
							if !known {
								bad = append(bad, fmt.Sprintf("%s: recorded without testing the drop flag", p.At(rc.ins)))
							} else if dropTrue != (a == "AddDroppedSample") {
								bad = append(bad, fmt.Sprintf("%s: didDrop=%v is recorded with %s", p.At(rc.ins), dropTrue, a))
							}
						}
					}
				}
			}
			return len(bad) < 4
		})
		l.Check(len(bad) == 0, "O5", key, p.FuncPos(f), fmt.Sprintf("%d paths, %d recording sites: threshold filter precedes recording; outcome selects the matching Add", npaths, len(recs)), "an outcome is recorded in the window it should not touch, or with the wrong fold", bad...)
	}
}

// c09AddCalls: names of the window Add* methods whose result v is (through phis).
func c09AddCalls(p *Prog, r *c09Roles, v ssa.Value, f *ssa.Function) []string {
	var out []string
	seen := map[ssa.Value]bool{}
	var walk func(v ssa.Value)
	walk = func(v ssa.Value) {
		v = strip(v, false)
		if seen[v] {
			return
		}
		seen[v] = true
		switch x := v.(type) {
		case *ssa.Phi:
			for _, e := range x.Edges {
				walk(e)
			}
		case *ssa.Call:
			c := p.CallOf(x)
			if c.Static != nil && c.Recv != nil && strings.HasPrefix(c.Static.Name(), "Add") {
				out = append(out, c.Static.Name())
			}
		}
	}
	walk(v)
	return out
}

// c09CtorMapsZeroMin: the window constructor stores MaxInt64 into the minimum field on every path on which its minimum
// argument is 0.
func c09CtorMapsZeroMin(p *Prog, r *c09Roles) bool {
	ctor := r.Ctor
	if ctor == nil || ctor.Blocks == nil {
		return false
	}
	pos := r.CtorPos[r.Min.Index]
	if pos >= len(ctor.Params) {
		return false
	}
	prm := ctor.Params[pos]
	ok, n := true, 0
	EnumPaths(ctor, 10000, func(pa *Path) bool {
		if !pa.IsReturn() {
			return true
		}
		zero, known := false, false
		for _, rel := range pa.Rels(-1) {
			for _, rr := range []Rel{rel, {X: rel.Y, Y: rel.X, Op: flipOp(rel.Op)}} {
				if strip(rr.X, true) == ssa.Value(prm) {
					if k, isC := constInt(strip(rr.Y, true)); isC && k == 0 {
						switch rr.Op {
						case token.EQL:
							zero, known = true, true
						case token.NEQ:
							zero, known = false, true
						}
					}
				}
			}
		}
		if !known || !zero {
			// the path did not single out 0: then 0 is stored as given
			if !known {
				ok = false
			}
			return true
		}
		n++
		stored := false
		pa.Each(func(step int, ins ssa.Instruction) bool {
			if st, isS := ins.(*ssa.Store); isS {
				if fa, isF := st.Addr.(*ssa.FieldAddr); isF && fa.Field == r.Min.Index {
					if k, isC := constInt(strip(pa.Resolve(st.Val, step), true)); isC && k == math.MaxInt64 {
						stored = true
					}
				}
			}
			return true
		})
		if !stored {
			ok = false
		}
		return true
	})
	return ok && n > 0
}
