package main

import (
	"fmt"
	"go/constant"
	"go/token"
	"go/types"
	"sort"
	"strings"

	"gclverify/xt/ssa"
)

func init() {
	register("C14", &ruleSet{
		run:    runC14,
		floors: map[string]int{"O1": 4, "O2": 4, "O3": 4, "O4": 4, "O5": 4, "O6": 10, "O7": 1},
		explain: "Decides, on every SSA path of the four gRPC wrappers (unary server, unary client, stream RecvMsg, stream SendMsg): (O1) the wrapped call " +
			"happens only after Acquire succeeded on a limiter taken from the config; (O2) the limiter given to Acquire and to the limit-exceeded classifier is the " +
			"same config field, sibling stream wrappers use disjoint limiter/classifier fields, and each field is the one the exported option named for that " +
			"direction (Send/Recv) installs; (O3) on refusal no wrapped call and no listener method run and the returned error is status.Error(code,...) with the " +
			"classifier's code; (O4) on success paths exactly one of OnSuccess/OnIgnore/OnDropped is invoked on the acquired token, after the wrapped call, " +
			"selected by the configured response classifier with the mapping Success->OnSuccess, Ignore->OnIgnore, Dropped->OnDropped, exhaustively over the " +
			"declared ResponseType constants (error-free stream operation => OnSuccess); (O5) the results of the wrapped call are returned unchanged; " +
			"(O6) defaults are applied before user options and every config field a wrapper reads has an option storing its parameter into exactly that field. " +
			"Handler panics and classifiers returning values outside the enum are not covered.",
	})
}

type c14Wrapper struct {
	Fn       *ssa.Function
	Acquire  *ssa.Call
	LimField FieldRef
	LimInner FieldRef // the innermost field when LimField is a nested selection (cfg.recv.limiter)
	LimAP    string
	Dir      string // "Recv" / "Send" / "" (unary)
	ExcField FieldRef
	RespFields []FieldRef
}

func runC14(p *Prog, l *Ledger) {
	l.Rule("O1", "gate first: the wrapped call is reached only on the ok edge of Acquire on a limiter read from the interceptor config")
	l.Rule("O2", "direction agreement: Acquire and the limit-exceeded classifier use the same limiter field; sibling stream wrappers use disjoint fields, each the one installed by the option named for its direction")
	l.Rule("O3", "refusal short-circuits: no wrapped call, no listener method, returned error is status.Error(code from the configured limit-exceeded classifier)")
	l.Rule("O4", "exactly-once completion on the ok edge, after the wrapped call, mapped Success->OnSuccess / Ignore->OnIgnore / Dropped->OnDropped exhaustively; error-free stream operation => OnSuccess")
	l.Rule("O5", "the wrapped call's results are returned unchanged")
	l.Rule("O6", "defaults precede options; every limiter/classifier field read by a wrapper has an option that stores its parameter into exactly that field")
	l.NotCovered = []string{"panics in the handler (token not completed)", "a user classifier returning a value outside the declared ResponseType constants"}
	l.Assume("response classifiers return one of the declared ResponseType constants (paths that exclude all of them are treated as infeasible)")

	// response-type constants
	rt := p.Named("grpc", "ResponseType")
	if rt == nil {
		l.Infra("grpc.ResponseType not found")
		return
	}
	consts := map[int64]string{} // value -> listener method
	sc := p.TPkgs["grpc"].Scope()
	for _, n := range sc.Names() {
		if c, ok := sc.Lookup(n).(*types.Const); ok && types.Identical(c.Type(), rt) {
			v, _ := constant.Int64Val(c.Val())
			switch {
			case strings.HasSuffix(n, "Success"):
				consts[v] = "OnSuccess"
			case strings.HasSuffix(n, "Ignore"):
				consts[v] = "OnIgnore"
			case strings.HasSuffix(n, "Dropped"):
				consts[v] = "OnDropped"
			default:
				l.Infra("ResponseType constant %s has no listener method mapping", n)
			}
		}
	}
	if len(consts) != 3 {
		l.Infra("expected 3 ResponseType constants, found %d", len(consts))
	}

	var wrappers []*c14Wrapper
	for _, f := range p.Funcs {
		if !p.InPkg(f, "grpc") {
			continue
		}
		var acq []*ssa.Call
		allInstrs(f, func(ins ssa.Instruction) {
			if call, ok := ins.(*ssa.Call); ok {
				if c := p.CallOf(call); p.callsRoleMethod(c, "Limiter", "Acquire") {
					acq = append(acq, call)
				}
			}
		})
		if len(acq) == 0 {
			continue
		}
		key := p.Key(f)
		if len(acq) != 1 {
			l.Unknown("O1", key, p.FuncPos(f), fmt.Sprintf("%d Acquire calls in one wrapper; expected exactly one", len(acq)))
			continue
		}
		w := &c14Wrapper{Fn: f, Acquire: acq[0]}
		c := p.CallOf(acq[0])
		fr, _, ok := c14Loaded(strip(c.Recv, false))
		if !ok || fr.Type.Obj().Pkg() != p.TPkgs["grpc"] {
			l.Bad("O1", key, p.At(acq[0]), "Acquire is not called on a limiter read from an interceptor config field: "+valueString(c.Recv))
			continue
		}
		w.LimField = fr
		if inner, _, ok := loadedField(strip(c.Recv, false)); ok && !sameField(inner, fr) {
			w.LimInner = inner
		}
		w.LimAP = AccessPath(c.Recv).String()
		switch {
		case strings.HasPrefix(f.Name(), "Recv"):
			w.Dir = "Recv"
		case strings.HasPrefix(f.Name(), "Send"):
			w.Dir = "Send"
		}
		wrappers = append(wrappers, w)
	}
	l.Count("wrappers", len(wrappers))
	if len(wrappers) < 4 {
		l.Infra("found %d gRPC wrappers that call Limiter.Acquire, expected 4", len(wrappers))
	}

	// option functions: exported funcs returning a closure that stores its parameter into a config field
	type option struct {
		Fn    *ssa.Function
		Field FieldRef
	}
	var options []option
	for _, f := range p.Funcs {
		if !p.InPkg(f, "grpc") || f.Parent() == nil || !token_IsExported(f.Parent().Name()) || !strings.HasPrefix(f.Parent().Name(), "With") {
			continue
		}
		for _, a := range p.Accesses(f) {
			if !a.Write {
				continue
			}
			// stored value must be the parent's parameter (captured)
			v := strip(a.Val, false)
			isParam := false
			if u, ok := v.(*ssa.UnOp); ok && u.Op == token.MUL {
				if fv, ok := u.X.(*ssa.FreeVar); ok {
					if b := closureBinding(fv); b != nil {
						if al, ok := b.(*ssa.Alloc); ok {
							if s := singleStore(al); s != nil {
								if _, ok := s.(*ssa.Parameter); ok {
									isParam = true
								}
							}
						}
					}
				}
			}
			if fv, ok := v.(*ssa.FreeVar); ok {
				if b := closureBinding(fv); b != nil {
					if _, ok := b.(*ssa.Parameter); ok {
						isParam = true
					}
				}
			}
			if isParam {
				options = append(options, option{f.Parent(), c14Nested(a.Field, a.Base)})
			}
		}
	}
	l.Count("options", len(options))
	optionFor := func(fr FieldRef) []*ssa.Function {
		var out []*ssa.Function
		for _, o := range options {
			if sameField(o.Field, fr) {
				out = append(out, o.Fn)
			}
		}
		return out
	}

	usedLim := map[string][]string{} // field key -> wrappers
	for _, w := range wrappers {
		c14Wrapper_check(p, l, w, consts, rt)
		usedLim[p.FieldKey(w.LimField)] = append(usedLim[p.FieldKey(w.LimField)], p.Key(w.Fn))
		if w.LimInner.Valid() {
			usedLim[p.FieldKey(w.LimInner)] = append(usedLim[p.FieldKey(w.LimInner)], p.Key(w.Fn))
		}
	}

	// O2 sibling / direction rules
	for _, w := range wrappers {
		key := p.Key(w.Fn)
		var bad []string
		// siblings: other wrappers that are methods of the same receiver type
		for _, o := range wrappers {
			// siblings: the wrappers of the two directions of a stream (Recv / Send) configured by the same config type.
			// (Unary client and server interceptors legitimately share one limiter field.)
			if o == w || w.Dir == "" || o.Dir == "" || w.Dir == o.Dir {
				continue
			}
			if w.LimField.Type == nil || o.LimField.Type == nil || !types.Identical(w.LimField.Type, o.LimField.Type) {
				continue
			}
			if sameField(w.LimField, o.LimField) {
				bad = append(bad, fmt.Sprintf("shares limiter field %s with sibling %s", p.FieldKey(w.LimField), p.Key(o.Fn)))
			}
			if w.ExcField.Valid() && o.ExcField.Valid() && sameField(w.ExcField, o.ExcField) {
				bad = append(bad, fmt.Sprintf("shares limit-exceeded classifier field %s with sibling %s", p.FieldKey(w.ExcField), p.Key(o.Fn)))
			}
			for _, a := range w.RespFields {
				for _, b := range o.RespFields {
					if sameField(a, b) {
						bad = append(bad, fmt.Sprintf("shares response classifier field %s with sibling %s", p.FieldKey(a), p.Key(o.Fn)))
					}
				}
			}
		}
		if w.Dir != "" {
			other := "Send"
			if w.Dir == "Send" {
				other = "Recv"
			}
			for _, fr := range []FieldRef{w.LimField, w.ExcField} {
				if !fr.Valid() {
					continue
				}
				opts := optionFor(fr)
				if len(opts) == 0 {
					continue // O6 reports it
				}
				match := false
				for _, o := range opts {
					if strings.Contains(o.Name(), w.Dir) && !strings.Contains(o.Name(), other) {
						match = true
					}
				}
				if !match {
					var names []string
					for _, o := range opts {
						names = append(names, o.Name())
					}
					bad = append(bad, fmt.Sprintf("%sMsg uses config field %s, which is installed by option(s) %v — not the %s direction", w.Dir, p.FieldKey(fr), names, w.Dir))
				}
			}
		}
		l.Check(len(bad) == 0, "O2", key, p.At(w.Acquire),
			fmt.Sprintf("limiter field %s, limit-exceeded classifier field %s; disjoint from siblings; direction %q matches the installing options", p.FieldKey(w.LimField), p.FieldKey(w.ExcField), w.Dir),
			"a wrapper gates or reports on the wrong limiter", bad...)
	}
	// every Limiter-typed config field is used by some wrapper
	for _, nt := range p.structTypes("grpc") {
		for _, fr := range fieldsOfType(nt, p.coreNamed("Limiter")) {
			k := p.FieldKey(fr)
			l.Check(len(usedLim[k]) >= 1, "O2", "field:"+k, "", fmt.Sprintf("used by %v", usedLim[k]), "configured limiter field is never used to gate any operation")
		}
	}

	// O6: defaults before options; options exist for every field read
	for _, f := range p.Funcs {
		if !p.InPkg(f, "grpc") || f.Parent() != nil || !strings.HasSuffix(f.Name(), "Interceptor") || !token_IsExported(f.Name()) {
			continue
		}
		key := p.Key(f)
		var optCalls []*ssa.Call
		allInstrs(f, func(ins ssa.Instruction) {
			call, ok := ins.(*ssa.Call)
			if !ok {
				return
			}
			c := p.CallOf(call)
			if c.Name == "dynamic" && len(c.Args) == 1 {
				// fn(cfg) where fn is an element of the variadic options parameter
				if u, ok := c.FnVal.(*ssa.UnOp); ok {
					if ia, ok := u.X.(*ssa.IndexAddr); ok {
						if _, ok := ia.X.(*ssa.Parameter); ok {
							optCalls = append(optCalls, call)
						}
					}
				}
			}
		})
		if len(optCalls) == 0 {
			l.Bad("O6", key, p.FuncPos(f), "interceptor constructor must apply defaults then options (no call applying the user options to a config found)")
			continue
		}
		// initialisers of the same config object: stores into its fields in the constructor, and calls of module functions
		// that are handed the config and write its fields (a defaults helper). Each must run strictly before every option.
		cfgAP := AccessPath(optCalls[0].Call.Args[0])
		cfgT := derefNamed(optCalls[0].Call.Args[0].Type())
		var inits []ssa.Instruction
		allInstrs(f, func(ins ssa.Instruction) {
			switch x := ins.(type) {
			case *ssa.Store:
				if fa, ok := x.Addr.(*ssa.FieldAddr); ok {
					if ap := AccessPath(fa.X); ap.Root == cfgAP.Root && len(ap.Sel) == len(cfgAP.Sel) {
						inits = append(inits, ins)
					}
				}
			case *ssa.Call:
				c := p.CallOf(x)
				if c.Static == nil || !p.InModule(c.Static) || c.Static.Blocks == nil {
					return
				}
				takes := false
				for _, a := range x.Call.Args {
					if ap := AccessPath(a); ap.Root == cfgAP.Root && ap.String() == cfgAP.String() {
						takes = true
					}
				}
				if !takes {
					return
				}
				for _, a := range p.Accesses(c.Static) {
					if a.Write && cfgT != nil && a.Field.Type != nil && (types.Identical(a.Field.Type, cfgT) || c14NestedIn(a.Field.Type, cfgT)) {
						inits = append(inits, ins)
						return
					}
				}
			}
		})
		if len(inits) == 0 {
			l.Bad("O6", key, p.FuncPos(f), "interceptor constructor must apply defaults then options (nothing initialises the config before the options are applied)")
			continue
		}
		okDom := true
		var late ssa.Instruction
		for _, oc := range optCalls {
			if AccessPath(oc.Call.Args[0]).String() != cfgAP.String() {
				okDom = false
			}
			for _, in := range inits {
				if !(in.Block().Dominates(oc.Block()) && in.Block() != oc.Block()) {
					// written after the options: harmless when it can only fill what no option set (guarded by "still
					// unset"), or when no option writes that field at all (a value derived from the final configuration)
					if c14CannotOverwrite(p, f, in, cfgT, 2) {
						continue
					}
					okDom = false
					late = in
				}
			}
		}
		at := p.At(inits[0])
		if late != nil {
			at = p.At(late)
		}
		l.Check(okDom, "O6", key, at, fmt.Sprintf("%d initialiser(s) of the config (defaults) dominate the loop applying the user options to the same config", len(inits)),
			"user options can be overwritten by defaults (defaults not applied strictly before the option loop)")
	}
	// ---------------- O7: the handler is given this interceptor's wrapper
	l.Rule("O7", "the stream handler receives a wrapper made for this call by this interceptor: on every path the stream argument of handler(srv, stream) is a freshly allocated wrapper of the type whose RecvMsg / SendMsg acquire, carrying this interceptor's configuration (a wrapper reused from an outer interceptor gates with the outer configuration only)")
	{
		wrapT := map[*types.Named]bool{}
		for _, w := range wrappers {
			if w.Dir != "" && w.Fn.Signature.Recv() != nil {
				if nt := derefNamed(w.Fn.Signature.Recv().Type()); nt != nil {
					wrapT[nt] = true
				}
			}
		}
		n7 := 0
		for _, f := range p.Funcs {
			if !p.InPkg(f, "grpc") {
				continue
			}
			allInstrs(f, func(ins ssa.Instruction) {
				call, ok := ins.(*ssa.Call)
				if !ok || call.Call.IsInvoke() || len(call.Call.Args) != 2 {
					return
				}
				nt, ok := call.Call.Value.Type().(*types.Named)
				if !ok || nt.Obj().Name() != "StreamHandler" {
					return
				}
				n7++
				var bad []string
				seen := map[ssa.Value]bool{}
				var fresh func(v ssa.Value, d int) bool
				fresh = func(v ssa.Value, d int) bool {
					v = strip(v, false)
					if d > 8 || seen[v] {
						return true
					}
					seen[v] = true
					switch x := v.(type) {
					case *ssa.MakeInterface:
						return fresh(x.X, d+1)
					case *ssa.Phi:
						for _, e := range x.Edges {
							if !fresh(e, d+1) {
								return false
							}
						}
						return true
					case *ssa.Alloc:
						at := derefNamed(x.Type())
						if at == nil || !wrapT[at] {
							bad = append(bad, "the stream handed to the handler is a "+x.Type().String()+", not the limiting wrapper")
							return false
						}
						// its configuration is the interceptor's own
						okCfg := false
						if refs := x.Referrers(); refs != nil {
							for _, r := range *refs {
								fa, isFA := r.(*ssa.FieldAddr)
								if !isFA {
									continue
								}
								if fr2 := fa.Referrers(); fr2 != nil {
									for _, u := range *fr2 {
										if st, isS := u.(*ssa.Store); isS && st.Addr == ssa.Value(fa) {
											switch AccessPath(st.Val).Root.(type) {
											case *ssa.FreeVar, *ssa.Alloc, *ssa.Parameter:
												if d := derefNamed(st.Val.Type()); d != nil && strings.Contains(strings.ToLower(d.Obj().Name()), "config") {
													okCfg = true
												}
											}
										}
									}
								}
							}
						}
						if !okCfg {
							bad = append(bad, "the wrapper does not carry the configuration the interceptor was built with")
						}
						return okCfg
					}
					bad = append(bad, "the stream handed to the handler is not a wrapper allocated for this call: "+valueString(v))
					return false
				}
				ok2 := fresh(call.Call.Args[1], 0)
				l.Check(ok2 && len(bad) == 0, "O7", p.Key(f)+"/handler-stream", p.At(ins), "handler(srv, &wrapper{..., cfg: cfg}) with a wrapper allocated for this call", "stream operations can run without this interceptor's limiters being asked", bad...)
			})
		}
		if n7 == 0 {
			l.Infra("no call of a grpc.StreamHandler found in package grpc")
		}
	}
	seenField := map[string]bool{}
	for _, w := range wrappers {
		fields := append([]FieldRef{w.LimField, w.ExcField}, w.RespFields...)
		for _, fr := range fields {
			if !fr.Valid() || seenField[p.FieldKey(fr)] {
				continue
			}
			seenField[p.FieldKey(fr)] = true
			opts := optionFor(fr)
			// option type must be the option func type that targets this config struct
			good := false
			var names []string
			for _, o := range opts {
				names = append(names, o.Name())
				res := o.Signature.Results()
				if res.Len() == 1 {
					if sig, ok := res.At(0).Type().Underlying().(*types.Signature); ok && sig.Params().Len() == 1 {
						if d := derefNamed(sig.Params().At(0).Type()); d != nil && types.Identical(d, fr.Type) {
							good = true
						}
					}
				}
			}
			l.Check(good, "O6", "option:"+p.FieldKey(fr), "", fmt.Sprintf("installed by %v", names),
				"a config field read by a wrapper has no option of the matching option type that stores its parameter into it")
		}
	}
}

func c14Wrapper_check(p *Prog, l *Ledger, w *c14Wrapper, consts map[int64]string, rt *types.Named) {
	f := w.Fn
	key := p.Key(f)
	acq := w.Acquire
	var tokenV, okV ssa.Value
	if refs := acq.Referrers(); refs != nil {
		for _, r := range *refs {
			if ex, ok := r.(*ssa.Extract); ok {
				if ex.Index == 0 {
					tokenV = ex
				} else {
					okV = ex
				}
			}
		}
	}
	if okV == nil {
		l.Bad("O1", key, p.At(acq), "the ok result of Acquire is ignored")
		return
	}
	isWrapped := func(ins ssa.Instruction) bool {
		call, ok := ins.(*ssa.Call)
		if !ok {
			return false
		}
		c := p.CallOf(call)
		if c.Name == "dynamic" {
			if prm, ok := strip(c.FnVal, false).(*ssa.Parameter); ok {
				if nt, ok := prm.Type().(*types.Named); ok && nt.Obj().Pkg() != nil && nt.Obj().Pkg().Path() == "google.golang.org/grpc" {
					return true
				}
			}
			return false
		}
		if c.Iface != nil && c.Iface.Name() == f.Name() {
			if fr, _, ok := c14Loaded(strip(c.Recv, false)); ok && f.Signature.Recv() != nil {
				if d := derefNamed(f.Signature.Recv().Type()); d != nil && types.Identical(fr.Type, d) {
					return true
				}
			}
		}
		// the same-named interface method called through a method expression (ServerStream.RecvMsg)(s.ServerStream, m)
		if c.Static != nil && c.Static.Synthetic != "" && strings.TrimSuffix(c.Static.Name(), "$thunk") == f.Name() && f.Signature.Recv() != nil {
			if obj, ok := c.Static.Object().(*types.Func); ok && obj != nil {
				if sig, ok := obj.Type().(*types.Signature); ok && sig.Recv() != nil && types.IsInterface(sig.Recv().Type()) && len(call.Call.Args) > 0 {
					if fr, _, ok := c14Loaded(strip(call.Call.Args[0], false)); ok {
						if d := derefNamed(f.Signature.Recv().Type()); d != nil && types.Identical(fr.Type, d) {
							return true
						}
					}
				}
			}
		}
		return false
	}
	listenerMethod := func(ins ssa.Instruction) (string, ssa.Value) {
		call, ok := ins.(*ssa.Call)
		if !ok {
			return "", nil
		}
		c := p.CallOf(call)
		for _, m := range []string{"OnSuccess", "OnIgnore", "OnDropped"} {
			if p.callsRoleMethod(c, "Listener", m) {
				return m, c.Recv
			}
		}
		return "", nil
	}
	nWrapped := 0
	allInstrs(f, func(ins ssa.Instruction) {
		if isWrapped(ins) {
			nWrapped++
		}
	})
	if nWrapped == 0 {
		l.Unknown("O1", key, p.FuncPos(f), "cannot identify the wrapped call (handler / invoker parameter or the embedded stream's same-named method)")
		return
	}

	var badO1, badO3, badO4, badO5 []string
	npaths, nOK, nRefuse := 0, 0, 0
	seenMatch := map[int64]bool{}
	_, trunc := EnumPaths(f, 200000, func(pa *Path) bool {
		if !pa.IsReturn() {
			return true
		}
		npaths++
		acqStep := pa.StepOf(acq)
		okTrue, okKnown := pa.FactOn(okV, len(pa.Blocks))
		// events
		var wrappedIns ssa.Instruction
		var wrappedStep int
		type comp struct {
			m    string
			ins  ssa.Instruction
			recv ssa.Value
			step int
		}
		var comps []comp
		order := map[ssa.Instruction]int{}
		k := 0
		var excCall *ssa.Call
		pa.Each(func(step int, ins ssa.Instruction) bool {
			k++
			order[ins] = k
			if isWrapped(ins) {
				if wrappedIns != nil {
					badO1 = append(badO1, fmt.Sprintf("%s: wrapped call executed twice on a path", p.At(ins)))
				}
				wrappedIns, wrappedStep = ins, step
				if t, known := pa.FactOn(okV, step); !(known && t) || step < acqStep || order[acq] == 0 {
					badO1 = append(badO1, fmt.Sprintf("%s: wrapped call is reachable without a successful Acquire: %s", p.At(ins), joinWitness(p.DescribePath(pa))))
				}
			}
			if m, recv := listenerMethod(ins); m != "" {
				comps = append(comps, comp{m, ins, recv, step})
			}
			if call, ok := ins.(*ssa.Call); ok {
				c := p.CallOf(call)
				if c.Name == "dynamic" {
					if _, _, ok := c14Loaded(strip(c.FnVal, false)); ok {
						ft := strip(c.FnVal, false).Type()
						if named, ok := ft.(*types.Named); ok && strings.Contains(named.Obj().Name(), "LimitExceeded") {
							excCall = call
						}
					}
				}
			}
			return true
		})
		_ = wrappedStep
		if !okKnown {
			badO1 = append(badO1, "a path returns without testing Acquire's ok result: "+joinWitness(p.DescribePath(pa)))
			return len(badO1) < 3
		}
		rv := pa.ReturnValues()
		if !okTrue {
			nRefuse++
			if wrappedIns != nil {
				badO3 = append(badO3, fmt.Sprintf("%s: wrapped call runs although the limiter refused", p.At(wrappedIns)))
			}
			for _, c := range comps {
				badO3 = append(badO3, fmt.Sprintf("%s: %s invoked although no token was granted", p.At(c.ins), c.m))
			}
			// returned error
			errV := strip(rv[len(rv)-1], false)
			se, ok := errV.(*ssa.Call)
			if !ok || !p.CallOf(se).Is("google.golang.org/grpc/status.Error") {
				badO3 = append(badO3, "refusal does not return status.Error(...): "+valueString(errV))
				return true
			}
			if excCall == nil {
				badO3 = append(badO3, "refusal path does not consult the configured limit-exceeded classifier")
				return true
			}
			code := strip(se.Call.Args[0], false)
			ex, ok := code.(*ssa.Extract)
			if !ok || ex.Tuple != ssa.Value(excCall) || ex.Index != 1 {
				badO3 = append(badO3, fmt.Sprintf("%s: status code is not the classifier's code result: %s", p.At(se), valueString(code)))
			}
			ec := p.CallOf(excCall)
			fr, _, _ := c14Loaded(strip(ec.FnVal, false))
			if w.ExcField.Valid() && !sameField(w.ExcField, fr) {
				badO3 = append(badO3, "different limit-exceeded classifier fields on different paths")
			}
			w.ExcField = fr
			// the limiter handed to the classifier is the one Acquire used
			if len(ec.Args) >= 4 {
				if AccessPath(ec.Args[3]).String() != w.LimAP {
					badO3 = append(badO3, fmt.Sprintf("%s: the limit-exceeded classifier is told about limiter %s but Acquire used %s", p.At(excCall), AccessPath(ec.Args[3]), w.LimAP))
				}
			}
			return true
		}
		nOK++
		if wrappedIns == nil {
			badO1 = append(badO1, "a granted path never runs the wrapped call: "+joinWitness(p.DescribePath(pa)))
			return true
		}
		// O5: results unchanged
		wcall := wrappedIns.(*ssa.Call)
		nres := wcall.Call.Signature().Results().Len()
		for i, r := range rv {
			r = strip(r, false)
			want := i
			good := false
			if nres == 1 && r == ssa.Value(wcall) {
				good = true
			}
			if ex, ok := r.(*ssa.Extract); ok && ex.Tuple == ssa.Value(wcall) && ex.Index == want+(nres-len(rv)) {
				good = true
			}
			if isNilConst(r) {
				// `return nil` on a path that established the wrapped error is nil
				var errRes ssa.Value = wcall
				if nres > 1 {
					errRes = nil
					if refs := wcall.Referrers(); refs != nil {
						for _, rr := range *refs {
							if ex, ok := rr.(*ssa.Extract); ok && ex.Index == nres-1 {
								errRes = ex
							}
						}
					}
				}
				if errRes != nil && i == len(rv)-1 && pa.HoldsRel(-1, func(rel Rel) bool {
					return rel.Op == token.EQL && strip(rel.X, false) == errRes && isNilConst(rel.Y)
				}) {
					good = true
				}
			}
			if !good {
				badO5 = append(badO5, fmt.Sprintf("result %d returned by the wrapper is not the wrapped call's result: %s", i, valueString(r)))
			}
		}
		// O4: exactly one completion, on the token, after the wrapped call
		if len(comps) != 1 {
			badO4 = append(badO4, fmt.Sprintf("%d listener completions on a granted path (want exactly 1): %s", len(comps), joinWitness(p.DescribePath(pa))))
			if len(comps) == 0 {
				// is the path feasible under the enum assumption?
				excl := c14Excluded(pa, rt)
				if len(excl) >= len(consts) {
					badO4 = badO4[:len(badO4)-1]
				}
			}
			return len(badO4) < 4
		}
		c := comps[0]
		if strip(pa.Resolve(c.recv, c.step), false) != tokenV {
			badO4 = append(badO4, fmt.Sprintf("%s: %s is not invoked on the token returned by Acquire", p.At(c.ins), c.m))
		}
		if order[c.ins] < order[wrappedIns] {
			badO4 = append(badO4, fmt.Sprintf("%s: token completed before the wrapped call runs", p.At(c.ins)))
		}
		// classification
		matched, hasMatch, respVal := c14Matched(pa, rt)
		hardCoded := false
		if hasMatch {
			respVal = pa.Resolve(respVal, len(pa.Blocks)-1)
			if k, ok := strip(respVal, false).(*ssa.Const); ok && types.Identical(k.Type(), rt) {
				// the response type is a constant on this path (a default assigned before an optional classification)
				hardCoded = true
			}
		}
		if hasMatch && !hardCoded {
			seenMatch[matched] = true
			if consts[matched] != c.m {
				badO4 = append(badO4, fmt.Sprintf("%s: response type %d completes with %s, want %s", p.At(c.ins), matched, c.m, consts[matched]))
			}
			// the classified value comes from a configured classifier field, called after the wrapped call
			if call, ok := strip(respVal, false).(*ssa.Call); ok {
				cc := p.CallOf(call)
				if fr, _, ok := c14Loaded(strip(cc.FnVal, false)); ok && cc.Name == "dynamic" {
					dup := false
					for _, x := range w.RespFields {
						if sameField(x, fr) {
							dup = true
						}
					}
					if !dup {
						w.RespFields = append(w.RespFields, fr)
					}
					if order[call] < order[wrappedIns] {
						badO4 = append(badO4, fmt.Sprintf("%s: response classified before the wrapped call ran", p.At(call)))
					}
				} else {
					badO4 = append(badO4, fmt.Sprintf("%s: response type does not come from a configured classifier field", p.At(c.ins)))
				}
			} else {
				badO4 = append(badO4, fmt.Sprintf("%s: response type does not come from a classifier call: %s", p.At(c.ins), valueString(respVal)))
			}
		} else {
			excl := c14Excluded(pa, rt)
			if hardCoded {
				excl = nil
			}
			if len(excl) > 0 {
				var remaining []int64
				for v := range consts {
					if !excl[v] {
						remaining = append(remaining, v)
					}
				}
				if len(remaining) == 0 {
					return true // infeasible under the enum assumption
				}
				if len(remaining) > 1 {
					badO4 = append(badO4, fmt.Sprintf("%s: %s is used for several response types %v", p.At(c.ins), c.m, remaining))
				} else {
					seenMatch[remaining[0]] = true
					if consts[remaining[0]] != c.m {
						badO4 = append(badO4, fmt.Sprintf("%s: response type %d completes with %s, want %s", p.At(c.ins), remaining[0], c.m, consts[remaining[0]]))
					}
				}
			} else {
				if hardCoded {
					seenMatch[matched] = true
					if consts[matched] != c.m {
						badO4 = append(badO4, fmt.Sprintf("%s: response type %d completes with %s, want %s", p.At(c.ins), matched, c.m, consts[matched]))
					}
				}
				// no classification on this path: only an error-free STREAM operation may complete as success; a unary call's
				// outcome is always the configured classifier's (it may read an embedded status out of an error-free reply)
				if w.Dir == "" && !hardCoded {
					badO4 = append(badO4, fmt.Sprintf("%s: a unary call completes with %s without the configured response classifier having been asked", p.At(c.ins), c.m))
				}
				if c.m != "OnSuccess" {
					badO4 = append(badO4, fmt.Sprintf("%s: unclassified path completes with %s", p.At(c.ins), c.m))
				}
				if nres >= 1 {
					var errRes ssa.Value = wcall
					if nres > 1 {
						errRes = nil
					}
					if errRes == nil || !pa.HoldsRel(-1, func(rel Rel) bool {
						return rel.Op == token.EQL && strip(rel.X, false) == errRes && isNilConst(rel.Y)
					}) {
						badO4 = append(badO4, fmt.Sprintf("%s: OnSuccess without classification on a path that did not establish err == nil", p.At(c.ins)))
					}
				}
			}
		}
		return len(badO4) < 6
	})
	l.Count("paths", npaths)
	if trunc {
		l.Unknown("O1", key, p.FuncPos(f), "path enumeration truncated")
		return
	}
	// exhaustiveness: each declared constant selects some path
	var missing []string
	var vals []int64
	for v := range consts {
		vals = append(vals, v)
	}
	sort.Slice(vals, func(i, j int) bool { return vals[i] < vals[j] })
	for _, v := range vals {
		if !seenMatch[v] {
			missing = append(missing, fmt.Sprintf("no path handles response type %d (%s)", v, consts[v]))
		}
	}
	badO4 = append(badO4, missing...)
	if nRefuse == 0 {
		badO3 = append(badO3, "no refusal path found")
	}
	l.Check(len(badO1) == 0, "O1", key, p.At(acq), fmt.Sprintf("%d paths: %d granted (each runs the wrapped call once, after ok), %d refused", npaths, nOK, nRefuse), "the wrapped call is not gated by a successful Acquire", badO1...)
	l.Check(len(badO3) == 0, "O3", key, p.At(acq), fmt.Sprintf("%d refusal paths: no wrapped call, no completion, status.Error(code of %s)", nRefuse, p.FieldKey(w.ExcField)), "refusal does not short-circuit correctly", badO3...)
	l.Check(len(badO4) == 0, "O4", key, p.At(acq), fmt.Sprintf("%d granted paths: exactly one completion on the token after the wrapped call, mapped by %d response types", nOK, len(consts)), "the acquired token is not completed exactly once with the classified outcome", badO4...)
	l.Check(len(badO5) == 0, "O5", key, p.At(acq), "every granted path returns the wrapped call's own results", "the call's result is altered", badO5...)
}

// c14Matched: the path established respType == K (K a ResponseType constant).
func c14Matched(pa *Path, rt *types.Named) (int64, bool, ssa.Value) {
	for _, r := range pa.Rels(-1) {
		if r.Op != token.EQL {
			continue
		}
		x, y := r.X, r.Y
		if _, ok := y.(*ssa.Const); !ok {
			x, y = y, x
		}
		c, ok := y.(*ssa.Const)
		if !ok || !types.Identical(c.Type(), rt) {
			continue
		}
		v, _ := constant.Int64Val(c.Value)
		return v, true, x
	}
	return 0, false, nil
}

func c14Excluded(pa *Path, rt *types.Named) map[int64]bool {
	out := map[int64]bool{}
	for _, r := range pa.Rels(-1) {
		if r.Op != token.NEQ {
			continue
		}
		y := r.Y
		if _, ok := y.(*ssa.Const); !ok {
			y = r.X
		}
		c, ok := y.(*ssa.Const)
		if !ok || !types.Identical(c.Type(), rt) {
			continue
		}
		v, _ := constant.Int64Val(c.Value)
		out[v] = true
	}
	return out
}

// c14Nested: a field of a settings struct that is itself a (by-value) field of the config struct - cfg.recv.limiter - is
// named by both selections, so that the two directions' copies of the same inner field are different fields.
func c14Nested(fr FieldRef, base ssa.Value) FieldRef {
	fa, ok := strip(base, false).(*ssa.FieldAddr)
	if !ok || fr.Type == nil {
		return fr
	}
	outer, _, ok := fieldOf(fa)
	if !ok || outer.Type == nil {
		return fr
	}
	st := structOf(outer.Type)
	if st == nil || outer.Index >= st.NumFields() {
		return fr
	}
	if nt, _ := st.Field(outer.Index).Type().(*types.Named); nt == nil || !types.Identical(nt, fr.Type) {
		return fr // reached through a pointer, not nested by value
	}
	return FieldRef{Type: outer.Type, Index: 100000 + outer.Index*1000 + fr.Index, Name: outer.Name + "." + fr.Name}
}

// c14Loaded is loadedField with nested settings structs resolved (c14Nested).
func c14Loaded(v ssa.Value) (FieldRef, ssa.Value, bool) {
	fr, base, ok := loadedField(v)
	if !ok {
		return fr, base, ok
	}
	return c14Nested(fr, base), base, true
}

// c14NestedIn: inner is the type of a by-value struct field of outer (settings grouped into a sub-struct).
func c14NestedIn(inner, outer *types.Named) bool {
	st, ok := outer.Underlying().(*types.Struct)
	if !ok {
		return false
	}
	for i := 0; i < st.NumFields(); i++ {
		if nt, ok := st.Field(i).Type().(*types.Named); ok && types.Identical(nt, inner) {
			return true
		}
	}
	return false
}

// c14OptionFields: the config fields that option closures (function literals of package grpc) write.
func c14OptionFields(p *Prog, cfgT *types.Named) map[string]bool {
	out := map[string]bool{}
	for _, g := range p.Funcs {
		if g.Parent() == nil || !p.InPkg(g, "grpc") {
			continue
		}
		for _, a := range p.Accesses(g) {
			if a.Write && a.Field.Type != nil && cfgT != nil && (types.Identical(a.Field.Type, cfgT) || c14NestedIn(a.Field.Type, cfgT)) {
				out[p.FieldKey(a.Field)] = true
			}
		}
	}
	return out
}

// c14CannotOverwrite: the initialiser (a store into the config, or a call of a module function that writes it) cannot
// replace what a user option stored: every write is on the true edge of "<that field> == nil" for the same field, or
// goes to a field that no option writes.
func c14CannotOverwrite(p *Prog, f *ssa.Function, in ssa.Instruction, cfgT *types.Named, depth int) bool {
	optF := c14OptionFields(p, cfgT)
	guarded := func(g *ssa.Function, st *ssa.Store) bool {
		fa, ok := st.Addr.(*ssa.FieldAddr)
		if !ok {
			return false
		}
		fr, base, ok := fieldOf(fa)
		if !ok {
			return false
		}
		if !optF[p.FieldKey(fr)] {
			return true
		}
		baseAP := AccessPath(base).String()
		okG := false
		allInstrs(g, func(i2 ssa.Instruction) {
			iff, isIf := i2.(*ssa.If)
			if !isIf {
				return
			}
			bo, isB := iff.Cond.(*ssa.BinOp)
			if !isB || (bo.Op != token.EQL && bo.Op != token.NEQ) {
				return
			}
			for _, pair := range [][2]ssa.Value{{bo.X, bo.Y}, {bo.Y, bo.X}} {
				f2, b2, ok := loadedField(strip(pair[0], false))
				if ok && sameField(f2, fr) && AccessPath(b2).String() == baseAP && isNilConst(strip(pair[1], false)) {
					t := iff.Block().Succs[0]
					if bo.Op == token.NEQ {
						t = iff.Block().Succs[1] // if cfg.limiter != nil { return }
					}
					// the store is behind that EDGE: the successor is entered only from this test (a successor shared
					// with another test - "a != nil && b != nil" - is also reached with the field set)
					if len(t.Preds) == 1 && (t == st.Block() || t.Dominates(st.Block())) {
						okG = true
					}
				}
			}
		})
		return okG
	}
	switch x := in.(type) {
	case *ssa.Store:
		return guarded(f, x)
	case *ssa.Call:
		c := p.CallOf(x)
		if c.Static == nil || depth <= 0 {
			return false
		}
		ok := true
		n := 0
		allInstrs(c.Static, func(i2 ssa.Instruction) {
			switch y := i2.(type) {
			case *ssa.Store:
				if fa, isF := y.Addr.(*ssa.FieldAddr); isF {
					if fr, _, isOk := fieldOf(fa); isOk && fr.Type != nil && cfgT != nil && (types.Identical(fr.Type, cfgT) || c14NestedIn(fr.Type, cfgT)) {
						n++
						if !guarded(c.Static, y) {
							ok = false
						}
					}
				}
			case *ssa.Call:
				c2 := p.CallOf(y)
				if c2.Static != nil && p.InModule(c2.Static) && c2.Static.Blocks != nil && p.InPkg(c2.Static, "grpc") {
					for _, a := range p.Accesses(c2.Static) {
						if a.Write && a.Field.Type != nil && cfgT != nil && (types.Identical(a.Field.Type, cfgT) || c14NestedIn(a.Field.Type, cfgT)) {
							if !c14CannotOverwrite(p, c.Static, y, cfgT, depth-1) {
								ok = false
							}
							n++
							break
						}
					}
				}
			}
		})
		return ok && n > 0
	}
	return false
}
