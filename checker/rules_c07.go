package main

import (
	"go/token"
	"fmt"

	"gclverify/xt/ssa"
)

func init() {
	register("C07", &ruleSet{
		run:    runC07,
		floors: map[string]int{"O1": 4, "O2": 4, "O3": 4, "O4": 1, "O5": 3, "O6": 2, "O7": 1},
		explain: "Decides the demand gate, which is a comparator / dominance fact (the recovery half - saturated drop-free samples bring the estimate to within one of its " +
			"ceiling in a bounded number of samples - quantifies over numeric trajectories and is not applicable): (O1) for AIMD, Vegas, Gradient and Gradient2 every store of " +
			"the estimate that is not proved <= the old estimate lies only on paths that established 'not app-limited' with the property's own comparator: 2 x inFlight >= " +
			"estimate for the delay-based algorithms (equivalently inFlight >= estimate/2), inFlight >= limit for AIMD, both operands being the in-flight parameter of the sample " +
			"and the current estimate; (O2) no computed update is discarded: every path that evaluates the value destined for the estimate also stores it (a structural " +
			"necessary condition of 'no reachable state is stuck'); (O3) the clamp of every stored estimate (C04/O1) and (O4) the positivity of the default step tables, both of which the gate / recovery arguments take as given; (O5) a saturated drop-free sample moves the estimate unless one measured quantity was bounded from both sides, and may leave before the gate only on input validation (parameters against constants), not on a test of remembered state; (O6) probing (C15/O4); (O7) AIMD never lowers its estimate on a drop-free sample.",
	})
}

func runC07(p *Prog, l *Ledger) {
	l.Rule("O1", "demand gate: every store not proved <= the old estimate is on a path that established ratio x inFlight >= estimate (ratio 2; 1 for AIMD) on the sample's in-flight and the current estimate")
	l.Rule("O2", "no computed update is discarded: a path that evaluates the new estimate stores it")
	l.NotCovered = []string{"the recovery half: saturated drop-free samples raise the estimate to within one of its ceiling within a bounded number of samples (numeric trajectories)"}
	l.Assume("valid configuration and inductive hypothesis as in C04")
	l.Rule("O3", "what the gate argument takes as given is established by the code (decided by the C04/O1 rule on the same tree): every stored estimate stays within [max(1,minLimit), maxLimit], so a reset to the floor (probe) never lifts an estimate that had sunk below it")
	importObligations(p, l, "C04", "O3", func(o *Obligation) bool { return o.Rule == "O1" || o.Rule == "O2" })
	l.Rule("O5", "a saturated drop-free sample moves the estimate, or the path has bounded one measured quantity from below and from above (the band in which the algorithm holds the estimate)")
	l.Rule("O6", "probing (decided by the C15/O4 rule on the same tree): a probe resets the estimate to its floor, so probes fire one period apart and not at all when disabled")
	importObligations(p, l, "C15", "O6", func(o *Obligation) bool { return o.Rule == "O4" })
	l.Rule("O7", "a loss-based algorithm (AIMD) never lowers its estimate on a drop-free sample")
	l.Rule("O4", "the default step tables cannot produce a zero step: every entry of the pre-computed lookup tables of limit/functions is proved >= 1 (a zero alpha/beta/increase step is a stuck state: healthy saturation no longer raises the estimate)")
	if ok, why := tableStepNonNegative(p); ok {
		l.OK("O4", "limit/functions/tables", "", "every stored table entry is a conversion of max(1, ...)")
	} else {
		l.Bad("O4", "limit/functions/tables", "", "a table entry is not proved >= 1: "+why)
	}
	for _, af := range algoFuncs(p, l) {
		key := p.Key(af.Fn)
		if af.InFlight == nil {
			l.Unknown("O1", key, p.FuncPos(af.Fn), "cannot map OnSample's in-flight parameter onto this function")
			continue
		}
		want := 2.0
		if !af.A.Float {
			want = 1.0
		}
		// O5: a saturated, drop-free sample moves the estimate - unless the algorithm has decided that the estimate is right
		// where it is, which takes a lower AND an upper bound on the same measured quantity (Vegas: queue estimate between
		// alpha and beta). A one-sided test that ends in "leave it" (the candidate exceeds the ceiling: skip) is a state
		// from which healthy saturation does not recover.
		{
			var bad5 []string
			n5 := 0
			EnumPaths(af.Fn, 400000, func(pa *Path) bool {
				if !pa.IsReturn() {
					return true
				}
				for _, s := range af.Stores {
					if pa.Contains(s.Instr) {
						return true
					}
				}
				if af.Drop != nil {
					if isDrop, known := pa.FactOn(af.Drop, len(pa.Blocks)); known && isDrop {
						return true
					}
				}
				if c06BaselineReturn(p, pa) {
					return true
				}
				last := len(pa.Blocks)
				pr := &prover{p: p, pa: pa, step: last - 1, entry: af.Entry}
				c04Axioms(p, pr, af.A, pa, l)
				if notAppLimited(pr, af, last) == 0 {
					// the sample left before the demand gate was decided either way: that is input validation (a parameter
					// tested against a constant: rtt <= 0) - a test against the algorithm's own state (a remembered
					// time stamp, a counter) can discard every healthy saturated sample from then on
					if !appLimited(pr, af, last) {
						for _, b := range pa.Blocks[:len(pa.Blocks)-1] {
							iff, ok := b.Instrs[len(b.Instrs)-1].(*ssa.If)
							if !ok {
								continue
							}
							if !c07InputTest(iff.Cond, 4) {
								n5++
								bad5 = append(bad5, fmt.Sprintf("%s: a drop-free sample is discarded before the demand gate on a test of the algorithm's state (%s): %s", p.At(iff), valueString(iff.Cond), joinWitness(p.DescribePath(pa))))
								break
							}
						}
					}
					return len(bad5) < 2
				}
				n5++
				lowers, uppers := map[ssa.Value]bool{}, map[ssa.Value]bool{}
				for _, r := range pa.Rels(-1) {
					for _, rr := range []Rel{r, {X: r.Y, Y: r.X, Op: flipOp(r.Op)}} {
						x := strip(rr.X, true)
						if _, isC := x.(*ssa.Const); isC {
							continue
						}
						switch rr.Op {
						case token.GTR, token.GEQ:
							lowers[x] = true
						case token.LSS, token.LEQ:
							uppers[x] = true
						}
					}
				}
				band := false
				for x := range lowers {
					if uppers[x] {
						band = true
					}
				}
				if !band {
					bad5 = append(bad5, "a saturated, drop-free sample leaves the estimate untouched on a one-sided test: "+joinWitness(p.DescribePath(pa)))
				}
				return len(bad5) < 2
			})
			l.Check(len(bad5) == 0, "O5", key+"/saturated-sample-moves", p.FuncPos(af.Fn), fmt.Sprintf("%d saturated drop-free paths without a store, each inside a two-sided band", n5), "healthy saturation can fail to raise the estimate: a stuck state", bad5...)
		}
		// O7: a loss-based algorithm (no RTT in its update: AIMD) never lowers the estimate on a drop-free sample; "healthy
		// saturation raises it by the configured increment on every sample" leaves no room for a decrease decided by
		// something else (a hidden latency timeout)
		if !af.A.Float && af.Drop != nil {
			var bad7 []string
			n7 := 0
			EnumPaths(af.Fn, 400000, func(pa *Path) bool {
				if !pa.IsReturn() {
					return true
				}
				if isDrop, known := pa.FactOn(af.Drop, len(pa.Blocks)); !known || isDrop {
					return true
				}
				for _, s := range af.Stores {
					st := pa.StepOf(s.Instr)
					if st < 0 {
						continue
					}
					n7++
					pr := &prover{p: p, pa: pa, step: st, entry: af.Entry}
					c04Axioms(p, pr, af.A, pa, l)
					pr.budget = 8000
					if !pr.rel(atomVal(s.Val), atomField(af.A.Est), false, 0) {
						bad7 = append(bad7, fmt.Sprintf("%s: a drop-free sample stores an estimate that is not proved >= the old one: %s", p.At(s.Instr), joinWitness(p.DescribePath(pa))))
					}
				}
				return len(bad7) < 2
			})
			l.Check(len(bad7) == 0 && n7 > 0, "O7", key+"/drop-free-never-lowers", p.FuncPos(af.Fn), fmt.Sprintf("%d stores on drop-free paths, each proved >= the old estimate", n7), "a drop-free sample can lower the estimate of a loss-based algorithm", bad7...)
		}
		for si, s := range af.Stores {
			skey := fmt.Sprintf("%s/%s", key, af.Keys[si])
			var bad []string
			npaths, ngated, nlower := 0, 0, 0
			_, trunc := EnumPaths(af.Fn, 400000, func(pa *Path) bool {
				st := pa.StepOf(s.Instr)
				if st < 0 || !pa.IsReturn() {
					return true
				}
				if af.Drop != nil {
					if isDrop, known := pa.FactOn(af.Drop, len(pa.Blocks)); known && isDrop {
						return true // drop samples are C06's business; C07 speaks about non-drop samples
					}
				}
				npaths++
				pr := &prover{p: p, pa: pa, step: st, entry: af.Entry}
				c04Axioms(p, pr, af.A, pa, l)
				pr.axiomGE(atomField(af.A.Est), atomConst(0))
				pr.budget = 8000
				if pr.rel(atomField(af.A.Est), atomVal(s.Val), false, 0) {
					nlower++
					return true
				}
				ratio := notAppLimited(pr, af, st+1)
				// the gate is decided on the estimate that is updated: a load of the estimate that a branch on this path
				// tested is not separated from the store by a release of the algorithm's lock
				if ratio != 0 {
					if why := c07GateInSameSection(p, pa, af, s.Instr); why != "" {
						bad = append(bad, why)
						return len(bad) < 2
					}
				}
				switch {
				case ratio == want:
					ngated++
				case ratio != 0:
					bad = append(bad, fmt.Sprintf("growth is gated by %g x inFlight >= estimate, but the property's gate is %g x inFlight >= estimate: %s", ratio, want, joinWitness(p.DescribePath(pa))))
				case appLimited(pr, af, st+1):
					bad = append(bad, "the estimate can grow on the app-limited edge (the gate is inverted): "+joinWitness(p.DescribePath(pa)))
				default:
					bad = append(bad, fmt.Sprintf("a store that is not proved <= the old estimate (%s) is reachable without the demand gate: %s", operandString(pr.res(s.Val)), joinWitness(p.DescribePath(pa))))
				}
				return len(bad) < 2
			})
			l.Count("paths", npaths)
			if trunc {
				l.Unknown("O1", skey, p.At(s.Instr), "path enumeration truncated")
				continue
			}
			if npaths == 0 {
				l.OK("O1", skey, p.At(s.Instr), "this store is reached only on drop paths (C06 decides those)")
			}
			l.Check(len(bad) == 0 && npaths > 0 || npaths == 0, "O1", skey, p.At(s.Instr), fmt.Sprintf("%d paths: %d proved non-raising, %d behind the gate %g x inFlight >= estimate", npaths, nlower, ngated, want),
				"an idle (app-limited) sample can raise the estimate", bad...)

			// O2: the value being stored is computed by instruction I; every path through I reaches the store
			def, _ := strip(s.Val, false).(ssa.Instruction)
			if def == nil {
				continue
			}
			var bad2 []string
			n2 := 0
			EnumPaths(af.Fn, 400000, func(pa *Path) bool {
				if !pa.IsReturn() || !pa.Contains(def) {
					return true
				}
				n2++
				if !pa.Contains(s.Instr) {
					bad2 = append(bad2, "the new estimate is computed and then discarded: "+joinWitness(p.DescribePath(pa)))
				}
				return len(bad2) < 2
			})
			l.Check(len(bad2) == 0 && n2 > 0, "O2", skey, p.At(s.Instr), fmt.Sprintf("%d paths compute the new estimate and all store it", n2), "a computed update can be dropped: the estimate can get stuck", bad2...)
		}
	}
}

// c07GateInSameSection: every load of the estimate that a branch on the path tested before the store is made in the
// critical section that stores - between that load and the store the algorithm's mutex is not released.
func c07GateInSameSection(p *Prog, pa *Path, af *algoFn, store ssa.Instruction) string {
	storeStep := pa.StepOf(store)
	var tested []ssa.Instruction
	for _, f := range pa.Facts {
		if f.Step > storeStep {
			continue
		}
		seen := map[ssa.Value]bool{}
		var walk func(v ssa.Value, d int)
		walk = func(v ssa.Value, d int) {
			if v == nil || seen[v] || d > 6 {
				return
			}
			seen[v] = true
			if fr, _, ok := loadedField(v); ok {
				if sameField(fr, af.A.Est) {
					if ins, isI := v.(ssa.Instruction); isI && ins.Parent() == af.Fn {
						tested = append(tested, ins)
					}
				}
				return
			}
			if ins, ok := v.(ssa.Instruction); ok {
				for _, op := range ins.Operands(nil) {
					if op != nil && *op != nil {
						walk(*op, d+1)
					}
				}
			}
		}
		walk(f.Cond, 0)
	}
	if len(tested) == 0 {
		return ""
	}
	why := ""
	in := map[ssa.Instruction]bool{}
	for _, t := range tested {
		in[t] = true
	}
	active := false
	pa.Each(func(step int, ins ssa.Instruction) bool {
		if in[ins] {
			active = true
		}
		if ins == store {
			return false
		}
		if active {
			if call, ok := ins.(*ssa.Call); ok {
				if op, _ := p.lockOpOf(p.CallOf(call)); op == opUnlock || op == opRUnlock {
					why = fmt.Sprintf("%s: the lock is released between the test of the estimate that gates the update and the store: the gate was decided on an estimate another sample may have changed since (an app-limited sample can raise it)", p.At(ins))
					return false
				}
			}
		}
		return true
	})
	return why
}

// c07InputTest: v is a constant, a parameter of the sample, or arithmetic over those - what input validation looks at.
func c07InputTest(v ssa.Value, depth int) bool {
	switch x := strip(v, true).(type) {
	case *ssa.Const, *ssa.Parameter:
		return true
	case *ssa.BinOp:
		return depth > 0 && c07InputTest(x.X, depth-1) && c07InputTest(x.Y, depth-1)
	case *ssa.UnOp:
		return depth > 0 && x.Op != token.MUL && x.Op != token.ARROW && c07InputTest(x.X, depth-1)
	}
	return false
}
