package main

// Helpers over go/ssa values: resolved calls, access paths, field identification, value stripping.

import (
	"fmt"
	"go/constant"
	"go/token"
	"go/types"
	"strings"

	"gclverify/xt/ssa"
)

// ---------------------------------------------------------------- calls

// Call is a resolved description of a call / go / defer instruction.
type Call struct {
	Instr  ssa.CallInstruction
	Static *ssa.Function // declared function when statically resolved (through bound wrappers / literal closures)
	Iface  *types.Func   // interface method for invoke-mode calls
	Name   string        // "(*sync.Mutex).Lock", "sync/atomic.AddInt32", "(core.Limit).OnSample", "(*limiter.DefaultLimiter).Acquire", "dynamic"
	Recv   ssa.Value     // receiver (methods / invoke), else nil
	Args   []ssa.Value   // arguments without the receiver
	FnVal  ssa.Value     // for dynamic calls, the function value being called
}

func (p *Prog) shortName(s string) string {
	s = strings.ReplaceAll(s, p.Mod+"/", "")
	s = strings.ReplaceAll(s, p.Mod+".", "root.")
	return s
}

// CallOf resolves a call instruction; returns nil for non-calls.
func (p *Prog) CallOf(ins ssa.Instruction) *Call {
	ci, ok := ins.(ssa.CallInstruction)
	if !ok {
		return nil
	}
	cc := ci.Common()
	c := &Call{Instr: ci}
	if cc.IsInvoke() {
		c.Iface = cc.Method
		c.Recv = cc.Value
		c.Args = cc.Args
		c.Name = p.shortName(cc.Method.FullName())
		return c
	}
	var fn *ssa.Function
	var bound ssa.Value
	switch v := cc.Value.(type) {
	case *ssa.Function:
		fn = v
	case *ssa.MakeClosure:
		fn = v.Fn.(*ssa.Function)
		if strings.HasPrefix(fn.Synthetic, "bound method wrapper") && len(v.Bindings) == 1 {
			bound = v.Bindings[0]
		}
	case *ssa.Builtin:
		c.Name = "builtin." + v.Name()
		c.Args = cc.Args
		return c
	}
	if fn == nil {
		// a call through a function-typed location that holds one named function for the whole life of the program (a
		// test seam: var now = time.Now, or a field every constructor sets to rand.Float64) is a call of that function
		if u, ok := cc.Value.(*ssa.UnOp); ok && u.Op == token.MUL {
			switch x := u.X.(type) {
			case *ssa.Global:
				fn = p.globalConstFunc(x)
			case *ssa.FieldAddr:
				if fr, _, ok := fieldOf(x); ok {
					fn = p.fieldConstFunc(fr)
				}
			}
		}
	}
	if fn == nil {
		c.Name = "dynamic"
		c.FnVal = cc.Value
		c.Args = cc.Args
		return c
	}
	fn = p.unwrap(fn)
	c.Static = fn
	c.Name = p.shortName(fn.String())
	args := cc.Args
	// the typed atomics of sync/atomic are the same operations as the functions: x.Add(1) on an atomic.Int32 is
	// atomic.AddInt32(&x, 1). Present them the same way so that every rule reads both spellings.
	if bound == nil && fn.Signature.Recv() != nil && len(args) > 0 {
		if nt := derefNamed(fn.Signature.Recv().Type()); nt != nil && nt.Obj().Pkg() != nil && nt.Obj().Pkg().Path() == "sync/atomic" {
			switch fn.Name() {
			case "Add", "Load", "Store", "Swap", "CompareAndSwap", "And", "Or":
				switch nt.Obj().Name() {
				case "Int32", "Int64", "Uint32", "Uint64", "Uintptr", "Bool", "Pointer", "Value":
					c.Name = "sync/atomic." + fn.Name() + nt.Obj().Name()
					c.Args = args
					return c
				}
			}
		}
	}
	if bound != nil {
		c.Recv = bound
		c.Args = args
	} else if fn.Signature.Recv() != nil && len(args) > 0 {
		c.Recv = args[0]
		c.Args = args[1:]
	} else {
		c.Args = args
	}
	return c
}

// Obj is the object a method is called on: the receiver, with selections of embedded struct fields removed (a method
// promoted from an embedded struct is called on &x.embedded; the object is x). Embedded sync types are not peeled.
func (c *Call) Obj() ssa.Value {
	if c == nil || c.Recv == nil {
		return nil
	}
	v := c.Recv
	for i := 0; i < 4; i++ {
		fa, ok := strip(v, false).(*ssa.FieldAddr)
		if !ok {
			return v
		}
		st := structOf(fa.X.Type())
		if st == nil || fa.Field >= st.NumFields() || !st.Field(fa.Field).Embedded() {
			return v
		}
		if nt := derefNamed(st.Field(fa.Field).Type()); nt == nil || nt.Obj().Pkg() == nil || nt.Obj().Pkg().Path() == "sync" || nt.Obj().Pkg().Path() == "sync/atomic" {
			return v
		}
		v = fa.X
	}
	return v
}

// IsCall reports whether the instruction is a call whose resolved name is one of names.
func (c *Call) Is(names ...string) bool {
	if c == nil {
		return false
	}
	for _, n := range names {
		if c.Name == n {
			return true
		}
	}
	return false
}

// MethodName returns the bare method / function name of the call ("" for dynamic).
func (c *Call) MethodName() string {
	if c == nil {
		return ""
	}
	if c.Iface != nil {
		return c.Iface.Name()
	}
	if c.Static != nil {
		return c.Static.Name()
	}
	return ""
}

// ---------------------------------------------------------------- value stripping

// strip removes value-preserving wrappers: ChangeType, MakeInterface, ChangeInterface, (optionally) integer
// width conversions, and the load of a local variable cell that is assigned exactly once (a local that is captured by a
// closure or has its address taken lives in such a cell: x := e; ... use(x)).
// allocStaysLocal: the cell is only ever used through field addresses and whole loads / stores of the cell itself in its
// own function - its address is never stored, passed, returned, bound or converted (typically a small struct that was
// handed to a helper which has since been inlined).
func allocStaysLocal(al *ssa.Alloc) bool {
	refs := al.Referrers()
	if refs == nil {
		return false
	}
	for _, r := range *refs {
		switch x := r.(type) {
		case *ssa.FieldAddr:
			if x.X != ssa.Value(al) {
				return false
			}
			if fr := x.Referrers(); fr != nil {
				for _, u := range *fr {
					switch y := u.(type) {
					case *ssa.UnOp:
						if y.Op != token.MUL {
							return false
						}
					case *ssa.Store:
						if y.Addr != ssa.Value(x) {
							return false
						}
					default:
						return false
					}
				}
			}
		case *ssa.UnOp:
			if x.Op != token.MUL {
				return false
			}
		case *ssa.Store:
			if x.Addr != ssa.Value(al) {
				return false
			}
		case *ssa.DebugRef:
		default:
			return false
		}
	}
	return true
}

// inCarrierLookup guards strip against re-entering the carrier-struct lookup (which itself inspects field accesses).
var inCarrierLookup bool

func strip(v ssa.Value, widths bool) ssa.Value {
	for n := 0; n < 64; n++ {
		switch x := v.(type) {
		case *ssa.UnOp:
			if x.Op == token.MUL {
				if al, ok := x.X.(*ssa.Alloc); ok && !isStructType(al.Type().(*types.Pointer).Elem()) {
					if s := singleStore(al); s != nil {
						v = s
						continue
					}
				}
				// a field of a local struct built only to carry values (rttFold{minRTT: c, ...}): what was stored into it
				if fa, ok := x.X.(*ssa.FieldAddr); ok && curProg != nil && !inCarrierLookup {
					if al, isAlloc := fa.X.(*ssa.Alloc); isAlloc && (!al.Heap || allocStaysLocal(al)) {
						inCarrierLookup = true
						val, _, ok := curProg.carriedField(fa.X, fa.Field, nil, 0)
						inCarrierLookup = false
						if ok && val != nil {
							v = val
							continue
						}
					}
				}
			}
			return v
		case *ssa.Field:
			localCarrier := false
			if u, ok := x.X.(*ssa.UnOp); ok && u.Op == token.MUL {
				if al, ok := u.X.(*ssa.Alloc); ok && (!al.Heap || allocStaysLocal(al)) {
					localCarrier = true
				}
			}
			if curProg != nil && !inCarrierLookup && localCarrier {
				inCarrierLookup = true
				val, _, ok := curProg.carriedField(x.X, x.Field, nil, 0)
				inCarrierLookup = false
				if ok && val != nil {
					v = val
					continue
				}
			}
			return v
		case *ssa.ChangeType:
			v = x.X
		case *ssa.MakeInterface:
			v = x.X
		case *ssa.ChangeInterface:
			v = x.X
		case *ssa.Convert:
			if !widths {
				return v
			}
			if isIntegral(x.Type()) && isIntegral(x.X.Type()) {
				v = x.X
			} else {
				return v
			}
		default:
			return v
		}
	}
	return v
}

func isIntegral(t types.Type) bool {
	b, ok := t.Underlying().(*types.Basic)
	return ok && b.Info()&types.IsInteger != 0
}

func isFloat(t types.Type) bool {
	b, ok := t.Underlying().(*types.Basic)
	return ok && b.Info()&types.IsFloat != 0
}

func isNumeric(t types.Type) bool { return isIntegral(t) || isFloat(t) }

// constInt returns the integer value of a constant (possibly behind conversions).
func constInt(v ssa.Value) (int64, bool) {
	v = strip(v, true)
	if cv, ok := v.(*ssa.Convert); ok {
		v = cv.X
	}
	c, ok := v.(*ssa.Const)
	if !ok || c.Value == nil {
		return 0, false
	}
	switch c.Value.Kind() {
	case constant.Int:
		i, ok := constant.Int64Val(c.Value)
		return i, ok
	case constant.Float:
		f, _ := constant.Float64Val(c.Value)
		if f == float64(int64(f)) {
			return int64(f), true
		}
	}
	return 0, false
}

func constFloat(v ssa.Value) (float64, bool) {
	v = strip(v, true)
	if cv, ok := v.(*ssa.Convert); ok {
		v = cv.X
	}
	c, ok := v.(*ssa.Const)
	if !ok || c.Value == nil {
		return 0, false
	}
	switch c.Value.Kind() {
	case constant.Int, constant.Float:
		f, _ := constant.Float64Val(constant.ToFloat(c.Value))
		return f, true
	}
	return 0, false
}

func constBool(v ssa.Value) (bool, bool) {
	c, ok := v.(*ssa.Const)
	if !ok || c.Value == nil || c.Value.Kind() != constant.Bool {
		return false, false
	}
	return constant.BoolVal(c.Value), true
}

func isNilConst(v ssa.Value) bool {
	c, ok := v.(*ssa.Const)
	return ok && c.Value == nil
}

// phiCore: a value merged with nil constants only (x on the paths that produce it, nil on the others) is x whenever it
// is not nil; returns that x, or v itself.
func phiCore(v ssa.Value) ssa.Value {
	for i := 0; i < 8; i++ {
		v = strip(v, false)
		phi, ok := v.(*ssa.Phi)
		if !ok {
			return v
		}
		var core ssa.Value
		n := 0
		for _, e := range phi.Edges {
			e = strip(e, false)
			if isNilConst(e) || e == ssa.Value(phi) {
				continue
			}
			if core == nil || e != core {
				core = e
				n++
			}
		}
		if n != 1 {
			return v
		}
		v = core
	}
	return v
}

// ---------------------------------------------------------------- struct fields

// FieldRef identifies a struct field of a named type.
type FieldRef struct {
	Type  *types.Named
	Index int
	Name  string
}

func (f FieldRef) Valid() bool { return f.Type != nil }

func (p *Prog) FieldKey(f FieldRef) string {
	if f.Type == nil {
		return "?." + f.Name
	}
	return p.TypeKey(f.Type) + "." + f.Name
}

func derefNamed(t types.Type) *types.Named {
	if pt, ok := t.Underlying().(*types.Pointer); ok {
		t = pt.Elem()
	}
	nt, _ := t.(*types.Named)
	return nt
}

func isStructType(t types.Type) bool {
	_, ok := t.Underlying().(*types.Struct)
	return ok
}

func structOf(t types.Type) *types.Struct {
	if pt, ok := t.Underlying().(*types.Pointer); ok {
		t = pt.Elem()
	}
	st, _ := t.Underlying().(*types.Struct)
	return st
}

// fieldOfAddr returns the field identified by a FieldAddr / Field instruction.
func fieldOf(v ssa.Value) (FieldRef, ssa.Value, bool) {
	switch x := v.(type) {
	case *ssa.FieldAddr:
		st := structOf(x.X.Type())
		if st == nil {
			return FieldRef{}, nil, false
		}
		return FieldRef{Type: derefNamed(x.X.Type()), Index: x.Field, Name: st.Field(x.Field).Name()}, x.X, true
	case *ssa.Field:
		st := structOf(x.X.Type())
		if st == nil {
			return FieldRef{}, nil, false
		}
		return FieldRef{Type: derefNamed(x.X.Type()), Index: x.Field, Name: st.Field(x.Field).Name()}, x.X, true
	}
	return FieldRef{}, nil, false
}

// loadedField: if v is a load (UnOp *) of a struct field address — or a Field extraction — returns the field
// and the base object value.
func loadedField(v ssa.Value) (FieldRef, ssa.Value, bool) {
	if u, ok := v.(*ssa.UnOp); ok && u.Op == token.MUL {
		if fa, ok := u.X.(*ssa.FieldAddr); ok {
			return fieldOf(fa)
		}
		return FieldRef{}, nil, false
	}
	if f, ok := v.(*ssa.Field); ok {
		return fieldOf(f)
	}
	return FieldRef{}, nil, false
}

// FieldByName finds a field of a named struct type.
func FieldByName(nt *types.Named, name string) (FieldRef, bool) {
	st, ok := nt.Underlying().(*types.Struct)
	if !ok {
		return FieldRef{}, false
	}
	for i := 0; i < st.NumFields(); i++ {
		if st.Field(i).Name() == name {
			return FieldRef{Type: nt, Index: i, Name: name}, true
		}
	}
	return FieldRef{}, false
}

func sameField(a, b FieldRef) bool {
	return a.Type != nil && b.Type != nil && types.Identical(a.Type, b.Type) && a.Index == b.Index
}

// ---------------------------------------------------------------- access paths

// singleStore returns the only value ever stored into a local Alloc (the variable cell of a captured or
// address-taken local), or nil if there is not exactly one store (stores in closures through the captured
// cell count).
func singleStore(a *ssa.Alloc) ssa.Value {
	var val ssa.Value
	n := 0
	var visit func(v ssa.Value)
	visit = func(v ssa.Value) {
		refs := v.Referrers()
		if refs == nil {
			return
		}
		for _, r := range *refs {
			switch r := r.(type) {
			case *ssa.Store:
				if r.Addr == v {
					n++
					val = r.Val
				}
			case *ssa.MakeClosure:
				fn := r.Fn.(*ssa.Function)
				for i, b := range r.Bindings {
					if b == v && i < len(fn.FreeVars) {
						visit(fn.FreeVars[i])
					}
				}
			}
		}
	}
	visit(a)
	if n == 1 {
		return val
	}
	return nil
}

// closureBinding maps a FreeVar to the value bound in the (unique) MakeClosure of its function.
func closureBinding(fv *ssa.FreeVar) ssa.Value {
	fn := fv.Parent()
	par := fn.Parent()
	if par == nil {
		return nil
	}
	idx := -1
	for i, f := range fn.FreeVars {
		if f == fv {
			idx = i
		}
	}
	if idx < 0 {
		return nil
	}
	var found ssa.Value
	cnt := 0
	for _, b := range par.Blocks {
		for _, ins := range b.Instrs {
			if mc, ok := ins.(*ssa.MakeClosure); ok && mc.Fn == fn {
				cnt++
				if idx < len(mc.Bindings) {
					found = mc.Bindings[idx]
				}
			}
		}
	}
	if cnt == 1 {
		return found
	}
	return nil
}

// AP is an access path: a root value followed by field selections. Loads are implicit.
type AP struct {
	Root ssa.Value
	Sel  []string
	// Fields mirrors Sel with resolved field refs
	Fields []FieldRef
}

func rootName(v ssa.Value) string {
	switch x := v.(type) {
	case *ssa.Parameter:
		return x.Name()
	case *ssa.FreeVar:
		return x.Name()
	case *ssa.Global:
		return "global:" + x.Name()
	case *ssa.Alloc:
		if x.Comment != "" {
			return "new:" + x.Comment + "@" + x.Name()
		}
		return "new@" + x.Name()
	case *ssa.Const:
		return "const:" + x.String()
	case nil:
		return "<nil>"
	}
	return v.Name()
}

func (a AP) String() string {
	s := rootName(a.Root)
	for _, f := range a.Sel {
		s += "." + f
	}
	return s
}

// Parent returns the path without its last selector.
func (a AP) Parent() AP {
	if len(a.Sel) == 0 {
		return a
	}
	return AP{Root: a.Root, Sel: a.Sel[:len(a.Sel)-1], Fields: a.Fields[:len(a.Fields)-1]}
}

// AccessPath computes the access path of a value (an address or a loaded value; both map to the same path).
// Captured single-assignment cells and no-op conversions are looked through; inside closures, free variables
// are NOT resolved to the parent (the root stays the FreeVar) unless throughClosure is set.
func AccessPath(v ssa.Value) AP { return accessPath(v, false, 0) }

func AccessPathThroughClosures(v ssa.Value) AP { return accessPath(v, true, 0) }

func accessPath(v ssa.Value, thru bool, depth int) AP {
	if depth > 24 {
		return AP{Root: v}
	}
	v = strip(v, false)
	switch x := v.(type) {
	case *ssa.FieldAddr:
		base := accessPath(x.X, thru, depth+1)
		fr, _, _ := fieldOf(x)
		return AP{Root: base.Root, Sel: append(append([]string{}, base.Sel...), fr.Name), Fields: append(append([]FieldRef{}, base.Fields...), fr)}
	case *ssa.Field:
		base := accessPath(x.X, thru, depth+1)
		fr, _, _ := fieldOf(x)
		return AP{Root: base.Root, Sel: append(append([]string{}, base.Sel...), fr.Name), Fields: append(append([]FieldRef{}, base.Fields...), fr)}
	case *ssa.UnOp:
		if x.Op == token.MUL {
			switch y := x.X.(type) {
			case *ssa.Alloc:
				if s := singleStore(y); s != nil {
					return accessPath(s, thru, depth+1)
				}
				return AP{Root: y}
			case *ssa.FreeVar:
				// captured variable cell: *fv is the variable's value
				if _, isPtr := y.Type().(*types.Pointer); isPtr {
					if b := closureBinding(y); b != nil {
						if al, ok := b.(*ssa.Alloc); ok {
							if s := singleStore(al); s != nil {
								if thru {
									return accessPath(s, thru, depth+1)
								}
								// stay in the closure's frame: name the root by the free variable
								return AP{Root: y}
							}
						}
					}
				}
				return AP{Root: y}
			default:
				return accessPath(x.X, thru, depth+1)
			}
		}
	case *ssa.FreeVar:
		if thru {
			if b := closureBinding(x); b != nil {
				return accessPath(b, thru, depth+1)
			}
		}
		return AP{Root: x}
	case *ssa.Alloc:
		return AP{Root: x}
	}
	return AP{Root: v}
}

// ---------------------------------------------------------------- misc

func instrPos(ins ssa.Instruction) token.Pos {
	if ins == nil {
		return token.NoPos
	}
	if p := ins.Pos(); p.IsValid() {
		return p
	}
	// try operands
	for _, op := range ins.Operands(nil) {
		if op != nil && *op != nil {
			if i, ok := (*op).(ssa.Instruction); ok && i.Pos().IsValid() {
				return i.Pos()
			}
		}
	}
	return token.NoPos
}

func (p *Prog) At(ins ssa.Instruction) string {
	pos := instrPos(ins)
	if !pos.IsValid() && ins != nil && ins.Parent() != nil {
		return p.FuncPos(ins.Parent()) + "(func)"
	}
	return p.Pos(pos)
}

func valueString(v ssa.Value) string {
	if v == nil {
		return "<nil>"
	}
	switch x := v.(type) {
	case *ssa.Const:
		return x.String()
	case *ssa.Parameter:
		return "param " + x.Name()
	}
	if ins, ok := v.(ssa.Instruction); ok {
		return fmt.Sprintf("%s = %s", v.Name(), ins.String())
	}
	return v.Name()
}

// allInstrs iterates the instructions of a function in block order.
func allInstrs(f *ssa.Function, fn func(ins ssa.Instruction)) {
	for _, b := range f.Blocks {
		for _, ins := range b.Instrs {
			fn(ins)
		}
	}
}

// anonClosure: the function of a MakeClosure / Function value, unwrapped.
func (p *Prog) funcOfValue(v ssa.Value) *ssa.Function {
	v = strip(v, false)
	switch x := v.(type) {
	case *ssa.Function:
		return p.unwrap(x)
	case *ssa.MakeClosure:
		return p.unwrap(x.Fn.(*ssa.Function))
	}
	return nil
}

// boundReceiver returns the receiver bound in a bound-method closure value (strategy.GetLimit).
func boundReceiver(v ssa.Value) ssa.Value {
	v = strip(v, false)
	if mc, ok := v.(*ssa.MakeClosure); ok {
		fn := mc.Fn.(*ssa.Function)
		if strings.HasPrefix(fn.Synthetic, "bound method wrapper") && len(mc.Bindings) == 1 {
			return mc.Bindings[0]
		}
	}
	return nil
}

// globalConstFunc: the function an unexported package-level function variable holds for ever (assigned once, by the
// package initialiser; otherwise only loaded), or nil.
func (p *Prog) globalConstFunc(g *ssa.Global) *ssa.Function {
	if p.constFuncG == nil {
		p.constFuncG = map[*ssa.Global]*ssa.Function{}
	}
	if fn, ok := p.constFuncG[g]; ok {
		return fn
	}
	fn := ssa.GlobalFuncValue(g)
	p.constFuncG[g] = fn
	return fn
}

// fieldConstFunc: the one named function stored into a function-typed field by every writer, the field being written
// only while its object is under construction; nil otherwise.
func (p *Prog) fieldConstFunc(fr FieldRef) *ssa.Function {
	if fr.Type == nil {
		return nil
	}
	if p.constFuncF == nil {
		p.constFuncF = map[string]*ssa.Function{}
	}
	key := p.FieldKey(fr)
	if fn, ok := p.constFuncF[key]; ok {
		return fn
	}
	p.constFuncF[key] = nil
	st := structOf(fr.Type)
	if st == nil || fr.Index >= st.NumFields() {
		return nil
	}
	if _, isSig := st.Field(fr.Index).Type().Underlying().(*types.Signature); !isSig || !p.FieldImmutable(fr) {
		return nil
	}
	var val *ssa.Function
	n := 0
	for _, f := range p.Funcs {
		for _, b := range f.Blocks {
			for _, ins := range b.Instrs {
				sto, ok := ins.(*ssa.Store)
				if !ok {
					continue
				}
				fa, ok := sto.Addr.(*ssa.FieldAddr)
				if !ok || fa.Field != fr.Index {
					continue
				}
				if f2, _, ok := fieldOf(fa); !ok || !sameField(f2, fr) {
					continue
				}
				n++
				fv, isF := sto.Val.(*ssa.Function)
				if !isF || (val != nil && val != fv) {
					return nil
				}
				val = fv
			}
		}
	}
	if n == 0 {
		return nil
	}
	p.constFuncF[key] = val
	return val
}

// constFuncOf: the named function a value denotes - a function constant, or a load of a location that holds one
// function for ever (globalConstFunc / fieldConstFunc); nil otherwise.
func (p *Prog) constFuncOf(v ssa.Value) *ssa.Function {
	v = strip(v, false)
	switch x := v.(type) {
	case *ssa.Function:
		return x
	case *ssa.UnOp:
		if x.Op != token.MUL {
			return nil
		}
		switch a := x.X.(type) {
		case *ssa.Global:
			return p.globalConstFunc(a)
		case *ssa.FieldAddr:
			if fr, _, ok := fieldOf(a); ok {
				return p.fieldConstFunc(fr)
			}
		}
	}
	return nil
}
