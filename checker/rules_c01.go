package main

import (
	"fmt"
	"go/token"
	"go/types"
	"strings"

	"gclverify/xt/ssa"
)

func init() {
	register("C01", &ruleSet{
		run:    runC01,
		floors: map[string]int{"O1": 2, "O2": 4, "O3": 2, "O4": 4, "O5": 2, "O6": 7, "O7": 1, "O8": 2, "O9": 2},
		explain: "Decides the premises from which the atomic-gate property follows by the short paper argument in DESIGN.md (releases only lower the counter; acquires and " +
			"limit changes are serialised; the decision compares counter and limit in the right direction; the limit never drops below 1): (O1) every call of Strategy.TryAcquire " +
			"and every post-construction call of Strategy.SetLimit inside a limiter holds that limiter's mutex exclusively; (O2) in each non-partitioned strategy every granting " +
			"path increments the in-flight counter by exactly 1 exactly once, refusing paths do not write it, the release function stored in the token (resolved through bound " +
			"methods and closure factories) decrements that same counter by exactly 1 exactly once, and the counter has no other writer; (O3) the grant edge implies " +
			"counter < limit and the refuse edge counter >= limit, both operands being the strategy's own counter and limit read in one critical section / atomic snapshot; " +
			"(O4) every store of a non-partitioned strategy's limit is proved >= 1; (O5) TryAcquire returns an acquired token with true or a not-acquired token with false. " +
			"The linearisation argument itself is on paper; int32 truncation of limits >= 2^31 and deliberate sharing of one strategy between limiters are not covered.",
	})
}

type c01Strat struct {
	T       *types.Named
	Try     *ssa.Function
	Set     *ssa.Function
	Cnt     FieldRef
	Lim     FieldRef
	Pointee bool // counter lives behind a pointer field and is accessed atomically
}

func c01Discover(p *Prog, l *Ledger) []*c01Strat {
	var out []*c01Strat
	for _, T := range p.Implementers(p.coreIface("Strategy")) {
		try, set := p.Method(T, "TryAcquire"), p.Method(T, "SetLimit")
		if try == nil || set == nil {
			continue
		}
		partitioned := false
		allInstrs(try, func(ins ssa.Instruction) {
			if call, ok := ins.(*ssa.Call); ok {
				c := p.CallOf(call)
				if c.Static != nil && c.Recv != nil && c.Static.Name() == "Acquire" && p.InPkg(c.Static, "strategy") {
					partitioned = true
				}
			}
		})
		if partitioned {
			continue
		}
		s := &c01Strat{T: T, Try: try, Set: set}
		allInstrs(try, func(ins ssa.Instruction) {
			if d, ok := p.DeltaOf(ins); ok && types.Identical(d.Field.Type, T) && d.By == 1 {
				s.Cnt, s.Pointee = d.Field, d.Pointee
			}
		})
		for _, a := range p.Accesses(set) {
			if a.Write && types.Identical(a.Field.Type, T) {
				s.Lim = a.Field
			}
		}
		if !s.Cnt.Valid() || !s.Lim.Valid() {
			l.Infra("%s: cannot identify the in-flight counter / limit field", p.TypeKey(T))
			continue
		}
		out = append(out, s)
	}
	return out
}

// c01IsField: v reads field f of the object rooted at recv (plain load, or atomic load of the pointee).
func c01IsField(p *Prog, v ssa.Value, f FieldRef, recv ssa.Value) bool {
	v = strip(v, true)
	if cv, ok := v.(*ssa.Convert); ok {
		v = strip(cv.X, true)
	}
	if fr, base, ok := loadedField(v); ok && sameField(fr, f) && AccessPath(base).Root == recv {
		return true
	}
	if call, ok := v.(*ssa.Call); ok {
		c := p.CallOf(call)
		if atomicOpOf(c.Name) == "Load" && len(c.Args) == 1 {
			if fr, base, ok := fieldPointerLoad(c.Args[0]); ok && sameField(fr, f) && AccessPath(base).Root == recv {
				return true
			}
			if fa, ok := c.Args[0].(*ssa.FieldAddr); ok {
				if fr, base, _ := fieldOf(fa); sameField(fr, f) && AccessPath(base).Root == recv {
					return true
				}
			}
		}
	}
	return false
}

func runC01(p *Prog, l *Ledger) {
	l.Rule("O1", "serialisation: Strategy.TryAcquire and post-construction Strategy.SetLimit are called under the limiter's exclusive mutex")
	l.Rule("O2", "counter discipline: grant = counter +1 exactly once; refusal writes nothing; the token's release function does -1 exactly once on the same counter; no other writer")
	l.Rule("O3", "comparator direction: grant edge implies counter < limit, refuse edge counter >= limit, on the strategy's own counter and limit")
	l.Rule("O4", "floor: every store of a non-partitioned strategy's limit is proved >= 1")
	l.Rule("O5", "result contract: TryAcquire returns (acquired token, true) or (not-acquired token, false)")
	l.Rule("O7", "the limiter's answer is the gate's: every return of a limiter function that asks its strategy comes after Strategy.TryAcquire, and it refuses only on that call's refusing edge")
	l.Rule("O8", "the gate's counter and limit are accessed under one discipline (decided by the C17/O1 rule on the same tree): all atomic, or all under the strategy's mutex - a release that decrements atomically while the grant increments under the mutex loses updates")
	importObligations(p, l, "C17", "O8", func(o *Obligation) bool {
		return o.Rule == "O1" && (strings.Contains(o.Key, "strategy.SimpleStrategy.") || strings.Contains(o.Key, "strategy.PreciseStrategy."))
	})
	l.Rule("O9", "the limit the gate enforces is the algorithm's (decided by the C05/O1 and O2 rules on the same tree): the constructor hands the initial estimate to the strategy, and every window update hands it the new one under the limiter's lock")
	importObligations(p, l, "C05", "O9", func(o *Obligation) bool { return o.Rule == "O1" || o.Rule == "O2" })
	l.Rule("O6", "conservation prerequisites (decided by the C02 rules on the same tree): a token granted to the default limiter is handed to the returned listener or released on every path; every listener outcome releases it exactly once")
	l.NotCovered = []string{"the linearisation argument is on paper (DESIGN.md 5/C01)", "int32 truncation of limits >= 2^31", "over-admission by design when several limiters share one strategy object"}
	locks := p.Locksets()
	importObligations(p, l, "C02", "O6", func(o *Obligation) bool {
		return o.Rule == "O1" || o.Rule == "O6" || o.Rule == "O7" || (o.Rule == "O3" && strings.Contains(o.Key, "limiter.DefaultLimiter"))
	})

	// ---------------- O1
	n1 := 0
	for _, f := range p.Funcs {
		if !p.InPkg(f, "limiter") {
			continue
		}
		idx := 0
		allInstrs(f, func(ins ssa.Instruction) {
			call, ok := ins.(*ssa.Call)
			if !ok {
				return
			}
			c := p.CallOf(call)
			which := ""
			switch {
			case p.callsRoleMethod(c, "Strategy", "TryAcquire"):
				which = "TryAcquire"
			case p.callsRoleMethod(c, "Strategy", "SetLimit"):
				which = "SetLimit"
			default:
				return
			}
			fr, base, ok := loadedField(strip(c.Recv, false))
			if !ok {
				// parameter (constructor): the object is not shared yet
				if _, isP := strip(c.Recv, false).(*ssa.Parameter); isP && which == "SetLimit" {
					return
				}
				l.Bad("O1", fmt.Sprintf("%s/%s#?", p.Key(f), which), p.At(ins), "strategy is not the limiter's own strategy field: "+valueString(c.Recv))
				return
			}
			idx++
			n1++
			key := fmt.Sprintf("%s/%s#%d", p.Key(f), which, idx)
			held := locks.Held(ins)
			bap := AccessPath(base).String()
			okLock := false
			for _, m := range mutexFields(fr.Type) {
				if ex, ok := held[bap+"."+m]; ok && ex {
					okLock = true
				}
			}
			l.Check(okLock, "O1", key, p.At(ins), fmt.Sprintf("%s.%s.%s runs under %s's exclusive mutex", bap, fr.Name, which, bap),
				fmt.Sprintf("%s on the limiter's strategy runs without the limiter's exclusive mutex (held: %s): check-then-increment of two callers, or a limit change, can interleave", which, held))
		})
	}
	if n1 == 0 {
		l.Infra("no Strategy.TryAcquire / SetLimit call site found in package limiter")
	}

	// ---------------- O7: the limiter's answer is the gate's answer
	for _, f := range p.Funcs {
		if !p.InPkg(f, "limiter") || f.Signature.Results().Len() != 2 {
			continue
		}
		if b, ok := f.Signature.Results().At(1).Type().Underlying().(*types.Basic); !ok || b.Kind() != types.Bool {
			continue
		}
		var tries []*ssa.Call
		allInstrs(f, func(ins ssa.Instruction) {
			if call, ok := ins.(*ssa.Call); ok && p.callsRoleMethod(p.CallOf(call), "Strategy", "TryAcquire") {
				tries = append(tries, call)
			}
		})
		if len(tries) == 0 {
			continue
		}
		var bad7 []string
		np := 0
		EnumPaths(f, 20000, func(pa *Path) bool {
			if !pa.IsReturn() {
				return true
			}
			np++
			var asked *ssa.Call
			for _, c := range tries {
				if pa.Contains(c) {
					asked = c
				}
			}
			rv := pa.ReturnValues()
			if asked == nil {
				bad7 = append(bad7, "a path answers without asking the strategy: "+joinWitness(p.DescribePath(pa)))
				return len(bad7) < 3
			}
			if b, isC := constBool(rv[1]); isC && !b {
				refused := false
				for _, fct := range pa.Facts {
					if ex, ok := fct.Cond.(*ssa.Extract); ok && ex.Tuple == ssa.Value(asked) && ex.Index == 1 && !fct.True {
						refused = true
					}
				}
				if !refused {
					refused = pa.HoldsRel(-1, func(r Rel) bool {
						ex, ok := strip(r.X, false).(*ssa.Extract)
						return ok && ex.Tuple == ssa.Value(asked) && ex.Index == 0 && isNilConst(r.Y) && r.Op == token.EQL
					})
				}
				if !refused {
					bad7 = append(bad7, "a path refuses although the strategy granted a token: "+joinWitness(p.DescribePath(pa)))
				}
			}
			return len(bad7) < 3
		})
		l.Check(len(bad7) == 0 && np > 0, "O7", p.Key(f), p.FuncPos(f), fmt.Sprintf("%d paths: every answer is given after Strategy.TryAcquire, and a refusal only on its refusing edge", np),
			"the limiter can refuse (or grant) without the gate's decision: a request is refused while capacity is free", bad7...)
	}

	for _, s := range c01Discover(p, l) {
		tk := p.TypeKey(s.T)
		recv := s.Try.Params[0]
		// ---------------- O2 + O3 + O5 on TryAcquire paths
		var bad2, bad3, bad5 []string
		npaths := 0
		var relVal ssa.Value
		EnumPaths(s.Try, 100000, func(pa *Path) bool {
			rv := pa.ReturnValues()
			if len(rv) != 2 {
				return true
			}
			npaths++
			granted, isB := constBool(strip(rv[1], false))
			if !isB {
				bad5 = append(bad5, "ok is not a constant on a path")
				return true
			}
			nd, sum := 0, int64(0)
			pa.Each(func(step int, ins ssa.Instruction) bool {
				if d, ok := p.DeltaOf(ins); ok && sameField(d.Field, s.Cnt) {
					nd++
					sum += d.By
				} else {
					for _, a := range []FieldAccess{} {
						_ = a
					}
				}
				return true
			})
			// any other write of the counter on the path
			for _, a := range p.Accesses(s.Try) {
				if a.Write && sameField(a.Field, s.Cnt) && pa.Contains(a.Instr) {
					if _, isD := p.DeltaOf(a.Instr); !isD {
						bad2 = append(bad2, fmt.Sprintf("%s: the counter is overwritten, not incremented", p.At(a.Instr)))
					}
				}
			}
			// comparator facts
			var rel token.Token
			for _, r := range pa.Rels(-1) {
				for _, rr := range []Rel{r, {X: r.Y, Y: r.X, Op: flipOp(r.Op)}} {
					if c01IsField(p, rr.X, s.Cnt, recv) && c01IsField(p, rr.Y, s.Lim, recv) {
						rel = rr.Op
					}
				}
			}
			tokCall, _ := strip(rv[0], false).(*ssa.Call)
			tokName := ""
			if tokCall != nil {
				if c := p.CallOf(tokCall); c.Static != nil {
					tokName = c.Static.Name()
				}
			}
			if granted {
				if nd != 1 || sum != 1 {
					bad2 = append(bad2, fmt.Sprintf("a granting path changes the counter %d times by %+d in sum (want once, +1): %s", nd, sum, joinWitness(p.DescribePath(pa))))
				}
				if rel != token.LSS {
					bad3 = append(bad3, fmt.Sprintf("a grant is decided on 'counter %s limit' (want counter < limit): %s", opOrNone(rel), joinWitness(p.DescribePath(pa))))
				}
				if !strings.Contains(tokName, "Acquired") || strings.Contains(tokName, "NotAcquired") {
					bad5 = append(bad5, "a granting path does not return an acquired token")
				} else {
					for _, a := range tokCall.Call.Args {
						if _, isSig := a.Type().Underlying().(*types.Signature); isSig {
							relVal = a
						}
					}
				}
			} else {
				if nd != 0 {
					bad2 = append(bad2, "a refusing path writes the counter: "+joinWitness(p.DescribePath(pa)))
				}
				if rel != token.GEQ {
					bad3 = append(bad3, fmt.Sprintf("a refusal is decided on 'counter %s limit' (want counter >= limit): %s", opOrNone(rel), joinWitness(p.DescribePath(pa))))
				}
				if !strings.Contains(tokName, "NotAcquired") {
					bad5 = append(bad5, "a refusing path does not return a not-acquired token")
				}
			}
			return len(bad2)+len(bad3)+len(bad5) < 6
		})
		l.Count("paths", npaths)
		l.Check(len(bad2) == 0 && npaths > 0, "O2", p.Key(s.Try), p.FuncPos(s.Try), fmt.Sprintf("%d paths; grants do %s +1 once, refusals do not write it", npaths, s.Cnt.Name), "the in-flight counter does not equal the number of outstanding tokens", bad2...)
		l.Check(len(bad3) == 0 && npaths > 0, "O3", p.Key(s.Try), p.FuncPos(s.Try), "grant iff counter < limit, refuse iff counter >= limit, on the strategy's own fields", "the admission comparison is wrong (off by one, inverted or on the wrong operands)", bad3...)
		l.Check(len(bad5) == 0 && npaths > 0, "O5", p.Key(s.Try), p.FuncPos(s.Try), "acquired token with true, not-acquired token with false", "TryAcquire's results disagree", bad5...)

		// release function
		if relVal == nil {
			l.Bad("O2", tk+"/release", p.FuncPos(s.Try), "cannot find the release function handed to the acquired token")
		} else if why := c01Release(p, s, relVal, recv); why != "" {
			l.Bad("O2", tk+"/release", p.At(valueInstr(strip(relVal, false))), "the token's release function does not give back exactly the unit that was taken: "+why)
		} else {
			l.OK("O2", tk+"/release", p.FuncPos(s.Try), "release function decrements the same counter by exactly 1 exactly once")
		}
		// who-may-write the counter
		{
			var bad []string
			n := 0
			relFns := c01ReleaseFuncs(p, relVal)
			for _, f := range p.Funcs {
				for _, a := range p.Accesses(f) {
					if a.Write && sameField(a.Field, s.Cnt) && (a.Pointee == s.Pointee) {
						n++
						if f == s.Try || freshBase(a) {
							continue
						}
						ok := false
						for _, rf := range relFns {
							if rf == f {
								ok = true
							}
						}
						if !ok {
							bad = append(bad, fmt.Sprintf("%s: counter written in %s", p.At(a.Instr), p.Key(f)))
						}
					}
				}
			}
			l.Check(len(bad) == 0, "O2", p.FieldKey(s.Cnt)+"/writers", p.FuncPos(s.Try), fmt.Sprintf("%d writers: TryAcquire and the release function", n), "the in-flight counter has a writer other than acquire/release", bad...)
		}
		// ---------------- O4 floor on every store of the limit
		for _, f := range p.Funcs {
			var sites []FieldAccess
			for _, a := range p.Accesses(f) {
				if a.Write && sameField(a.Field, s.Lim) {
					sites = append(sites, a)
				}
			}
			// pointer-valued limit field (SimpleStrategy): the initial value is what is stored into the cell the field points to
			if len(sites) == 0 {
				continue
			}
			key := p.Key(f) + "/limit-store"
			var bad []string
			n := 0
			EnumPaths(f, 200000, func(pa *Path) bool {
				if !pa.IsReturn() {
					return true
				}
				for _, a := range sites {
					st := pa.StepOf(a.Instr)
					if st < 0 {
						continue
					}
					n++
					v := a.Val
					if v == nil {
						continue
					}
					// &cell stored into a pointer field: prove the cell's initial value
					if al, ok := strip(v, false).(*ssa.Alloc); ok {
						if sv := singleStore(al); sv != nil {
							v = sv
						} else if refs := al.Referrers(); refs != nil {
							// a typed atomic cell (new(atomic.Int32)) initialised by its one Store
							var stored []ssa.Value
							for _, r := range *refs {
								if call, ok := r.(*ssa.Call); ok {
									if c := p.CallOf(call); atomicOpOf(c.Name) == "Store" && len(c.Args) == 2 && c.Args[0] == ssa.Value(al) {
										stored = append(stored, c.Args[1])
									}
								}
							}
							if len(stored) == 1 {
								v = stored[0]
							}
						}
					}
					pr := &prover{p: p, pa: pa, step: st}
					if !pr.GE(v, atomConst(1)) {
						bad = append(bad, fmt.Sprintf("%s: the stored limit is not proved >= 1 (%s) on %s", p.At(a.Instr), pr.why, joinWitness(p.DescribePath(pa))))
					}
				}
				return len(bad) < 2
			})
			l.Check(len(bad) == 0 && n > 0, "O4", key, p.FuncPos(f), fmt.Sprintf("%d (path, store) pairs; every stored limit is >= 1", n), "the enforced limit can drop below 1: nothing would ever be admitted", bad...)
		}
	}
}

func opOrNone(t token.Token) string {
	if t == token.ILLEGAL {
		return "(no comparison)"
	}
	return t.String()
}

// c01ReleaseFuncs: the functions that make up the release (bound method, closure, or the closure a factory returns).
func c01ReleaseFuncs(p *Prog, relVal ssa.Value) []*ssa.Function {
	if relVal == nil {
		return nil
	}
	if fn, _ := p.funcValueFrame(relVal, nil); fn != nil {
		return []*ssa.Function{fn}
	}
	return nil
}

// c01Release checks that the release value decrements the strategy's counter by 1 exactly once. The release may be a
// bound method of the strategy, a closure, a bound method of a small carrier struct or the closure returned by a
// factory: the counter it updates is named in TryAcquire's frame (frames.go) and must be recv.<counter>.
func c01Release(p *Prog, s *c01Strat, relVal ssa.Value, recv ssa.Value) string {
	fn, fr := p.funcValueFrame(relVal, nil)
	if fn == nil || fn.Blocks == nil {
		return "release function of unrecognised shape: " + valueString(strip(relVal, false))
	}
	why := ""
	n := 0
	EnumPaths(fn, 1000, func(pa *Path) bool {
		if !pa.IsReturn() {
			return true
		}
		n++
		cnt, sum := 0, int64(0)
		var others []string
		pa.Each(func(step int, ins ssa.Instruction) bool {
			d, ok := p.DeltaOf(ins)
			var target AP
			var by int64
			if ok {
				by = d.By
				if st, isStore := ins.(*ssa.Store); isStore {
					target = p.OuterAP(st.Addr, fr)
				} else {
					target = p.OuterAP(p.CallOf(ins).Args[0], fr)
				}
			} else if call, isCall := ins.(*ssa.Call); isCall {
				c := p.CallOf(call)
				if atomicOpOf(c.Name) != "Add" || len(c.Args) != 2 {
					return true
				}
				k, isC := constInt(c.Args[1])
				if !isC {
					others = append(others, fmt.Sprintf("%s: adds %s", p.At(ins), operandString(c.Args[1])))
					return true
				}
				by = k
				target = p.OuterAP(c.Args[0], fr)
			} else {
				return true
			}
			if target.Root == recv && len(target.Fields) == 1 && sameField(target.Fields[0], s.Cnt) {
				cnt++
				sum += by
			} else {
				others = append(others, fmt.Sprintf("%s: updates %s by %+d", p.At(ins), target.String(), by))
			}
			return true
		})
		if cnt != 1 || sum != -1 {
			why = fmt.Sprintf("%s changes the strategy's counter %d times by %+d in sum on a path (want once, -1)", p.Key(fn), cnt, sum)
			if len(others) > 0 {
				why += "; it " + strings.Join(others, "; ")
			}
			return false
		}
		return true
	})
	if n == 0 {
		return "release function has no returning path"
	}
	return why
}
