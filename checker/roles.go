package main

// Role discovery: which types are limits, strategies, limiters, listeners; which field is the estimate,
// the enforced limit, the in-flight counter. Roles come from interface satisfaction and from how the code
// uses a field, not from identifiers of locals.

import (
	"go/token"
	"go/types"

	"gclverify/xt/ssa"
)

func (p *Prog) coreNamed(name string) *types.Named { return p.Named("core", name) }

func (p *Prog) coreIface(name string) *types.Interface { return p.Iface("core", name) }

// fieldsOfType lists the fields of struct T whose declared type is identical to t.
func fieldsOfType(nt *types.Named, t types.Type) []FieldRef {
	st, ok := nt.Underlying().(*types.Struct)
	if !ok || t == nil {
		return nil
	}
	var out []FieldRef
	for i := 0; i < st.NumFields(); i++ {
		if types.Identical(st.Field(i).Type(), t) {
			out = append(out, FieldRef{Type: nt, Index: i, Name: st.Field(i).Name()})
		}
	}
	return out
}

// structTypes lists all named struct types declared in the given module-relative packages.
func (p *Prog) structTypes(pkgs ...string) []*types.Named {
	var out []*types.Named
	for _, rel := range pkgs {
		tp := p.TPkgs[rel]
		if tp == nil {
			continue
		}
		for _, n := range tp.Scope().Names() {
			tn, ok := tp.Scope().Lookup(n).(*types.TypeName)
			if !ok || tn.IsAlias() {
				continue
			}
			nt, ok := tn.Type().(*types.Named)
			if !ok {
				continue
			}
			if _, ok := nt.Underlying().(*types.Struct); ok {
				out = append(out, nt)
			}
		}
	}
	return out
}

// invokeOn: call is an invoke of interface method `method` of core interface `iface`.
func (p *Prog) isCoreInvoke(c *Call, iface, method string) bool {
	if c == nil || c.Iface == nil || c.Iface.Name() != method {
		return false
	}
	it := p.coreIface(iface)
	if it == nil {
		return false
	}
	rt := c.Recv.Type()
	// receiver's static type must be (or embed) the core interface
	if ri, ok := rt.Underlying().(*types.Interface); ok {
		if types.Identical(ri, it) {
			return true
		}
		// any interface that includes this method of core iface
		for i := 0; i < it.NumMethods(); i++ {
			if it.Method(i).Name() == method {
				ms := types.NewMethodSet(rt)
				for j := 0; j < ms.Len(); j++ {
					if ms.At(j).Obj().Name() == method && types.Identical(ms.At(j).Obj().Type(), it.Method(i).Type()) {
						return ri.NumMethods() >= 1 && types.Implements(rt, it)
					}
				}
			}
		}
	}
	return false
}

// callsMethod: the call targets method `name` — either an invoke of it on a value whose type implements
// core.<iface>, or a static call of a method of that name on a module type implementing the interface.
func (p *Prog) callsRoleMethod(c *Call, iface, name string) bool {
	if c == nil {
		return false
	}
	if p.isCoreInvoke(c, iface, name) {
		return true
	}
	if c.Static != nil && c.Static.Name() == name && c.Static.Signature.Recv() != nil {
		it := p.coreIface(iface)
		if it == nil {
			return false
		}
		rt := c.Static.Signature.Recv().Type()
		return types.Implements(rt, it) || types.Implements(types.NewPointer(rt), it)
	}
	return false
}

// EstimateInfo describes how a limit type stores and reports its estimate.
type EstimateInfo struct {
	Type     *types.Named
	Field    FieldRef
	Atomic   bool   // reported via sync/atomic load
	FloatInt bool   // field is float, reported as int(field)
	Delegate *FieldRef // wrapper: EstimatedLimit returns delegate.EstimatedLimit()
	Fn       *ssa.Function
}

// EstimateOf analyses T.EstimatedLimit.
func (p *Prog) EstimateOf(nt *types.Named) (*EstimateInfo, string) {
	fn := p.Method(nt, "EstimatedLimit")
	if fn == nil {
		return nil, "no EstimatedLimit method"
	}
	info := &EstimateInfo{Type: nt, Fn: fn}
	var rets []ssa.Value
	allInstrs(fn, func(ins ssa.Instruction) {
		if r, ok := ins.(*ssa.Return); ok && len(r.Results) == 1 {
			rets = append(rets, r.Results[0])
		}
	})
	if len(rets) == 0 {
		return nil, "EstimatedLimit has no return"
	}
	for _, r := range rets {
		v := strip(r, true)
		// resolve through the spilled result cell that defer introduces
		v = resolveLocalCell(v)
		v = strip(v, true)
		if cv, ok := v.(*ssa.Convert); ok {
			if isFloat(cv.X.Type()) && isIntegral(cv.Type()) {
				info.FloatInt = true
			}
			v = strip(cv.X, true)
		}
		if fr, _, ok := loadedField(v); ok && types.Identical(fr.Type, nt) {
			if info.Field.Valid() && !sameField(info.Field, fr) {
				return nil, "EstimatedLimit returns different fields on different paths"
			}
			info.Field = fr
			continue
		}
		if call, ok := v.(*ssa.Call); ok {
			c := p.CallOf(call)
			if atomicOpOf(c.Name) == "Load" && len(c.Args) == 1 {
				if fa, ok := c.Args[0].(*ssa.FieldAddr); ok {
					fr, _, _ := fieldOf(fa)
					info.Field = fr
					info.Atomic = true
					continue
				}
			}
			if p.isCoreInvoke(c, "Limit", "EstimatedLimit") {
				if fr, _, ok := loadedField(c.Recv); ok {
					f := fr
					info.Delegate = &f
					continue
				}
			}
		}
		return nil, "EstimatedLimit return value not recognised: " + valueString(v)
	}
	return info, ""
}

// resolveLocalCell: a load from a local Alloc with a single store resolves to the stored value.
func resolveLocalCell(v ssa.Value) ssa.Value {
	for i := 0; i < 8; i++ {
		u, ok := v.(*ssa.UnOp)
		if !ok || u.Op != token.MUL {
			return v
		}
		al, ok := u.X.(*ssa.Alloc)
		if !ok {
			return v
		}
		s := singleStore(al)
		if s == nil {
			return v
		}
		v = strip(s, false)
	}
	return v
}

// sameObjectField: value v is a load of field f of the object denoted by base AP string.
func loadOfFieldOn(v ssa.Value, f FieldRef, baseAP string) bool {
	fr, base, ok := loadedField(strip(v, false))
	if !ok || !sameField(fr, f) {
		return false
	}
	return AccessPath(base).String() == baseAP
}
