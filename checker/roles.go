package main

// Role discovery: which types are limits, strategies, limiters, listeners; which field is the estimate,
// the enforced limit, the in-flight counter. Roles come from interface satisfaction and from how the code
// uses a field, not from identifiers of locals.

import (
	"strings"
	"fmt"
	"go/token"
	"go/types"

	"gclverify/xt/ssa"
)

func (p *Prog) coreNamed(name string) *types.Named { return p.Named("core", name) }

func (p *Prog) coreIface(name string) *types.Interface { return p.Iface("core", name) }

// fieldsOfType lists the fields of struct T whose declared type is identical to t.
func fieldsOfType(nt *types.Named, t types.Type) []FieldRef {
	st, ok := nt.Underlying().(*types.Struct)
	if !ok || t == nil {
		return nil
	}
	var out []FieldRef
	for i := 0; i < st.NumFields(); i++ {
		if types.Identical(st.Field(i).Type(), t) {
			out = append(out, FieldRef{Type: nt, Index: i, Name: st.Field(i).Name()})
		}
	}
	return out
}

// structTypes lists all named struct types declared in the given module-relative packages.
func (p *Prog) structTypes(pkgs ...string) []*types.Named {
	var out []*types.Named
	for _, rel := range pkgs {
		tp := p.TPkgs[rel]
		if tp == nil {
			continue
		}
		for _, n := range tp.Scope().Names() {
			tn, ok := tp.Scope().Lookup(n).(*types.TypeName)
			if !ok || tn.IsAlias() {
				continue
			}
			nt, ok := tn.Type().(*types.Named)
			if !ok {
				continue
			}
			if _, ok := nt.Underlying().(*types.Struct); ok {
				out = append(out, nt)
			}
		}
	}
	return out
}

// invokeOn: call is an invoke of interface method `method` of core interface `iface`.
func (p *Prog) isCoreInvoke(c *Call, iface, method string) bool {
	if c == nil || c.Iface == nil || c.Iface.Name() != method {
		return false
	}
	it := p.coreIface(iface)
	if it == nil {
		return false
	}
	rt := c.Recv.Type()
	// receiver's static type must be (or embed) the core interface
	if ri, ok := rt.Underlying().(*types.Interface); ok {
		if types.Identical(ri, it) {
			return true
		}
		// any interface that includes this method of core iface
		for i := 0; i < it.NumMethods(); i++ {
			if it.Method(i).Name() == method {
				ms := types.NewMethodSet(rt)
				for j := 0; j < ms.Len(); j++ {
					if ms.At(j).Obj().Name() == method && types.Identical(ms.At(j).Obj().Type(), it.Method(i).Type()) {
						return ri.NumMethods() >= 1 && types.Implements(rt, it)
					}
				}
			}
		}
	}
	return false
}

// callsMethod: the call targets method `name` — either an invoke of it on a value whose type implements
// core.<iface>, or a static call of a method of that name on a module type implementing the interface.
func (p *Prog) callsRoleMethod(c *Call, iface, name string) bool {
	if c == nil {
		return false
	}
	if p.isCoreInvoke(c, iface, name) {
		return true
	}
	if c.Static != nil && c.Static.Name() == name && c.Static.Signature.Recv() != nil {
		it := p.coreIface(iface)
		if it == nil {
			return false
		}
		rt := c.Static.Signature.Recv().Type()
		return types.Implements(rt, it) || types.Implements(types.NewPointer(rt), it)
	}
	return false
}

// EstimateInfo describes how a limit type stores and reports its estimate.
type EstimateInfo struct {
	Type     *types.Named
	Field    FieldRef
	Atomic   bool   // reported via sync/atomic load
	FloatInt bool   // field is float, reported as int(field)
	Delegate *FieldRef // wrapper: EstimatedLimit returns delegate.EstimatedLimit()
	Fn       *ssa.Function
	// Published: EstimatedLimit serves an atomically published copy (this field) of Field; every store of the copy is a
	// conversion of the value stored into Field by the same function
	Published *FieldRef
}

// EstimateOf analyses T.EstimatedLimit.
func (p *Prog) EstimateOf(nt *types.Named) (*EstimateInfo, string) {
	fn := p.Method(nt, "EstimatedLimit")
	if fn == nil {
		return nil, "no EstimatedLimit method"
	}
	info := &EstimateInfo{Type: nt, Fn: fn}
	var rets []ssa.Value
	allInstrs(fn, func(ins ssa.Instruction) {
		if r, ok := ins.(*ssa.Return); ok && len(r.Results) == 1 {
			rets = append(rets, r.Results[0])
		}
	})
	if len(rets) == 0 {
		return nil, "EstimatedLimit has no return"
	}
	for _, r := range rets {
		v := strip(r, true)
		// resolve through the spilled result cell that defer introduces
		v = resolveLocalCell(v)
		v = strip(v, true)
		if cv, ok := v.(*ssa.Convert); ok {
			if isFloat(cv.X.Type()) && isIntegral(cv.Type()) {
				info.FloatInt = true
			}
			v = strip(cv.X, true)
		}
		if fr, _, ok := loadedField(v); ok && types.Identical(fr.Type, nt) {
			if info.Field.Valid() && !sameField(info.Field, fr) {
				return nil, "EstimatedLimit returns different fields on different paths"
			}
			info.Field = fr
			continue
		}
		if call, ok := v.(*ssa.Call); ok {
			c := p.CallOf(call)
			if atomicOpOf(c.Name) == "Load" && len(c.Args) == 1 {
				if fa, ok := c.Args[0].(*ssa.FieldAddr); ok {
					fr, _, _ := fieldOf(fa)
					if src, ok := p.publishedCopyOf(nt, fr); ok {
						pub := fr
						info.Published = &pub
						info.Field = src
						info.FloatInt = isFloat(nt.Underlying().(*types.Struct).Field(src.Index).Type())
						continue
					}
					info.Field = fr
					info.Atomic = true
					continue
				}
			}
			if p.isCoreInvoke(c, "Limit", "EstimatedLimit") {
				if fr, _, ok := loadedField(c.Recv); ok {
					f := fr
					info.Delegate = &f
					continue
				}
			}
		}
		return nil, "EstimatedLimit return value not recognised: " + valueString(v)
	}
	return info, ""
}

// resolveLocalCell: a load from a local Alloc with a single store resolves to the stored value.
func resolveLocalCell(v ssa.Value) ssa.Value {
	for i := 0; i < 8; i++ {
		u, ok := v.(*ssa.UnOp)
		if !ok || u.Op != token.MUL {
			return v
		}
		al, ok := u.X.(*ssa.Alloc)
		if !ok {
			return v
		}
		s := singleStore(al)
		if s == nil {
			return v
		}
		v = strip(s, false)
	}
	return v
}

// sameObjectField: value v is a load of field f of the object denoted by base AP string.
func loadOfFieldOn(v ssa.Value, f FieldRef, baseAP string) bool {
	fr, base, ok := loadedField(strip(v, false))
	if !ok || !sameField(fr, f) {
		return false
	}
	return AccessPath(base).String() == baseAP
}

// storedAsGiven: every constructor of fr's type stores into fr exactly what it was given - one of its parameters (or a
// field of a configuration parameter), modulo conversions. A constant may replace it only on a path that established
// that the given value is negative. Returns the deviations.
func storedAsGiven(p *Prog, fr FieldRef) []string { return storedAsGivenD(p, fr, 0) }

func storedAsGivenD(p *Prog, fr FieldRef, depth int) []string {
	var bad []string
	n := 0
	for _, ctor := range p.Funcs {
		if p.PkgOf(ctor) == "" || strings.HasPrefix(p.PkgOf(ctor), "examples") {
			continue
		}
		for _, al := range p.allocsOf(ctor, fr.Type) {
			var stores []*ssa.Store
			allInstrs(ctor, func(ins ssa.Instruction) {
				if st, ok := ins.(*ssa.Store); ok {
					if fa, ok := st.Addr.(*ssa.FieldAddr); ok && fa.X == ssa.Value(al) && fa.Field == fr.Index {
						stores = append(stores, st)
					}
				}
			})
			for _, st := range stores {
				n++
				EnumPathsPrefix(ctor, st, 100000, func(pa *Path) bool {
					step := pa.StepOf(st)
					v := strip(pa.ResolveDeep(st.Val, step), true)
					for i := 0; i < 4; i++ {
						if cv, ok := v.(*ssa.Convert); ok {
							v = strip(pa.ResolveDeep(cv.X, step), true)
						}
					}
					// the same instant in another location is the same bound
					for i := 0; i < 3; i++ {
						if call, ok := v.(*ssa.Call); ok {
							if c := p.CallOf(call); c.Is("(time.Time).UTC", "(time.Time).Local", "(time.Time).In") && c.Recv != nil {
								v = strip(pa.ResolveDeep(c.Recv, step), true)
							}
						}
					}
					switch x := v.(type) {
					case *ssa.Parameter:
						return true
					case *ssa.UnOp:
						// a field of a configuration value handed in, or of the object this one is derived from (a listener
						// copying its limiter's setting): that field in turn holds what its constructor was given
						if f2, _, ok := loadedField(x); ok {
							if depth < 2 && f2.Type != nil && p.InPkgType(f2.Type) && p.FieldImmutable(f2) && len(p.allocSitesOf(f2.Type)) > 0 {
								bad = append(bad, storedAsGivenD(p, f2, depth+1)...)
							}
							return len(bad) < 2
						}
						if al2, ok := x.X.(*ssa.Alloc); ok {
							if _, isP := singleStore(al2).(*ssa.Parameter); isP {
								return true
							}
						}
					case *ssa.Const:
						neg := pa.HoldsRel(step+1, func(r Rel) bool {
							if _, isP := strip(r.X, true).(*ssa.Parameter); !isP {
								return false
							}
							k, isC := constInt(strip(r.Y, true))
							return isC && ((r.Op == token.LSS && k <= 0) || (r.Op == token.LEQ && k < 0))
						})
						if neg {
							return true
						}
						bad = append(bad, fmt.Sprintf("%s: %s stores the constant %s into %s on a path that has not established that the configured value is negative: a valid configured value is replaced (%s)", p.At(st), p.Key(ctor), valueString(x), fr.Name, joinWitness(p.DescribePath(pa))))
						return len(bad) < 2
					}
					bad = append(bad, fmt.Sprintf("%s: %s stores %s into %s, not the value it was given", p.At(st), p.Key(ctor), valueString(v), fr.Name))
					return len(bad) < 2
				})
			}
		}
	}
	if n == 0 {
		bad = append(bad, "no constructor stores "+fr.Name)
	}
	return bad
}

// InPkgType: the named type is declared in the module.
func (p *Prog) InPkgType(nt *types.Named) bool {
	return nt != nil && nt.Obj().Pkg() != nil && strings.HasPrefix(nt.Obj().Pkg().Path(), p.Mod)
}

// allocSitesOf: the module functions that allocate a value of the type.
func (p *Prog) allocSitesOf(nt *types.Named) []*ssa.Function {
	var out []*ssa.Function
	for _, f := range p.Funcs {
		if len(p.allocsOf(f, nt)) > 0 {
			out = append(out, f)
		}
	}
	return out
}

// publishedCopyOf: the atomically accessed field pub of nt is a published copy of another field of nt: every write of
// pub outside constructors-by-literal is an atomic store of (a conversion of) a value that the same function also
// stores, plainly, into one and the same other field src of the same object. Returns src.
func (p *Prog) publishedCopyOf(nt *types.Named, pub FieldRef) (FieldRef, bool) {
	var src FieldRef
	n := 0
	ok := true
	unconv := func(v ssa.Value) ssa.Value {
		for i := 0; i < 4; i++ {
			v = strip(v, true)
			if cv, isC := v.(*ssa.Convert); isC {
				v = cv.X
				continue
			}
			break
		}
		return strip(v, true)
	}
	for _, f := range p.Funcs {
		if !p.InModule(f) {
			continue
		}
		for _, a := range p.Accesses(f) {
			if !a.Write || !sameField(a.Field, pub) {
				continue
			}
			if !a.Atomic || a.AtomicOp != "Store" || a.Val == nil {
				return FieldRef{}, false
			}
			n++
			val := unconv(a.Val)
			found := false
			for _, b := range p.Accesses(f) {
				if !b.Write || b.Atomic || b.Pointee || sameField(b.Field, pub) || b.Field.Type == nil || !types.Identical(b.Field.Type, nt) || b.Val == nil {
					continue
				}
				if AccessPath(b.Base).String() != AccessPath(a.Base).String() {
					continue
				}
				if unconv(b.Val) == val {
					if src.Valid() && !sameField(src, b.Field) {
						ok = false
					}
					src = b.Field
					found = true
				}
			}
			// or the published value is a conversion of a load of src itself
			if !found {
				if fr, base, isL := loadedField(val); isL && fr.Type != nil && types.Identical(fr.Type, nt) && !sameField(fr, pub) && AccessPath(base).String() == AccessPath(a.Base).String() {
					if src.Valid() && !sameField(src, fr) {
						ok = false
					}
					src = fr
					found = true
				}
			}
			if !found {
				ok = false
			}
		}
	}
	if !ok || n == 0 || !src.Valid() {
		return FieldRef{}, false
	}
	return src, true
}
