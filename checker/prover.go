package main

// E4/E5 — a small bound prover over the values of one path, in real arithmetic (IEEE rounding and integer
// overflow are NOT modelled). It answers "a >= b" / "a > b" as proved (true) or unknown (false); unknown is
// never turned into "holds". Terms are SSA values, constants, or atoms naming the current value of a struct
// field. Knowledge comes from: constants; the branch facts of the path; axioms supplied by the rule (the
// configuration assumptions the property grants, listed in evidence); algebraic rules for math.Max/Min/Ceil/
// Floor/Sqrt/Abs, builtin min/max, module helper functions classified as min/max, conversions, + - * /, and
// the smoothing idiom (1-s)*x + s*y with 0 <= s <= 1.

import (
	"sort"
	"fmt"
	"go/token"
	"go/types"
	"math"
	"strings"

	"gclverify/xt/ssa"
)

type Term struct {
	V     ssa.Value
	F     *FieldRef // atom: value of the field (of the receiver object) — any load of it with no earlier store on the path
	C     *float64
	Label string // opaque atom
}

func atomField(f FieldRef) Term { g := f; return Term{F: &g} }
func atomConst(c float64) Term  { d := c; return Term{C: &d} }
func atomVal(v ssa.Value) Term  { return Term{V: v} }
func atomLabel(s string) Term   { return Term{Label: s} }

func (t Term) String() string {
	switch {
	case t.C != nil:
		return fmt.Sprintf("%g", *t.C)
	case t.F != nil:
		return "field " + t.F.Name
	case t.Label != "":
		return t.Label
	case t.V != nil:
		return operandString(t.V)
	}
	return "?"
}

type axiom struct {
	a, b   Term
	strict bool
}

type prover struct {
	p      *Prog
	pa     *Path
	step   int
	axioms []axiom
	why    string
	minmax map[*ssa.Function]string
	budget int
	used   []string // axioms actually used (for evidence)
	entry  []symFact // facts established by the single call site of an unexported helper (symbolic operands)
	fieldGE []fieldBound // invariants: every load of the field is >= K at any point
	symGE   []symBound   // assumptions: every value whose symbolic name starts with Prefix is >= K
	noFacts bool         // ignore the path's branch facts (used to refute a fact from axioms and invariants alone)
	axiomFn func(pr *prover, f *ssa.Function, pa *Path)
}

type fieldBound struct {
	F FieldRef
	K float64
}

type symBound struct {
	Prefix string
	K      float64
}

// symFact is a relation between symbolic operands ("p:rtt", "get(recv.rttNoLoad)", "f(recv.estimatedLimit)", "c:0").
type symFact struct {
	X, Y   string
	Op     token.Token
}

func (pr *prover) axiomLE(a, b Term) { pr.axioms = append(pr.axioms, axiom{b, a, false}) }
func (pr *prover) axiomGE(a, b Term) { pr.axioms = append(pr.axioms, axiom{a, b, false}) }
func (pr *prover) axiomGT(a, b Term) { pr.axioms = append(pr.axioms, axiom{a, b, true}) }

func (pr *prover) GE(v ssa.Value, b Term) bool {
	pr.budget = 4000
	pr.why = ""
	ok := pr.rel(atomVal(v), b, false, 0)
	if !ok && pr.why == "" {
		pr.why = fmt.Sprintf("cannot prove %s >= %s", operandString(pr.res(v)), b)
	}
	return ok
}

func (pr *prover) LE(v ssa.Value, b Term) bool {
	pr.budget = 4000
	pr.why = ""
	ok := pr.rel(b, atomVal(v), false, 0)
	if !ok && pr.why == "" {
		pr.why = fmt.Sprintf("cannot prove %s <= %s", operandString(pr.res(v)), b)
	}
	return ok
}

func (pr *prover) GT(v ssa.Value, b Term) bool {
	pr.budget = 4000
	pr.why = ""
	ok := pr.rel(atomVal(v), b, true, 0)
	if !ok && pr.why == "" {
		pr.why = fmt.Sprintf("cannot prove %s > %s", operandString(pr.res(v)), b)
	}
	return ok
}

func (pr *prover) TermGE(a, b Term) bool { pr.budget = 4000; return pr.rel(a, b, false, 0) }
func (pr *prover) TermGT(a, b Term) bool { pr.budget = 4000; return pr.rel(a, b, true, 0) }

// res resolves a value along the path (phis) and strips value-preserving wrappers.
func (pr *prover) res(v ssa.Value) ssa.Value {
	if v == nil {
		return nil
	}
	for i := 0; i < 8; i++ {
		if pr.pa != nil {
			v = pr.pa.ResolveDeep(v, pr.step)
		}
		v = strip(v, false)
		// store -> load forwarding: a load of a field that was stored earlier on the path (same object) is the stored value
		fw := pr.forward(v)
		if fw == nil {
			return v
		}
		v = fw
	}
	return v
}

// forward: if v is a load of a struct field and the path stored that field (same base object) before the load, the
// last such stored value; nil otherwise.
func (pr *prover) forward(v ssa.Value) ssa.Value {
	if pr.pa == nil {
		return nil
	}
	fr, base, ok := loadedField(v)
	if !ok {
		return nil
	}
	ld, _ := v.(ssa.Instruction)
	bap := AccessPath(base).String()
	var last ssa.Value
	pr.pa.Each(func(step int, ins ssa.Instruction) bool {
		if ins == ld {
			return false
		}
		if st, ok := ins.(*ssa.Store); ok {
			if fa, ok := st.Addr.(*ssa.FieldAddr); ok {
				if f2, b2, _ := fieldOf(fa); sameField(f2, fr) && AccessPath(b2).String() == bap {
					last = st.Val
				}
			}
		}
		return true
	})
	return last
}

// sym gives a value a symbolic name that is stable across functions, for the restricted class: parameters, loads of
// fields, zero-argument getter calls on field values (pure: Get / EstimatedLimit ...), builtin len of a package variable,
// numeric conversions of those, and constants. "" when the value is outside the class.
func (pr *prover) sym(v ssa.Value) string {
	v = pr.res(v)
	switch x := v.(type) {
	case *ssa.Const:
		if f, ok := constFloat(x); ok {
			return fmt.Sprintf("c:%g", f)
		}
	case *ssa.Parameter:
		return "p:" + x.Name()
	case *ssa.Convert:
		if in := pr.sym(x.X); in != "" {
			if isFloat(x.X.Type()) && isIntegral(x.Type()) {
				return "int(" + in + ")"
			}
			return in // int->float and width conversions preserve the value
		}
	case *ssa.UnOp:
		if fr, base, ok := loadedField(x); ok {
			return "f(" + AccessPath(base).String() + "." + fr.Name + ")"
		}
		if g, ok := x.X.(*ssa.Global); ok {
			return "g(" + g.Name() + ")"
		}
	case *ssa.Call:
		cc := x.Common()
		if cc.IsInvoke() && len(cc.Args) == 0 && (cc.Method.Name() == "Get" || cc.Method.Name() == "EstimatedLimit") {
			if in := pr.sym(cc.Value); in != "" {
				return cc.Method.Name() + "(" + in + ")"
			}
		}
		if b, ok := cc.Value.(*ssa.Builtin); ok && b.Name() == "len" && len(cc.Args) == 1 {
			if in := pr.sym(cc.Args[0]); in != "" {
				return "len(" + in + ")"
			}
		}
		// pure functions of nameable operands: builtin min / max, the math min / max / ceil / floor / sqrt family
		if name, args := pr.mathCall(x); name != "" && len(args) > 0 {
			var parts []string
			for _, a := range args {
				in := pr.sym(a)
				if in == "" {
					return ""
				}
				parts = append(parts, in)
			}
			if name == "min" || name == "max" {
				sort.Strings(parts)
			}
			return name + "(" + strings.Join(parts, ",") + ")"
		}
	case *ssa.BinOp:
		switch x.Op {
		case token.ADD, token.SUB, token.MUL, token.QUO:
			a, b := pr.sym(x.X), pr.sym(x.Y)
			if a != "" && b != "" {
				if (x.Op == token.ADD || x.Op == token.MUL) && b < a {
					a, b = b, a
				}
				return "(" + a + x.Op.String() + b + ")"
			}
		}
	}
	return ""
}

// norm turns value terms that are constants / recognisable field loads into canonical atoms.
func (pr *prover) norm(t Term) Term {
	if t.V == nil {
		return t
	}
	v := pr.res(t.V)
	if c, ok := v.(*ssa.Const); ok && c.Value != nil {
		if f, ok := constFloat(c); ok {
			return atomConst(f)
		}
	}
	return Term{V: v}
}

// isEntryLoadOf: v is a load of field f with no store to f earlier on the path.
func (pr *prover) isEntryLoadOf(v ssa.Value, f FieldRef) bool {
	fr, _, ok := loadedField(v)
	if !ok || !sameField(fr, f) {
		return false
	}
	if pr.pa == nil {
		return true
	}
	ld, _ := v.(ssa.Instruction)
	clean := true
	pr.pa.Each(func(step int, ins ssa.Instruction) bool {
		if ins == ld {
			return false
		}
		if st, ok := ins.(*ssa.Store); ok {
			if fa, ok := st.Addr.(*ssa.FieldAddr); ok {
				if f2, _, _ := fieldOf(fa); sameField(f2, f) {
					clean = false
					return false
				}
			}
		}
		return true
	})
	return clean
}

func (pr *prover) same(a, b Term) bool {
	a, b = pr.norm(a), pr.norm(b)
	switch {
	case a.C != nil && b.C != nil:
		return *a.C == *b.C
	case a.F != nil && b.F != nil:
		return sameField(*a.F, *b.F)
	case strings.HasPrefix(a.Label, "sym:") || strings.HasPrefix(b.Label, "sym:"):
		sa, sb := pr.symOfTerm(a), pr.symOfTerm(b)
		if sa == "" || sa != sb {
			return false
		}
		// a value named by a getter is only the same while nothing mutated the measurement before it in this function
		for _, t := range []Term{a, b} {
			if t.V != nil && strings.Contains(sa, "Get(") && pr.mutationBefore(pr.res(t.V)) {
				return false
			}
		}
		return true
	case a.Label != "" || b.Label != "":
		return a.Label == b.Label && a.V == nil && b.V == nil && a.F == nil && b.F == nil && a.C == nil && b.C == nil
	case a.V != nil && b.V != nil:
		if a.V == b.V {
			return true
		}
		if sa := pr.sym(a.V); sa != "" && sa == pr.sym(b.V) && !strings.HasPrefix(sa, "f(") {
			// pure getter calls / conversions / len of the same operand; plain field loads are handled below (entry loads)
			if !pr.mutatedBetween(a.V, b.V) {
				return true
			}
		}
		// two entry loads of the same field
		if fa, _, ok := loadedField(a.V); ok {
			if pr.isEntryLoadOf(a.V, fa) && pr.isEntryLoadOf(b.V, fa) {
				return true
			}
		}
		return false
	case a.V != nil && b.F != nil:
		return pr.isEntryLoadOf(a.V, *b.F)
	case a.F != nil && b.V != nil:
		return pr.isEntryLoadOf(b.V, *a.F)
	}
	return false
}

// mutatedBetween: between the two value-producing instructions on the path, a mutating call (Add / Reset / Update / a
// store to a field) touches the object a getter reads. Conservative: any such call or field store of interface /
// pointer type between them counts.
func (pr *prover) mutatedBetween(a, b ssa.Value) bool {
	if pr.pa == nil {
		return false
	}
	ia, _ := a.(ssa.Instruction)
	ib, _ := b.(ssa.Instruction)
	if ia == nil || ib == nil {
		return false
	}
	state := 0
	mutated := false
	pr.pa.Each(func(step int, ins ssa.Instruction) bool {
		if ins == ia || ins == ib {
			state++
			if state == 2 {
				return false
			}
			return true
		}
		if state == 1 {
			if call, ok := ins.(*ssa.Call); ok {
				cc := call.Common()
				if cc.IsInvoke() {
					switch cc.Method.Name() {
					case "Add", "Reset", "Update":
						mutated = true
					}
				}
			}
			if st, ok := ins.(*ssa.Store); ok {
				if _, ok := st.Addr.(*ssa.FieldAddr); ok {
					if _, isIface := st.Val.Type().Underlying().(*types.Interface); isIface {
						mutated = true
					}
				}
			}
		}
		return true
	})
	return mutated
}

func (pr *prover) isIntegerTerm(t Term) bool {
	t = pr.norm(t)
	switch {
	case t.C != nil:
		return *t.C == math.Trunc(*t.C)
	case t.F != nil:
		if st := structOf(t.F.Type); st != nil {
			return isIntegral(st.Field(t.F.Index).Type())
		}
	case t.V != nil:
		if isIntegral(t.V.Type()) {
			return true
		}
		if cv, ok := t.V.(*ssa.Convert); ok && isIntegral(cv.X.Type()) {
			return true
		}
	}
	return false
}

// mathCall: name of a recognised pure function and its arguments.
func (pr *prover) mathCall(v ssa.Value) (string, []ssa.Value) {
	call, ok := v.(*ssa.Call)
	if !ok {
		return "", nil
	}
	cc := call.Common()
	if b, ok := cc.Value.(*ssa.Builtin); ok {
		switch b.Name() {
		case "max", "min":
			return b.Name(), cc.Args
		}
		return "", nil
	}
	fn := cc.StaticCallee()
	if fn == nil {
		return "", nil
	}
	switch fn.String() {
	case "math.Max":
		return "max", cc.Args
	case "math.Min":
		return "min", cc.Args
	case "math.Ceil":
		return "ceil", cc.Args
	case "math.Floor", "math.Trunc":
		return "floor", cc.Args
	case "math.Sqrt":
		return "sqrt", cc.Args
	case "math.Abs":
		return "abs", cc.Args
	case "math.Round":
		return "round", cc.Args
	}
	if pr.p != nil && pr.p.InModule(fn) && len(fn.Params) == 2 && fn.Signature.Recv() == nil {
		if k := pr.classifyMinMax(fn); k != "" {
			return k, cc.Args
		}
	}
	return "", nil
}

// classifyMinMax recognises module helpers like minInt64(a,b) / max(a,b) from their bodies.
func (pr *prover) classifyMinMax(fn *ssa.Function) string {
	if pr.minmax == nil {
		pr.minmax = map[*ssa.Function]string{}
	}
	if k, ok := pr.minmax[fn]; ok {
		return k
	}
	pr.minmax[fn] = ""
	if len(fn.Blocks) == 0 || !types.Identical(fn.Params[0].Type(), fn.Params[1].Type()) || !isNumeric(fn.Params[0].Type()) {
		return ""
	}
	kind := ""
	ok := true
	n := 0
	EnumPaths(fn, 64, func(pa *Path) bool {
		rv := pa.ReturnValues()
		if len(rv) != 1 {
			ok = false
			return false
		}
		n++
		r := strip(rv[0], false)
		p0, p1 := ssa.Value(fn.Params[0]), ssa.Value(fn.Params[1])
		var other ssa.Value
		switch r {
		case p0:
			other = p1
		case p1:
			other = p0
		default:
			ok = false
			return false
		}
		le := pa.HoldsRel(-1, func(rr Rel) bool { return (rr.Op == token.LSS || rr.Op == token.LEQ) && rr.X == r && rr.Y == other })
		ge := pa.HoldsRel(-1, func(rr Rel) bool { return (rr.Op == token.GTR || rr.Op == token.GEQ) && rr.X == r && rr.Y == other })
		k := ""
		if le && !ge {
			k = "min"
		} else if ge && !le {
			k = "max"
		} else {
			ok = false
			return false
		}
		if kind != "" && kind != k {
			ok = false
			return false
		}
		kind = k
		return true
	})
	if !ok || n < 2 {
		kind = ""
	}
	pr.minmax[fn] = kind
	return kind
}

// convex matches (1-s)*x + s*y in any operand order and returns s, x, y.
func (pr *prover) convex(v ssa.Value) (s, x, y ssa.Value, ok bool) {
	add, isB := v.(*ssa.BinOp)
	if !isB || add.Op != token.ADD {
		return
	}
	l, okl := pr.res(add.X).(*ssa.BinOp)
	r, okr := pr.res(add.Y).(*ssa.BinOp)
	if !okl || !okr || l.Op != token.MUL || r.Op != token.MUL {
		return
	}
	// oneMinus(e) -> s if e == 1 - s
	oneMinus := func(e ssa.Value) ssa.Value {
		b, ok := pr.res(e).(*ssa.BinOp)
		if !ok || b.Op != token.SUB {
			return nil
		}
		if c, ok := constFloat(pr.res(b.X)); !ok || c != 1 {
			return nil
		}
		return pr.res(b.Y)
	}
	type fac struct{ w, val ssa.Value }
	split := func(m *ssa.BinOp) []fac { return []fac{{m.X, m.Y}, {m.Y, m.X}} }
	for _, lf := range split(l) {
		for _, rf := range split(r) {
			// left weight is (1-s), right weight is s
			if sv := oneMinus(lf.w); sv != nil && pr.same(atomVal(sv), atomVal(rf.w)) {
				return sv, pr.res(lf.val), pr.res(rf.val), true
			}
			if sv := oneMinus(rf.w); sv != nil && pr.same(atomVal(sv), atomVal(lf.w)) {
				return sv, pr.res(rf.val), pr.res(lf.val), true
			}
		}
	}
	return
}

func (pr *prover) zero() Term { return atomConst(0) }
func (pr *prover) one() Term  { return atomConst(1) }

// rel proves a >= b (or a > b when strict).
func (pr *prover) rel(a, b Term, strict bool, depth int) bool {
	pr.budget--
	if depth > 9 || pr.budget < 0 {
		return false
	}
	a, b = pr.norm(a), pr.norm(b)
	if !strict && pr.same(a, b) {
		return true
	}
	if a.C != nil && b.C != nil {
		if strict {
			return *a.C > *b.C
		}
		return *a.C >= *b.C
	}
	// +Inf / MaxInt constants
	// known relations: path facts and axioms.   x >= y (or >) with a ~ x: then need y >= b
	for _, k := range pr.known() {
		if pr.same(k.a, a) {
			if pr.same(k.b, b) && (k.strict || !strict) {
				return true
			}
			if depth < 5 && !pr.same(k.b, a) {
				if pr.rel(k.b, b, strict && !k.strict, depth+3) {
					return true
				}
			}
		}
		// with b ~ y and x >= y ... need a >= x
		if pr.same(k.b, b) && depth < 5 && !pr.same(k.a, b) {
			if pr.rel(a, k.a, strict && !k.strict, depth+3) {
				return true
			}
		}
	}
	// ---- invariants on a: field loads, symbolically named values
	if a.V != nil {
		if fr, _, ok := loadedField(a.V); ok {
			for _, fb := range pr.fieldGE {
				if sameField(fb.F, fr) && pr.rel(atomConst(fb.K), b, strict, depth+2) {
					return true
				}
			}
		}
		if sa := pr.sym(a.V); sa != "" {
			for _, sb := range pr.symGE {
				if strings.HasPrefix(sa, sb.Prefix) && pr.rel(atomConst(sb.K), b, strict, depth+2) {
					return true
				}
			}
		}
	} else if sa := pr.symOfTerm(a); sa != "" {
		for _, sb := range pr.symGE {
			if strings.HasPrefix(sa, sb.Prefix) && pr.rel(atomConst(sb.K), b, strict, depth+2) {
				return true
			}
		}
	}
	// a > 0  from  a >= 0 and a != 0
	if strict && pr.same(b, pr.zero()) && depth < 6 {
		if pr.neqZero(a) && pr.rel(a, b, false, depth+2) {
			return true
		}
	}
	// ---- decompose a (lower bounds of a)
	if a.V != nil {
		if pr.lower(a.V, b, strict, depth) {
			return true
		}
	}
	// ---- decompose b (upper bounds of b)
	if b.V != nil {
		if pr.upper(a, b.V, strict, depth) {
			return true
		}
	}
	return false
}

type knownRel struct {
	a, b   Term
	strict bool
}

func (pr *prover) known() []knownRel {
	var out []knownRel
	for _, ax := range pr.axioms {
		out = append(out, knownRel{ax.a, ax.b, ax.strict})
	}
	for _, e := range pr.entry {
		x, y := atomSym(e.X), atomSym(e.Y)
		switch e.Op {
		case token.GEQ:
			out = append(out, knownRel{x, y, false})
		case token.GTR:
			out = append(out, knownRel{x, y, true})
		case token.LEQ:
			out = append(out, knownRel{y, x, false})
		case token.LSS:
			out = append(out, knownRel{y, x, true})
		case token.EQL:
			out = append(out, knownRel{x, y, false}, knownRel{y, x, false})
		}
	}
	if pr.pa != nil && !pr.noFacts {
		for _, r := range pr.pa.Rels(pr.step + 1) {
			x, y := atomVal(r.X), atomVal(r.Y)
			// int(X) >= c  (c >= 0)  ==>  X >= c ;  likewise for '>'
			addF2I := func(a ssa.Value, b ssa.Value, strict bool) {
				if cv, ok := strip(pr.pa.Resolve(a, pr.step), false).(*ssa.Convert); ok && isFloat(cv.X.Type()) && isIntegral(cv.Type()) {
					out = append(out, knownRel{atomVal(cv.X), atomVal(b), false})
					_ = strict
				}
			}
			switch r.Op {
			case token.GEQ, token.GTR:
				addF2I(r.X, r.Y, r.Op == token.GTR)
			case token.LEQ, token.LSS:
				addF2I(r.Y, r.X, r.Op == token.LSS)
			}
			switch r.Op {
			case token.GEQ:
				out = append(out, knownRel{x, y, false})
			case token.GTR:
				out = append(out, knownRel{x, y, true})
			case token.LEQ:
				out = append(out, knownRel{y, x, false})
			case token.LSS:
				out = append(out, knownRel{y, x, true})
			case token.EQL:
				out = append(out, knownRel{x, y, false}, knownRel{y, x, false})
			}
		}
	}
	return out
}

// lower: prove v >= b by the structure of v.
func (pr *prover) lower(v ssa.Value, b Term, strict bool, depth int) bool {
	d := depth + 1
	switch x := v.(type) {
	case *ssa.Convert:
		from, to := x.X.Type(), x.Type()
		switch {
		case isFloat(from) && isIntegral(to):
			// truncation toward zero: int(y) >= b when y >= b and b is an integer (for y >= 0 or b <= 0 alike)
			return pr.isIntegerTerm(b) && !strict && pr.rel(atomVal(x.X), b, false, d)
		default:
			return pr.rel(atomVal(x.X), b, strict, d)
		}
	case *ssa.Call:
		name, args := pr.mathCall(x)
		switch name {
		case "max":
			for _, a := range args {
				if pr.rel(atomVal(a), b, strict, d) {
					return true
				}
			}
			return false
		case "min":
			for _, a := range args {
				if !pr.rel(atomVal(a), b, strict, d) {
					return false
				}
			}
			return len(args) > 0
		case "ceil":
			return pr.rel(atomVal(args[0]), b, strict, d)
		case "floor", "round":
			return !strict && pr.isIntegerTerm(b) && pr.rel(atomVal(args[0]), b, false, d)
		case "sqrt", "abs":
			if !strict && pr.rel(pr.zero(), b, false, d) {
				return true
			}
			if name == "abs" {
				return pr.rel(atomVal(args[0]), b, strict, d)
			}
			// sqrt(y) >= 1 when y >= 1
			if pr.rel(pr.one(), b, strict, d) && pr.rel(atomVal(args[0]), pr.one(), false, d) {
				return true
			}
		}
	case *ssa.BinOp:
		if _, xx, yy, ok := pr.convex(x); ok {
			if s, _, _, _ := pr.convex(x); pr.rel(atomVal(s), pr.zero(), false, d) && pr.rel(pr.one(), atomVal(s), false, d) {
				return pr.rel(atomVal(xx), b, strict, d) && pr.rel(atomVal(yy), b, strict, d)
			}
		}
		X, Y := atomVal(x.X), atomVal(x.Y)
		switch x.Op {
		case token.ADD:
			if pr.rel(X, b, strict, d) && pr.rel(Y, pr.zero(), false, d) {
				return true
			}
			if pr.rel(Y, b, strict, d) && pr.rel(X, pr.zero(), false, d) {
				return true
			}
			// strict via a positive addend
			if strict && ((pr.rel(X, b, false, d) && pr.rel(Y, pr.zero(), true, d)) || (pr.rel(Y, b, false, d) && pr.rel(X, pr.zero(), true, d))) {
				return true
			}
		case token.SUB:
			// x - y >= b  when  x >= b and y <= 0 ; or b == 0 and x >= y
			if pr.rel(X, b, strict, d) && pr.rel(pr.zero(), Y, false, d) {
				return true
			}
			if pr.same(b, pr.zero()) && pr.rel(X, Y, strict, d) {
				return true
			}
		case token.MUL:
			if pr.same(b, pr.zero()) && !strict {
				if pr.rel(X, pr.zero(), false, d) && pr.rel(Y, pr.zero(), false, d) {
					return true
				}
			}
			if strict && pr.same(b, pr.zero()) {
				if pr.rel(X, pr.zero(), true, d) && pr.rel(Y, pr.zero(), true, d) {
					return true
				}
			}
			// x*y >= b when x >= b >= 0 and y >= 1 (or symmetric)
			if pr.rel(b, pr.zero(), false, d) {
				if pr.rel(X, b, strict, d) && pr.rel(Y, pr.one(), false, d) {
					return true
				}
				if pr.rel(Y, b, strict, d) && pr.rel(X, pr.one(), false, d) {
					return true
				}
			}
		case token.QUO:
			if pr.same(b, pr.zero()) && !strict && pr.rel(X, pr.zero(), false, d) && pr.rel(Y, pr.zero(), true, d) {
				return true
			}
		}
	}
	return false
}

// upper: prove a >= w by the structure of w (upper bounds of w).
func (pr *prover) upper(a Term, w ssa.Value, strict bool, depth int) bool {
	d := depth + 1
	switch x := w.(type) {
	case *ssa.Convert:
		from, to := x.X.Type(), x.Type()
		if isFloat(from) && isIntegral(to) {
			// int(y) <= y for y >= 0
			return pr.rel(a, atomVal(x.X), strict, d) && pr.rel(atomVal(x.X), pr.zero(), false, d)
		}
		return pr.rel(a, atomVal(x.X), strict, d)
	case *ssa.Call:
		name, args := pr.mathCall(x)
		switch name {
		case "max":
			for _, y := range args {
				if !pr.rel(a, atomVal(y), strict, d) {
					return false
				}
			}
			return len(args) > 0
		case "min":
			for _, y := range args {
				if pr.rel(a, atomVal(y), strict, d) {
					return true
				}
			}
			return false
		case "floor":
			return pr.rel(a, atomVal(args[0]), strict, d)
		case "ceil", "round":
			// ceil(y) <= a when y <= a and a is integer-valued
			return !strict && pr.isIntegerTerm(a) && pr.rel(a, atomVal(args[0]), false, d)
		}
	case *ssa.BinOp:
		if s, xx, yy, ok := pr.convex(x); ok {
			if pr.rel(atomVal(s), pr.zero(), false, d) && pr.rel(pr.one(), atomVal(s), false, d) {
				return pr.rel(a, atomVal(xx), strict, d) && pr.rel(a, atomVal(yy), strict, d)
			}
		}
		X, Y := atomVal(x.X), atomVal(x.Y)
		switch x.Op {
		case token.SUB:
			// a >= x - y  when  a >= x and y >= 0
			if pr.rel(a, X, strict, d) && pr.rel(Y, pr.zero(), false, d) {
				return true
			}
			if strict && pr.rel(a, X, false, d) && pr.rel(Y, pr.zero(), true, d) {
				return true
			}
		case token.ADD:
			if pr.rel(a, X, strict, d) && pr.rel(pr.zero(), Y, false, d) {
				return true
			}
			if pr.rel(a, Y, strict, d) && pr.rel(pr.zero(), X, false, d) {
				return true
			}
		case token.MUL:
			// a >= x*y  when a >= x >= 0 and 0 <= y <= 1 (or symmetric)
			if pr.rel(a, X, strict, d) && pr.rel(X, pr.zero(), false, d) && pr.rel(Y, pr.zero(), false, d) && pr.rel(pr.one(), Y, false, d) {
				return true
			}
			if pr.rel(a, Y, strict, d) && pr.rel(Y, pr.zero(), false, d) && pr.rel(X, pr.zero(), false, d) && pr.rel(pr.one(), X, false, d) {
				return true
			}
		case token.QUO:
			// a >= x / y when a >= x >= 0 and y >= 1
			if pr.rel(a, X, strict, d) && pr.rel(X, pr.zero(), false, d) && pr.rel(Y, pr.one(), false, d) {
				return true
			}
		}
	}
	return false
}

// neqZero: an explicit "!= 0" fact (path or entry) exists for the term.
func (pr *prover) neqZero(a Term) bool {
	sa := pr.symOfTerm(a)
	if sa != "" {
		for _, e := range pr.entry {
			if e.Op == token.NEQ && ((e.X == sa && e.Y == "c:0") || (e.Y == sa && e.X == "c:0")) {
				return true
			}
		}
	}
	if pr.pa != nil {
		for _, rel := range pr.pa.Rels(pr.step + 1) {
			if rel.Op != token.NEQ {
				continue
			}
			if (pr.same(atomVal(rel.X), a) && pr.same(atomVal(rel.Y), pr.zero())) || (pr.same(atomVal(rel.Y), a) && pr.same(atomVal(rel.X), pr.zero())) {
				return true
			}
		}
	}
	return false
}

// NonZero proves v != 0.
func (pr *prover) NonZero(v ssa.Value) bool {
	pr.budget = 4000
	if pr.rel(atomVal(v), pr.zero(), true, 0) {
		return true
	}
	pr.budget = 4000
	if pr.rel(pr.zero(), atomVal(v), true, 0) {
		return true
	}
	// explicit != 0 fact established by the caller
	if sv := pr.sym(v); sv != "" {
		for _, e := range pr.entry {
			if e.Op == token.NEQ && ((e.X == sv && e.Y == "c:0") || (e.Y == sv && e.X == "c:0")) {
				return true
			}
		}
	}
	// explicit != 0 fact (width / int->float conversions keep zero-ness)
	unconv := func(w ssa.Value) ssa.Value {
		r := pr.res(w)
		for i := 0; i < 4; i++ {
			if cv, ok := r.(*ssa.Convert); ok && !(isFloat(cv.X.Type()) && isIntegral(cv.Type())) {
				r = pr.res(cv.X)
			}
		}
		return r
	}
	r := unconv(v)
	if pr.pa != nil {
		for _, rel := range pr.pa.Rels(pr.step + 1) {
			if rel.Op != token.NEQ {
				continue
			}
			rx, ry := unconv(rel.X), unconv(rel.Y)
			if (pr.same(atomVal(rx), atomVal(r)) && pr.same(atomVal(rel.Y), pr.zero())) || (pr.same(atomVal(ry), atomVal(r)) && pr.same(atomVal(rel.X), pr.zero())) {
				return true
			}
		}
	}
	return false
}

// Infeasible reports whether some branch fact of the path is refuted by the axioms and invariants alone (the path
// cannot be executed under the stated assumptions).
func (pr *prover) Infeasible() bool {
	if pr.pa == nil {
		return false
	}
	q := *pr
	q.noFacts = true
	for _, r := range pr.pa.Rels(pr.step + 1) {
		x, y := atomVal(r.X), atomVal(r.Y)
		q.budget = 2000
		switch r.Op {
		case token.GEQ: // refute with y > x
			if q.rel(y, x, true, 0) {
				return true
			}
		case token.GTR:
			if q.rel(y, x, false, 0) {
				return true
			}
		case token.LEQ:
			if q.rel(x, y, true, 0) {
				return true
			}
		case token.LSS:
			if q.rel(x, y, false, 0) {
				return true
			}
		}
	}
	return false
}

// ---------------------------------------------------------------- symbolic atoms and entry facts

func atomSym(s string) Term {
	if strings.HasPrefix(s, "c:") {
		var f float64
		if _, err := fmt.Sscanf(s[2:], "%g", &f); err == nil {
			return atomConst(f)
		}
	}
	return Term{Label: "sym:" + s}
}

// symOfTerm: the symbolic name of a term ("" if none).
func (pr *prover) symOfTerm(t Term) string {
	switch {
	case strings.HasPrefix(t.Label, "sym:"):
		return t.Label[4:]
	case t.V != nil:
		return pr.sym(t.V)
	case t.C != nil:
		return fmt.Sprintf("c:%g", *t.C)
	}
	return ""
}

// mutationBefore: a mutating measurement call or an interface-typed field store occurs on the path before ins.
func (pr *prover) mutationBefore(v ssa.Value) bool {
	if pr.pa == nil {
		return false
	}
	target, _ := v.(ssa.Instruction)
	mutated := false
	pr.pa.Each(func(step int, ins ssa.Instruction) bool {
		if ins == target {
			return false
		}
		if call, ok := ins.(*ssa.Call); ok {
			cc := call.Common()
			if cc.IsInvoke() {
				switch cc.Method.Name() {
				case "Add", "Reset", "Update":
					mutated = true
				}
			}
		}
		return true
	})
	return mutated
}

// EntryFacts computes the relations that hold on entry to the unexported helper h: the intersection, over every path
// prefix of its single caller up to the call, of the branch facts whose operands are symbolically nameable and are not
// invalidated by a mutation between the test and the call. Operands are translated into h's parameter names.
func (p *Prog) EntryFacts(h *ssa.Function) []symFact {
	if isExportedFunc(h) || p.addrTaken[h] {
		return nil
	}
	li := p.Locksets()
	sites := li.sites[h]
	if len(sites) != 1 {
		return nil
	}
	site := sites[0]
	callIns := site.Instr.(ssa.Instruction)
	caller := callIns.Parent()
	// argument translation
	args := site.Instr.Common().Args
	var count map[string]int
	npaths := 0
	EnumPathsPrefix(caller, callIns, 50000, func(pa *Path) bool {
		npaths++
		pr := &prover{p: p, pa: pa, step: len(pa.Blocks) - 1}
		tr := map[string]string{}
		for i, prm := range h.Params {
			if i < len(args) {
				if sa := pr.sym(args[i]); sa != "" {
					tr[sa] = "p:" + prm.Name()
				}
				// receiver / pointer arguments: rename access-path roots inside f(...)
				ap := AccessPath(args[i]).String()
				tr["f("+ap+"."] = "f(" + prm.Name() + "."
			}
		}
		translate := func(s string) string {
			if t, ok := tr[s]; ok {
				return t
			}
			for k, v := range tr {
				if strings.HasSuffix(k, ".") && strings.Contains(s, k) {
					s = strings.ReplaceAll(s, k, v)
				}
			}
			return s
		}
		seen := map[string]bool{}
		for _, f := range pa.Facts {
			r, ok := relOf(f)
			if !ok {
				continue
			}
			sx, sy := pr.sym(r.X), pr.sym(r.Y)
			if sx == "" || sy == "" {
				continue
			}
			// no mutation between the test and the call
			mutated := false
			for i := f.Step + 1; i < len(pa.Blocks); i++ {
				for _, ins := range pa.Blocks[i].Instrs {
					if ins == callIns {
						break
					}
					if call, ok := ins.(*ssa.Call); ok && call.Common().IsInvoke() {
						switch call.Common().Method.Name() {
						case "Add", "Reset", "Update":
							mutated = true
						}
					}
				}
			}
			if mutated {
				continue
			}
			key := translate(sx) + "|" + r.Op.String() + "|" + translate(sy)
			seen[key] = true
		}
		if count == nil {
			count = map[string]int{}
		}
		for k := range seen {
			count[k]++
		}
		return true
	})
	var out []symFact
	for k, n := range count {
		if n != npaths {
			continue
		}
		parts := strings.Split(k, "|")
		var op token.Token
		switch parts[1] {
		case "<":
			op = token.LSS
		case "<=":
			op = token.LEQ
		case ">":
			op = token.GTR
		case ">=":
			op = token.GEQ
		case "==":
			op = token.EQL
		case "!=":
			op = token.NEQ
		}
		out = append(out, symFact{X: parts[0], Y: parts[2], Op: op})
	}
	return out
}

// ---------------------------------------------------------------- field invariants

// NonNegativeField: every store to the field anywhere in the module is a non-negative constant or old + positive
// constant (who-may-write induction), so the field is >= 0 in every reachable state.
func (p *Prog) NonNegativeField(f FieldRef) bool {
	n := 0
	for _, fn := range p.Funcs {
		for _, a := range p.Accesses(fn) {
			if !a.Write || !sameField(a.Field, f) || a.Pointee {
				continue
			}
			n++
			if d, ok := p.DeltaOf(a.Instr); ok && d.By >= 0 {
				continue
			}
			if a.Val != nil {
				if c, ok := constFloat(a.Val); ok && c >= 0 {
					continue
				}
			}
			return false
		}
	}
	return true
}

// ImmutableFieldGE: field f is never written after construction and every constructor path stores a value proved
// >= k (or <= k when le). When a constructor stores a raw parameter, every call site of that constructor in the module
// (non-test code) must prove the argument's bound instead.
func (p *Prog) ImmutableFieldBound(f FieldRef, k float64, le bool) bool {
	for _, fn := range p.Funcs {
		for _, a := range p.Accesses(fn) {
			if a.Write && sameField(a.Field, f) && !freshBase(a) {
				return false
			}
		}
	}
	ctors := p.Constructors(f.Type)
	if len(ctors) == 0 {
		// composite literals without constructor: zero value
		if le {
			return 0 <= k
		}
		return 0 >= k
	}
	check := func(pr *prover, v ssa.Value) bool {
		if le {
			return pr.LE(v, atomConst(k))
		}
		if pr.GE(v, atomConst(k)) {
			return true
		}
		// integers: x > k-1 is x >= k
		if st := structOf(f.Type); st != nil && f.Index < st.NumFields() && isIntegral(st.Field(f.Index).Type()) && k == math.Trunc(k) {
			return pr.GT(v, atomConst(k-1))
		}
		return false
	}
	for _, c := range ctors {
		al := p.allocOf(c, f.Type)
		vals := storesInto(al, f)
		if len(vals) == 0 {
			if (le && 0 > k) || (!le && 0 < k) {
				return false
			}
			continue
		}
		for _, v := range vals {
			st := valueStoreInstr(al, f, v)
			ok := true
			n := 0
			EnumPaths(c, 400000, func(pa *Path) bool {
				if !pa.IsReturn() || st == nil || !pa.Contains(st) {
					return true
				}
				n++
				pr := &prover{p: p, pa: pa, step: pa.StepOf(st)}
				if check(pr, v) {
					return true
				}
				// raw parameter: look at the module's call sites of this constructor
				if prm, isP := pr.res(v).(*ssa.Parameter); isP {
					if p.paramBoundAtCallSites(c, prm, k, le) {
						return true
					}
				}
				ok = false
				return false
			})
			if !ok || n == 0 {
				return false
			}
		}
	}
	return true
}

func valueStoreInstr(al *ssa.Alloc, f FieldRef, v ssa.Value) ssa.Instruction {
	refs := al.Referrers()
	if refs == nil {
		return nil
	}
	for _, r := range *refs {
		fa, ok := r.(*ssa.FieldAddr)
		if !ok || fa.Field != f.Index {
			continue
		}
		if fr := fa.Referrers(); fr != nil {
			for _, u := range *fr {
				if st, ok := u.(*ssa.Store); ok && st.Val == v {
					return st
				}
			}
		}
	}
	return nil
}

var callSiteAxioms func(p *Prog, pr *prover, f *ssa.Function, pa *Path)

func (p *Prog) paramBoundAtCallSites(c *ssa.Function, prm *ssa.Parameter, k float64, le bool) bool {
	if p.inCallSiteBound > 3 {
		return false
	}
	p.inCallSiteBound++
	defer func() { p.inCallSiteBound-- }()
	idx := -1
	for i, q := range c.Params {
		if q == prm {
			idx = i
		}
	}
	if idx < 0 {
		return false
	}
	sites := 0
	okAll := true
	for _, g := range p.Funcs {
		if strings.HasPrefix(p.PkgOf(g), "examples") {
			continue
		}
		allInstrs(g, func(ins ssa.Instruction) {
			call, ok := ins.(*ssa.Call)
			if !ok || p.CallOf(call).Static != c {
				return
			}
			sites++
			arg := call.Call.Args[idx]
			EnumPathsPrefix(g, call, 400000, func(pa *Path) bool {
				pr := &prover{p: p, pa: pa, step: len(pa.Blocks) - 1}
				if callSiteAxioms != nil {
					callSiteAxioms(p, pr, g, pa)
				}
				var ok bool
				if le {
					ok = pr.LE(arg, atomConst(k))
				} else {
					ok = pr.GE(arg, atomConst(k))
				}
				if !ok {
					okAll = false
				}
				return okAll
			})
		})
	}
	return sites > 0 && okAll
}
