package main

// E4/E5 — a small bound prover over the values of one path, in real arithmetic (IEEE rounding and integer
// overflow are NOT modelled). It answers "a >= b" / "a > b" as proved (true) or unknown (false); unknown is
// never turned into "holds". Terms are SSA values, constants, or atoms naming the current value of a struct
// field. Knowledge comes from: constants; the branch facts of the path; axioms supplied by the rule (the
// configuration assumptions the property grants, listed in evidence); algebraic rules for math.Max/Min/Ceil/
// Floor/Sqrt/Abs, builtin min/max, module helper functions classified as min/max, conversions, + - * /, and
// the smoothing idiom (1-s)*x + s*y with 0 <= s <= 1.

import (
	"fmt"
	"go/token"
	"go/types"
	"math"

	"golang.org/x/tools/go/ssa"
)

type Term struct {
	V     ssa.Value
	F     *FieldRef // atom: value of the field (of the receiver object) — any load of it with no earlier store on the path
	C     *float64
	Label string // opaque atom
}

func atomField(f FieldRef) Term { g := f; return Term{F: &g} }
func atomConst(c float64) Term  { d := c; return Term{C: &d} }
func atomVal(v ssa.Value) Term  { return Term{V: v} }
func atomLabel(s string) Term   { return Term{Label: s} }

func (t Term) String() string {
	switch {
	case t.C != nil:
		return fmt.Sprintf("%g", *t.C)
	case t.F != nil:
		return "field " + t.F.Name
	case t.Label != "":
		return t.Label
	case t.V != nil:
		return operandString(t.V)
	}
	return "?"
}

type axiom struct {
	a, b   Term
	strict bool
}

type prover struct {
	p      *Prog
	pa     *Path
	step   int
	axioms []axiom
	why    string
	minmax map[*ssa.Function]string
	budget int
	used   []string // axioms actually used (for evidence)
}

func (pr *prover) axiomLE(a, b Term) { pr.axioms = append(pr.axioms, axiom{b, a, false}) }
func (pr *prover) axiomGE(a, b Term) { pr.axioms = append(pr.axioms, axiom{a, b, false}) }
func (pr *prover) axiomGT(a, b Term) { pr.axioms = append(pr.axioms, axiom{a, b, true}) }

func (pr *prover) GE(v ssa.Value, b Term) bool {
	pr.budget = 4000
	pr.why = ""
	ok := pr.rel(atomVal(v), b, false, 0)
	if !ok && pr.why == "" {
		pr.why = fmt.Sprintf("cannot prove %s >= %s", operandString(pr.res(v)), b)
	}
	return ok
}

func (pr *prover) LE(v ssa.Value, b Term) bool {
	pr.budget = 4000
	pr.why = ""
	ok := pr.rel(b, atomVal(v), false, 0)
	if !ok && pr.why == "" {
		pr.why = fmt.Sprintf("cannot prove %s <= %s", operandString(pr.res(v)), b)
	}
	return ok
}

func (pr *prover) GT(v ssa.Value, b Term) bool {
	pr.budget = 4000
	pr.why = ""
	ok := pr.rel(atomVal(v), b, true, 0)
	if !ok && pr.why == "" {
		pr.why = fmt.Sprintf("cannot prove %s > %s", operandString(pr.res(v)), b)
	}
	return ok
}

func (pr *prover) TermGE(a, b Term) bool { pr.budget = 4000; return pr.rel(a, b, false, 0) }
func (pr *prover) TermGT(a, b Term) bool { pr.budget = 4000; return pr.rel(a, b, true, 0) }

// res resolves a value along the path (phis) and strips value-preserving wrappers.
func (pr *prover) res(v ssa.Value) ssa.Value {
	if v == nil {
		return nil
	}
	if pr.pa != nil {
		v = pr.pa.ResolveDeep(v, pr.step)
	}
	return strip(v, false)
}

// norm turns value terms that are constants / recognisable field loads into canonical atoms.
func (pr *prover) norm(t Term) Term {
	if t.V == nil {
		return t
	}
	v := pr.res(t.V)
	if c, ok := v.(*ssa.Const); ok && c.Value != nil {
		if f, ok := constFloat(c); ok {
			return atomConst(f)
		}
	}
	return Term{V: v}
}

// isEntryLoadOf: v is a load of field f with no store to f earlier on the path.
func (pr *prover) isEntryLoadOf(v ssa.Value, f FieldRef) bool {
	fr, _, ok := loadedField(v)
	if !ok || !sameField(fr, f) {
		return false
	}
	if pr.pa == nil {
		return true
	}
	ld, _ := v.(ssa.Instruction)
	clean := true
	pr.pa.Each(func(step int, ins ssa.Instruction) bool {
		if ins == ld {
			return false
		}
		if st, ok := ins.(*ssa.Store); ok {
			if fa, ok := st.Addr.(*ssa.FieldAddr); ok {
				if f2, _, _ := fieldOf(fa); sameField(f2, f) {
					clean = false
					return false
				}
			}
		}
		return true
	})
	return clean
}

func (pr *prover) same(a, b Term) bool {
	a, b = pr.norm(a), pr.norm(b)
	switch {
	case a.C != nil && b.C != nil:
		return *a.C == *b.C
	case a.F != nil && b.F != nil:
		return sameField(*a.F, *b.F)
	case a.Label != "" || b.Label != "":
		return a.Label == b.Label && a.V == nil && b.V == nil && a.F == nil && b.F == nil && a.C == nil && b.C == nil
	case a.V != nil && b.V != nil:
		if a.V == b.V {
			return true
		}
		// two entry loads of the same field
		if fa, _, ok := loadedField(a.V); ok {
			if pr.isEntryLoadOf(a.V, fa) && pr.isEntryLoadOf(b.V, fa) {
				return true
			}
		}
		return false
	case a.V != nil && b.F != nil:
		return pr.isEntryLoadOf(a.V, *b.F)
	case a.F != nil && b.V != nil:
		return pr.isEntryLoadOf(b.V, *a.F)
	}
	return false
}

func (pr *prover) isIntegerTerm(t Term) bool {
	t = pr.norm(t)
	switch {
	case t.C != nil:
		return *t.C == math.Trunc(*t.C)
	case t.F != nil:
		if st := structOf(t.F.Type); st != nil {
			return isIntegral(st.Field(t.F.Index).Type())
		}
	case t.V != nil:
		if isIntegral(t.V.Type()) {
			return true
		}
		if cv, ok := t.V.(*ssa.Convert); ok && isIntegral(cv.X.Type()) {
			return true
		}
	}
	return false
}

// mathCall: name of a recognised pure function and its arguments.
func (pr *prover) mathCall(v ssa.Value) (string, []ssa.Value) {
	call, ok := v.(*ssa.Call)
	if !ok {
		return "", nil
	}
	cc := call.Common()
	if b, ok := cc.Value.(*ssa.Builtin); ok {
		switch b.Name() {
		case "max", "min":
			return b.Name(), cc.Args
		}
		return "", nil
	}
	fn := cc.StaticCallee()
	if fn == nil {
		return "", nil
	}
	switch fn.String() {
	case "math.Max":
		return "max", cc.Args
	case "math.Min":
		return "min", cc.Args
	case "math.Ceil":
		return "ceil", cc.Args
	case "math.Floor", "math.Trunc":
		return "floor", cc.Args
	case "math.Sqrt":
		return "sqrt", cc.Args
	case "math.Abs":
		return "abs", cc.Args
	case "math.Round":
		return "round", cc.Args
	}
	if pr.p != nil && pr.p.InModule(fn) && len(fn.Params) == 2 && fn.Signature.Recv() == nil {
		if k := pr.classifyMinMax(fn); k != "" {
			return k, cc.Args
		}
	}
	return "", nil
}

// classifyMinMax recognises module helpers like minInt64(a,b) / max(a,b) from their bodies.
func (pr *prover) classifyMinMax(fn *ssa.Function) string {
	if pr.minmax == nil {
		pr.minmax = map[*ssa.Function]string{}
	}
	if k, ok := pr.minmax[fn]; ok {
		return k
	}
	pr.minmax[fn] = ""
	if len(fn.Blocks) == 0 || !types.Identical(fn.Params[0].Type(), fn.Params[1].Type()) || !isNumeric(fn.Params[0].Type()) {
		return ""
	}
	kind := ""
	ok := true
	n := 0
	EnumPaths(fn, 64, func(pa *Path) bool {
		rv := pa.ReturnValues()
		if len(rv) != 1 {
			ok = false
			return false
		}
		n++
		r := strip(rv[0], false)
		p0, p1 := ssa.Value(fn.Params[0]), ssa.Value(fn.Params[1])
		var other ssa.Value
		switch r {
		case p0:
			other = p1
		case p1:
			other = p0
		default:
			ok = false
			return false
		}
		le := pa.HoldsRel(-1, func(rr Rel) bool { return (rr.Op == token.LSS || rr.Op == token.LEQ) && rr.X == r && rr.Y == other })
		ge := pa.HoldsRel(-1, func(rr Rel) bool { return (rr.Op == token.GTR || rr.Op == token.GEQ) && rr.X == r && rr.Y == other })
		k := ""
		if le && !ge {
			k = "min"
		} else if ge && !le {
			k = "max"
		} else {
			ok = false
			return false
		}
		if kind != "" && kind != k {
			ok = false
			return false
		}
		kind = k
		return true
	})
	if !ok || n < 2 {
		kind = ""
	}
	pr.minmax[fn] = kind
	return kind
}

// convex matches (1-s)*x + s*y in any operand order and returns s, x, y.
func (pr *prover) convex(v ssa.Value) (s, x, y ssa.Value, ok bool) {
	add, isB := v.(*ssa.BinOp)
	if !isB || add.Op != token.ADD {
		return
	}
	l, okl := pr.res(add.X).(*ssa.BinOp)
	r, okr := pr.res(add.Y).(*ssa.BinOp)
	if !okl || !okr || l.Op != token.MUL || r.Op != token.MUL {
		return
	}
	// oneMinus(e) -> s if e == 1 - s
	oneMinus := func(e ssa.Value) ssa.Value {
		b, ok := pr.res(e).(*ssa.BinOp)
		if !ok || b.Op != token.SUB {
			return nil
		}
		if c, ok := constFloat(pr.res(b.X)); !ok || c != 1 {
			return nil
		}
		return pr.res(b.Y)
	}
	type fac struct{ w, val ssa.Value }
	split := func(m *ssa.BinOp) []fac { return []fac{{m.X, m.Y}, {m.Y, m.X}} }
	for _, lf := range split(l) {
		for _, rf := range split(r) {
			// left weight is (1-s), right weight is s
			if sv := oneMinus(lf.w); sv != nil && pr.same(atomVal(sv), atomVal(rf.w)) {
				return sv, pr.res(lf.val), pr.res(rf.val), true
			}
			if sv := oneMinus(rf.w); sv != nil && pr.same(atomVal(sv), atomVal(lf.w)) {
				return sv, pr.res(rf.val), pr.res(lf.val), true
			}
		}
	}
	return
}

func (pr *prover) zero() Term { return atomConst(0) }
func (pr *prover) one() Term  { return atomConst(1) }

// rel proves a >= b (or a > b when strict).
func (pr *prover) rel(a, b Term, strict bool, depth int) bool {
	pr.budget--
	if depth > 9 || pr.budget < 0 {
		return false
	}
	a, b = pr.norm(a), pr.norm(b)
	if !strict && pr.same(a, b) {
		return true
	}
	if a.C != nil && b.C != nil {
		if strict {
			return *a.C > *b.C
		}
		return *a.C >= *b.C
	}
	// +Inf / MaxInt constants
	// known relations: path facts and axioms.   x >= y (or >) with a ~ x: then need y >= b
	for _, k := range pr.known() {
		if pr.same(k.a, a) {
			if pr.same(k.b, b) && (k.strict || !strict) {
				return true
			}
			if depth < 5 && !pr.same(k.b, a) {
				if pr.rel(k.b, b, strict && !k.strict, depth+3) {
					return true
				}
			}
		}
		// with b ~ y and x >= y ... need a >= x
		if pr.same(k.b, b) && depth < 5 && !pr.same(k.a, b) {
			if pr.rel(a, k.a, strict && !k.strict, depth+3) {
				return true
			}
		}
	}
	// ---- decompose a (lower bounds of a)
	if a.V != nil {
		if pr.lower(a.V, b, strict, depth) {
			return true
		}
	}
	// ---- decompose b (upper bounds of b)
	if b.V != nil {
		if pr.upper(a, b.V, strict, depth) {
			return true
		}
	}
	return false
}

type knownRel struct {
	a, b   Term
	strict bool
}

func (pr *prover) known() []knownRel {
	var out []knownRel
	for _, ax := range pr.axioms {
		out = append(out, knownRel{ax.a, ax.b, ax.strict})
	}
	if pr.pa != nil {
		for _, r := range pr.pa.Rels(pr.step + 1) {
			x, y := atomVal(r.X), atomVal(r.Y)
			switch r.Op {
			case token.GEQ:
				out = append(out, knownRel{x, y, false})
			case token.GTR:
				out = append(out, knownRel{x, y, true})
			case token.LEQ:
				out = append(out, knownRel{y, x, false})
			case token.LSS:
				out = append(out, knownRel{y, x, true})
			case token.EQL:
				out = append(out, knownRel{x, y, false}, knownRel{y, x, false})
			}
		}
	}
	return out
}

// lower: prove v >= b by the structure of v.
func (pr *prover) lower(v ssa.Value, b Term, strict bool, depth int) bool {
	d := depth + 1
	switch x := v.(type) {
	case *ssa.Convert:
		from, to := x.X.Type(), x.Type()
		switch {
		case isFloat(from) && isIntegral(to):
			// truncation toward zero: int(y) >= b when y >= b and b is an integer (for y >= 0 or b <= 0 alike)
			return pr.isIntegerTerm(b) && !strict && pr.rel(atomVal(x.X), b, false, d)
		default:
			return pr.rel(atomVal(x.X), b, strict, d)
		}
	case *ssa.Call:
		name, args := pr.mathCall(x)
		switch name {
		case "max":
			for _, a := range args {
				if pr.rel(atomVal(a), b, strict, d) {
					return true
				}
			}
			return false
		case "min":
			for _, a := range args {
				if !pr.rel(atomVal(a), b, strict, d) {
					return false
				}
			}
			return len(args) > 0
		case "ceil":
			return pr.rel(atomVal(args[0]), b, strict, d)
		case "floor", "round":
			return !strict && pr.isIntegerTerm(b) && pr.rel(atomVal(args[0]), b, false, d)
		case "sqrt", "abs":
			if !strict && pr.rel(pr.zero(), b, false, d) {
				return true
			}
			if name == "abs" {
				return pr.rel(atomVal(args[0]), b, strict, d)
			}
			// sqrt(y) >= 1 when y >= 1
			if pr.rel(pr.one(), b, strict, d) && pr.rel(atomVal(args[0]), pr.one(), false, d) {
				return true
			}
		}
	case *ssa.BinOp:
		if _, xx, yy, ok := pr.convex(x); ok {
			if s, _, _, _ := pr.convex(x); pr.rel(atomVal(s), pr.zero(), false, d) && pr.rel(pr.one(), atomVal(s), false, d) {
				return pr.rel(atomVal(xx), b, strict, d) && pr.rel(atomVal(yy), b, strict, d)
			}
		}
		X, Y := atomVal(x.X), atomVal(x.Y)
		switch x.Op {
		case token.ADD:
			if pr.rel(X, b, strict, d) && pr.rel(Y, pr.zero(), false, d) {
				return true
			}
			if pr.rel(Y, b, strict, d) && pr.rel(X, pr.zero(), false, d) {
				return true
			}
			// strict via a positive addend
			if strict && ((pr.rel(X, b, false, d) && pr.rel(Y, pr.zero(), true, d)) || (pr.rel(Y, b, false, d) && pr.rel(X, pr.zero(), true, d))) {
				return true
			}
		case token.SUB:
			// x - y >= b  when  x >= b and y <= 0 ; or b == 0 and x >= y
			if pr.rel(X, b, strict, d) && pr.rel(pr.zero(), Y, false, d) {
				return true
			}
			if pr.same(b, pr.zero()) && pr.rel(X, Y, strict, d) {
				return true
			}
		case token.MUL:
			if pr.same(b, pr.zero()) && !strict {
				if pr.rel(X, pr.zero(), false, d) && pr.rel(Y, pr.zero(), false, d) {
					return true
				}
			}
			if strict && pr.same(b, pr.zero()) {
				if pr.rel(X, pr.zero(), true, d) && pr.rel(Y, pr.zero(), true, d) {
					return true
				}
			}
			// x*y >= b when x >= b >= 0 and y >= 1 (or symmetric)
			if pr.rel(b, pr.zero(), false, d) {
				if pr.rel(X, b, strict, d) && pr.rel(Y, pr.one(), false, d) {
					return true
				}
				if pr.rel(Y, b, strict, d) && pr.rel(X, pr.one(), false, d) {
					return true
				}
			}
		case token.QUO:
			if pr.same(b, pr.zero()) && !strict && pr.rel(X, pr.zero(), false, d) && pr.rel(Y, pr.zero(), true, d) {
				return true
			}
		}
	}
	return false
}

// upper: prove a >= w by the structure of w (upper bounds of w).
func (pr *prover) upper(a Term, w ssa.Value, strict bool, depth int) bool {
	d := depth + 1
	switch x := w.(type) {
	case *ssa.Convert:
		from, to := x.X.Type(), x.Type()
		if isFloat(from) && isIntegral(to) {
			// int(y) <= y for y >= 0
			return pr.rel(a, atomVal(x.X), strict, d) && pr.rel(atomVal(x.X), pr.zero(), false, d)
		}
		return pr.rel(a, atomVal(x.X), strict, d)
	case *ssa.Call:
		name, args := pr.mathCall(x)
		switch name {
		case "max":
			for _, y := range args {
				if !pr.rel(a, atomVal(y), strict, d) {
					return false
				}
			}
			return len(args) > 0
		case "min":
			for _, y := range args {
				if pr.rel(a, atomVal(y), strict, d) {
					return true
				}
			}
			return false
		case "floor":
			return pr.rel(a, atomVal(args[0]), strict, d)
		case "ceil", "round":
			// ceil(y) <= a when y <= a and a is integer-valued
			return !strict && pr.isIntegerTerm(a) && pr.rel(a, atomVal(args[0]), false, d)
		}
	case *ssa.BinOp:
		if s, xx, yy, ok := pr.convex(x); ok {
			if pr.rel(atomVal(s), pr.zero(), false, d) && pr.rel(pr.one(), atomVal(s), false, d) {
				return pr.rel(a, atomVal(xx), strict, d) && pr.rel(a, atomVal(yy), strict, d)
			}
		}
		X, Y := atomVal(x.X), atomVal(x.Y)
		switch x.Op {
		case token.SUB:
			// a >= x - y  when  a >= x and y >= 0
			if pr.rel(a, X, strict, d) && pr.rel(Y, pr.zero(), false, d) {
				return true
			}
			if strict && pr.rel(a, X, false, d) && pr.rel(Y, pr.zero(), true, d) {
				return true
			}
		case token.ADD:
			if pr.rel(a, X, strict, d) && pr.rel(pr.zero(), Y, false, d) {
				return true
			}
			if pr.rel(a, Y, strict, d) && pr.rel(pr.zero(), X, false, d) {
				return true
			}
		case token.MUL:
			// a >= x*y  when a >= x >= 0 and 0 <= y <= 1 (or symmetric)
			if pr.rel(a, X, strict, d) && pr.rel(X, pr.zero(), false, d) && pr.rel(Y, pr.zero(), false, d) && pr.rel(pr.one(), Y, false, d) {
				return true
			}
			if pr.rel(a, Y, strict, d) && pr.rel(Y, pr.zero(), false, d) && pr.rel(X, pr.zero(), false, d) && pr.rel(pr.one(), X, false, d) {
				return true
			}
		case token.QUO:
			// a >= x / y when a >= x >= 0 and y >= 1
			if pr.rel(a, X, strict, d) && pr.rel(X, pr.zero(), false, d) && pr.rel(Y, pr.one(), false, d) {
				return true
			}
		}
	}
	return false
}

// NonZero proves v != 0.
func (pr *prover) NonZero(v ssa.Value) bool {
	pr.budget = 4000
	if pr.rel(atomVal(v), pr.zero(), true, 0) {
		return true
	}
	pr.budget = 4000
	if pr.rel(pr.zero(), atomVal(v), true, 0) {
		return true
	}
	// explicit != 0 fact
	r := pr.res(v)
	if pr.pa != nil {
		for _, rel := range pr.pa.Rels(pr.step + 1) {
			if rel.Op != token.NEQ {
				continue
			}
			if (pr.same(atomVal(rel.X), atomVal(r)) && pr.same(atomVal(rel.Y), pr.zero())) || (pr.same(atomVal(rel.Y), atomVal(r)) && pr.same(atomVal(rel.X), pr.zero())) {
				return true
			}
		}
	}
	return false
}
