package main

// Shared analysis of the adaptive limit algorithms for C06 / C07 / C08: where the estimate is stored, which parameter
// is the drop flag / in-flight / rtt in the function that stores it, how stores are classified on a path.

import (
	"fmt"
	"go/token"
	"go/types"
	"sort"
	"strings"

	"gclverify/xt/ssa"
)

type algoFn struct {
	A        *c04Algo
	Fn       *ssa.Function
	Drop     *ssa.Parameter
	InFlight *ssa.Parameter
	RTT      *ssa.Parameter
	Stores   []FieldAccess
	Keys     []string // position-independent name of each store: the receiver fields its value is computed from
	Entry    []symFact
}

// storeKeys names each store of the estimate by what its value is computed from: the sorted names of the receiver's
// fields read (transitively through SSA operands, inside the function) by the stored value. The name does not depend
// on line numbers, block order or how the expression is spread over locals and helpers that were inlined.
func storeKeys(t *types.Named, sites []FieldAccess) []string {
	keys := make([]string, len(sites))
	seenKey := map[string]int{}
	for i, s := range sites {
		fields := map[string]bool{}
		seen := map[ssa.Value]bool{}
		var walk func(v ssa.Value, d int)
		walk = func(v ssa.Value, d int) {
			if v == nil || seen[v] || d > 60 || len(seen) > 600 {
				return
			}
			seen[v] = true
			if fr, _, ok := loadedField(v); ok && fr.Type != nil && types.Identical(fr.Type, t) {
				fields[fr.Name] = true
				return
			}
			if fa, ok := v.(*ssa.FieldAddr); ok {
				if fr, _, ok := fieldOf(fa); ok && fr.Type != nil && types.Identical(fr.Type, t) {
					fields[fr.Name] = true
					return
				}
			}
			ins, ok := v.(ssa.Instruction)
			if !ok {
				return
			}
			for _, op := range ins.Operands(nil) {
				if op != nil && *op != nil {
					walk(*op, d+1)
				}
			}
		}
		walk(s.Val, 0)
		var names []string
		for n := range fields {
			names = append(names, n)
		}
		sort.Strings(names)
		k := "store(" + strings.Join(names, "+") + ")"
		seenKey[k]++
		if seenKey[k] > 1 {
			k = fmt.Sprintf("%s#%d", k, seenKey[k])
		}
		keys[i] = k
	}
	return keys
}

// algoFuncs: for each adaptive algorithm, the functions that store the estimate, with OnSample's parameters mapped
// onto the helper's parameters (the helper must be given them unchanged).
func algoFuncs(p *Prog, l *Ledger) []*algoFn {
	var out []*algoFn
	for _, a := range c04Algos(p, l) {
		on := p.Method(a.T, "OnSample")
		if on == nil || len(on.Params) != 5 {
			continue
		}
		for _, f := range p.Funcs {
			if f.Signature.Recv() == nil || derefNamed(f.Signature.Recv().Type()) != a.T || f.Parent() != nil {
				continue
			}
			var sites []FieldAccess
			for _, acc := range p.Accesses(f) {
				if acc.Write && sameField(acc.Field, a.Est) && !freshBase(acc) {
					sites = append(sites, acc)
				}
			}
			if len(sites) == 0 {
				continue
			}
			af := &algoFn{A: a, Fn: f, Stores: sites, Keys: storeKeys(a.T, sites), Entry: p.EntryFacts(f)}
			if f == on {
				af.RTT, af.InFlight, af.Drop = on.Params[2], on.Params[3], on.Params[4]
			} else {
				// helper: find the call in OnSample and map parameters
				allInstrs(on, func(ins ssa.Instruction) {
					call, ok := ins.(*ssa.Call)
					if !ok || p.CallOf(call).Static != f {
						return
					}
					for i, arg := range call.Call.Args {
						if i >= len(f.Params) {
							continue
						}
						switch strip(arg, false) {
						case ssa.Value(on.Params[2]):
							af.RTT = f.Params[i]
						case ssa.Value(on.Params[3]):
							af.InFlight = f.Params[i]
						case ssa.Value(on.Params[4]):
							af.Drop = f.Params[i]
						}
					}
				})
			}
			out = append(out, af)
		}
	}
	return out
}

// scaled decomposes v into base * num / den through conversions and multiplications / divisions by constants.
func scaled(pr *prover, v ssa.Value) (ssa.Value, float64, float64) {
	num, den := 1.0, 1.0
	for i := 0; i < 8; i++ {
		v = pr.res(v)
		switch x := v.(type) {
		case *ssa.Convert:
			v = x.X
			continue
		case *ssa.BinOp:
			if x.Op == token.MUL {
				if c, ok := constFloat(pr.res(x.Y)); ok {
					num *= c
					v = x.X
					continue
				}
				if c, ok := constFloat(pr.res(x.X)); ok {
					num *= c
					v = x.Y
					continue
				}
			}
			if x.Op == token.QUO {
				if c, ok := constFloat(pr.res(x.Y)); ok && c != 0 {
					den *= c
					v = x.X
					continue
				}
			}
		}
		break
	}
	return v, num, den
}

// notAppLimited: the path established  ratio * inFlight >= estimate  (ratio = 2 for the delay based algorithms,
// 1 for AIMD), with the in-flight parameter and the current estimate as operands. Returns the ratio found (0 = none).
func notAppLimited(pr *prover, af *algoFn, before int) float64 {
	if af.InFlight == nil {
		return 0
	}
	for _, r := range pr.pa.Rels(before) {
		for _, rr := range []Rel{r, {X: r.Y, Y: r.X, Op: flipOp(r.Op)}} {
			if rr.Op != token.GEQ {
				continue
			}
			bx, nx, dx := scaled(pr, rr.X)
			by, ny, dy := scaled(pr, rr.Y)
			if bx != ssa.Value(af.InFlight) {
				continue
			}
			if !pr.isEntryLoadOf(by, af.A.Est) {
				continue
			}
			// nx/dx * inFlight >= ny/dy * est   <=>  (nx*dy)/(dx*ny) * inFlight >= est
			if dx*ny == 0 {
				continue
			}
			return (nx * dy) / (dx * ny)
		}
	}
	return 0
}

// appLimitedFact: the path established the opposite (ratio * inFlight < estimate).
func appLimited(pr *prover, af *algoFn, before int) bool {
	if af.InFlight == nil {
		return false
	}
	for _, r := range pr.pa.Rels(before) {
		for _, rr := range []Rel{r, {X: r.Y, Y: r.X, Op: flipOp(r.Op)}} {
			if rr.Op != token.LSS {
				continue
			}
			bx, _, _ := scaled(pr, rr.X)
			by, _, _ := scaled(pr, rr.Y)
			if bx == ssa.Value(af.InFlight) && pr.isEntryLoadOf(by, af.A.Est) {
				return true
			}
		}
	}
	return false
}

// funcFieldRoles classifies the func(float64) float64 fields of a limit type by the shape of their default closure in
// the constructor: "decrease" for x - g(x), "increase" for x + g(x).
func funcFieldRoles(p *Prog, T *types.Named) (map[int]string, []string) {
	roles := map[int]string{}
	var problems []string
	st := T.Underlying().(*types.Struct)
	for _, c := range p.Constructors(T) {
		al := p.allocOf(c, T)
		for i := 0; i < st.NumFields(); i++ {
			sig, ok := st.Field(i).Type().Underlying().(*types.Signature)
			if !ok || sig.Params().Len() != 1 || sig.Results().Len() != 1 || !isFloat(sig.Params().At(0).Type()) {
				continue
			}
			for _, v := range storesInto(al, FieldRef{T, i, st.Field(i).Name()}) {
				// phi(param, default): the default is a closure, or a method value of a small carrier struct
				var defaults []*ssa.Function
				var walk func(v ssa.Value, d int)
				walk = func(v ssa.Value, d int) {
					if d > 4 {
						return
					}
					switch x := strip(v, false).(type) {
					case *ssa.Phi:
						for _, e := range x.Edges {
							walk(e, d+1)
						}
					case *ssa.MakeClosure:
						if fn, _ := p.funcValueFrame(x, nil); fn != nil && fn.Blocks != nil {
							defaults = append(defaults, fn)
						}
					case *ssa.Function:
						if x.Blocks != nil && p.InModule(x) {
							defaults = append(defaults, x)
						}
					case *ssa.UnOp:
						// a package-level default created once (var defaultDecrease = func(x float64) float64 {...})
						if fn := p.constFuncOf(x); fn != nil && fn.Blocks != nil && p.InModule(fn) {
							defaults = append(defaults, fn)
						}
					}
				}
				walk(v, 0)
				for _, cl := range defaults {
					if len(cl.Params) == 0 {
						continue
					}
					arg := ssa.Value(cl.Params[len(cl.Params)-1])
					allInstrs(cl, func(ins ssa.Instruction) {
						ret, ok := ins.(*ssa.Return)
						if !ok || len(ret.Results) != 1 {
							return
						}
						bo, ok := strip(ret.Results[0], false).(*ssa.BinOp)
						if !ok || strip(bo.X, false) != arg {
							problems = append(problems, p.Key(cl)+": default step function is not of the form x +/- g(x)")
							return
						}
						// g(x): a call whose argument is the parameter; g >= 0 is established for the built-in table functions
						call, ok := strip(bo.Y, false).(*ssa.Call)
						if !ok || len(call.Call.Args) != 1 || strip(call.Call.Args[0], false) != arg {
							problems = append(problems, p.Key(cl)+": the step of the default step function is not g(x)")
							return
						}
						switch bo.Op {
						case token.SUB:
							roles[i] = "decrease"
						case token.ADD:
							roles[i] = "increase"
						}
					})
				}
			}
		}
	}
	return roles, problems
}

// tableStepNonNegative: the float step function of limit/functions (x -> baseline + table / log10) returns a value
// >= 0 for a non-negative baseline: table entries are written by the initialiser as max(1, ...) and the fallback is
// log10 of a value >= len(table) >= 1.
func tableStepNonNegative(p *Prog) (bool, string) {
	// every store into the tables in package limit/functions is a conversion of math.Max(1, ...)
	ok := true
	why := ""
	n := 0
	for _, f := range p.Funcs {
		if !p.InPkg(f, "limit/functions") {
			continue
		}
		allInstrs(f, func(ins ssa.Instruction) {
			st, isS := ins.(*ssa.Store)
			if !isS {
				return
			}
			// a table of the package: a package-level []int, written directly or through a pointer to it kept in a
			// table-driven initialiser (*entry.lookup = append(*entry.lookup, ...))
			g, isG := st.Addr.(*ssa.Global)
			if isG && !strings.Contains(strings.ToLower(g.Name()), "lookup") {
				return
			}
			if !isG {
				pt, isP := st.Addr.Type().(*types.Pointer)
				if !isP {
					return
				}
				sl, isSl := pt.Elem().Underlying().(*types.Slice)
				if !isSl || !isIntegral(sl.Elem()) {
					return
				}
				if _, isAlloc := st.Addr.(*ssa.Alloc); isAlloc {
					return // a local slice variable
				}
				if _, isIA := st.Addr.(*ssa.IndexAddr); isIA {
					return
				}
				if _, isFA := st.Addr.(*ssa.FieldAddr); isFA {
					return
				}
			}
			self := st.Addr
			// the stored table: the table itself extended by append(...) calls (directly, or built up in a loop), every
			// appended entry proved >= 1
			seen := map[ssa.Value]bool{}
			var check func(v ssa.Value, d int) bool
			check = func(v ssa.Value, d int) bool {
				v = strip(v, false)
				if d > 12 || seen[v] {
					return true
				}
				seen[v] = true
				switch x := v.(type) {
				case *ssa.Phi:
					for _, e := range x.Edges {
						if !check(e, d+1) {
							return false
						}
					}
					return true
				case *ssa.Const:
					return x.Value == nil
				case *ssa.UnOp:
					if x.Op != token.MUL {
						return false
					}
					if g2, ok := x.X.(*ssa.Global); ok && isG && g2 == g {
						return true
					}
					if x.X == self {
						return true // the same table, read through the same pointer
					}
					a, b := AccessPath(x.X), AccessPath(self)
					return a.Root == b.Root && a.String() == b.String() && len(a.Sel) > 0
				case *ssa.MakeSlice:
					// a pre-sized table: empty, or as long as the table it replaces and filled from it by copy()
					if k, isC := constInt(strip(x.Len, true)); isC && k == 0 {
						return true
					}
					lc, ok := strip(x.Len, true).(*ssa.Call)
					if !ok {
						return false
					}
					if bi, ok := lc.Call.Value.(*ssa.Builtin); !ok || bi.Name() != "len" || len(lc.Call.Args) != 1 {
						return false
					}
					src := strip(lc.Call.Args[0], false)
					copied := false
					if refs := x.Referrers(); refs != nil {
						for _, r := range *refs {
							if cc, ok := r.(*ssa.Call); ok {
								if bi, ok := cc.Call.Value.(*ssa.Builtin); ok && bi.Name() == "copy" && len(cc.Call.Args) == 2 && cc.Call.Args[0] == ssa.Value(x) && strip(cc.Call.Args[1], false) == src {
									copied = true
								}
							}
						}
					}
					return copied && check(src, d+1)
				case *ssa.Call:
					if bi, ok := x.Call.Value.(*ssa.Builtin); !ok || bi.Name() != "append" || len(x.Call.Args) != 2 {
						return false
					}
					vals := appendedValues(x)
					if len(vals) == 0 {
						return false
					}
					for _, av := range vals {
						n++
						pr := &prover{p: p}
						if !pr.GE(av, atomConst(1)) {
							ok = false
							why = p.At(ins) + ": a table entry is not proved >= 1"
						}
					}
					return check(x.Call.Args[0], d+1)
				}
				return false
			}
			if !check(st.Val, 0) {
				ok = false
				why = p.At(ins) + ": the lookup table is assigned something other than itself extended by append"
			}
		})
	}
	if n == 0 {
		return false, "no table initialiser found"
	}
	return ok, why
}

// algoRMWProblems: every load of the estimate that feeds a stored estimate is made in the critical section that stores
// the result - the type's exclusive mutex is held at the store, and on no path from the load to the store is that mutex
// released or re-acquired. (An update computed from a snapshot taken before the lock was (re)taken applies the rule to a
// stale estimate: two overlapping drops back off once, a delayed writer raises the estimate again.)
func algoRMWProblems(p *Prog, locks *LockInfo, af *algoFn) (int, []string) {
	var bad []string
	n := 0
	recv := af.Fn.Params[0]
	var keys []string
	for _, m := range mutexFields(af.A.T) {
		keys = append(keys, AccessPath(recv).String()+"."+m)
	}
	for _, s := range af.Stores {
		// loads of the estimate feeding the stored value
		var loads []ssa.Instruction
		seen := map[ssa.Value]bool{}
		var walk func(v ssa.Value, d int)
		walk = func(v ssa.Value, d int) {
			if v == nil || seen[v] || d > 60 || len(seen) > 800 {
				return
			}
			seen[v] = true
			if fr, _, ok := loadedField(v); ok && sameField(fr, af.A.Est) {
				if ins, isIns := v.(ssa.Instruction); isIns && ins.Parent() == af.Fn {
					loads = append(loads, ins)
				}
				return
			}
			if ins, ok := v.(ssa.Instruction); ok && ins.Parent() == af.Fn {
				for _, op := range ins.Operands(nil) {
					if op != nil && *op != nil {
						walk(*op, d+1)
					}
				}
			}
		}
		walk(s.Val, 0)
		n++
		held := locks.Held(s.Instr)
		okLock := false
		lockKey := ""
		for _, k := range keys {
			if ex, ok := held[k]; ok && ex {
				okLock, lockKey = true, k
			}
		}
		if !okLock {
			bad = append(bad, fmt.Sprintf("%s: the estimate is stored without the algorithm's exclusive mutex", p.At(s.Instr)))
			continue
		}
		for _, ld := range loads {
			broke := ""
			EnumPaths(af.Fn, 100000, func(pa *Path) bool {
				if !pa.Contains(ld) || !pa.Contains(s.Instr) {
					return true
				}
				between := false
				pa.Each(func(step int, ins ssa.Instruction) bool {
					if ins == ld {
						between = true
						return true
					}
					if ins == s.Instr {
						return false
					}
					if !between {
						return true
					}
					if call, ok := ins.(*ssa.Call); ok {
						if op, key := p.lockOpOf(p.CallOf(call)); op != opNone && key == lockKey {
							broke = fmt.Sprintf("%s: the estimate read at %s feeds the value stored at %s, but %s is released / re-acquired in between (%s): the update is computed from a stale estimate when samples overlap", p.At(ins), p.At(ld), p.At(s.Instr), lockKey, p.CallOf(call).Name)
							return false
						}
					}
					return true
				})
				return broke == ""
			})
			if broke != "" {
				bad = append(bad, broke)
			}
		}
	}
	return n, bad
}
