package main

// E3 — must-lockset analysis. Locks are access paths ("l.mu", "l.limiter.mu", "c.L") with a mode
// (exclusive / shared). Forward dataflow per function, meet = intersection; a deferred unlock never removes
// a lock inside the body. Interprocedural: the entry lockset of a function that is only ever called
// directly (unexported helpers, locally-called closures) is the intersection over its call sites of the
// caller's lockset translated through the argument / free-variable binding. Exported functions, functions
// whose value is taken, go-routine bodies and deferred closures start with the empty set.

import (
	"fmt"
	"go/types"
	"sort"
	"strings"

	"gclverify/xt/ssa"
)

type LockSet map[string]bool // key: access path; value: true = exclusive, false = shared (read lock)

func (s LockSet) clone() LockSet {
	o := LockSet{}
	for k, v := range s {
		o[k] = v
	}
	return o
}

func (s LockSet) String() string {
	var ks []string
	for k, v := range s {
		if v {
			ks = append(ks, k)
		} else {
			ks = append(ks, k+"(shared)")
		}
	}
	sort.Strings(ks)
	return "{" + strings.Join(ks, ", ") + "}"
}

func meet(a, b LockSet) LockSet {
	o := LockSet{}
	for k, v := range a {
		if w, ok := b[k]; ok {
			o[k] = v && w // shared if either is shared
		}
	}
	return o
}

func equalLS(a, b LockSet) bool {
	if len(a) != len(b) {
		return false
	}
	for k, v := range a {
		if w, ok := b[k]; !ok || w != v {
			return false
		}
	}
	return true
}

type lockOp int

const (
	opNone lockOp = iota
	opLock
	opRLock
	opUnlock
	opRUnlock
)

// lockOpOf classifies a call as a mutex operation and returns the lock's access path.
func (p *Prog) lockOpOf(c *Call) (lockOp, string) {
	if c == nil || c.Recv == nil {
		return opNone, ""
	}
	var op lockOp
	switch c.Name {
	case "(*sync.Mutex).Lock", "(*sync.RWMutex).Lock", "(sync.Locker).Lock":
		op = opLock
	case "(*sync.Mutex).Unlock", "(*sync.RWMutex).Unlock", "(sync.Locker).Unlock":
		op = opUnlock
	case "(*sync.RWMutex).RLock":
		op = opRLock
	case "(*sync.RWMutex).RUnlock":
		op = opRUnlock
	default:
		return opNone, ""
	}
	return op, AccessPath(c.Recv).String()
}

type LockInfo struct {
	p      *Prog
	Before map[ssa.Instruction]LockSet // lockset immediately before each instruction
	Entry  map[*ssa.Function]LockSet
	Exit   map[*ssa.Function]LockSet // meet over all returns (before deferred calls run)
	direct map[*ssa.Function]bool    // entry derived from call sites
	sites  map[*ssa.Function][]*Call
}

func isExportedFunc(f *ssa.Function) bool {
	if f.Parent() != nil {
		return false
	}
	if !token_IsExported(f.Name()) {
		return false
	}
	if recv := f.Signature.Recv(); recv != nil {
		// exported method of an unexported type is still reachable through interfaces: treat as exported
		return true
	}
	return true
}

func token_IsExported(name string) bool {
	return name != "" && name[0] >= 'A' && name[0] <= 'Z'
}

// Locksets computes (once) the must-locksets of every module function.
func (p *Prog) Locksets() *LockInfo {
	if p.lockInfo != nil {
		return p.lockInfo
	}
	li := &LockInfo{p: p, Before: map[ssa.Instruction]LockSet{}, Entry: map[*ssa.Function]LockSet{},
		Exit: map[*ssa.Function]LockSet{}, direct: map[*ssa.Function]bool{}, sites: map[*ssa.Function][]*Call{}}
	p.lockInfo = li

	// call sites of every module function (plain calls only; go / defer do not transfer a lockset)
	ifaceImpl := map[*ssa.Function]bool{}
	for _, f := range p.Funcs {
		allInstrs(f, func(ins ssa.Instruction) {
			if _, ok := ins.(*ssa.Call); !ok {
				return
			}
			c := p.CallOf(ins)
			if c != nil && c.Static != nil && p.InModule(c.Static) {
				li.sites[c.Static] = append(li.sites[c.Static], c)
			}
		})
	}
	// methods that satisfy an interface method may be called dynamically
	for _, f := range p.Funcs {
		if f.Signature.Recv() != nil && p.methodMayBeDynamic(f) {
			ifaceImpl[f] = true
		}
	}
	for _, f := range p.Funcs {
		spawnedOrDeferred := false
		if f.Parent() != nil {
			// closure: check how its MakeClosure is used
			allInstrs(f.Parent(), func(ins ssa.Instruction) {
				switch x := ins.(type) {
				case *ssa.Go:
					if p.funcOfValue(x.Call.Value) == f {
						spawnedOrDeferred = true
					}
				case *ssa.Defer:
					if p.funcOfValue(x.Call.Value) == f {
						spawnedOrDeferred = true
					}
				}
			})
		}
		if !isExportedFunc(f) && !p.addrTaken[f] && !ifaceImpl[f] && !spawnedOrDeferred && len(li.sites[f]) > 0 && !strings.HasPrefix(f.Synthetic, "package initializer") {
			li.direct[f] = true
		}
	}
	for _, f := range p.Funcs {
		li.Entry[f] = LockSet{}
	}
	for round := 0; round < 6; round++ {
		for _, f := range p.Funcs {
			li.analyse(f)
		}
		changed := false
		for _, f := range p.Funcs {
			if !li.direct[f] {
				continue
			}
			var acc LockSet
			for _, c := range li.sites[f] {
				t := li.translate(c, f, li.Before[c.Instr.(ssa.Instruction)])
				if acc == nil {
					acc = t
				} else {
					acc = meet(acc, t)
				}
			}
			if acc == nil {
				acc = LockSet{}
			}
			if !equalLS(acc, li.Entry[f]) {
				li.Entry[f] = acc
				changed = true
			}
		}
		if !changed {
			break
		}
	}
	return li
}

// methodMayBeDynamic: the method's name+signature matches a method of some interface its receiver implements
// (so it can be invoked dynamically through that interface with an unknown lockset).
func (p *Prog) methodMayBeDynamic(f *ssa.Function) bool {
	recv := f.Signature.Recv()
	if recv == nil {
		return false
	}
	if token_IsExported(f.Name()) {
		return true
	}
	return false
}

// translate maps a caller-side lockset to the callee's frame.
func (li *LockInfo) translate(c *Call, callee *ssa.Function, ls LockSet) LockSet {
	out := LockSet{}
	if len(ls) == 0 {
		return out
	}
	type bind struct{ calleeRoot, callerAP string }
	var binds []bind
	cc := c.Instr.Common()
	args := cc.Args
	// bound method closure: receiver is the binding
	if b := boundReceiver(cc.Value); b != nil {
		args = append([]ssa.Value{b}, args...)
	}
	for i, prm := range callee.Params {
		if i < len(args) {
			binds = append(binds, bind{rootName(prm), AccessPath(args[i]).String()})
		}
	}
	if mc, ok := strip(cc.Value, false).(*ssa.MakeClosure); ok && mc.Fn == callee {
		for i, fv := range callee.FreeVars {
			if i < len(mc.Bindings) {
				b := mc.Bindings[i]
				ap := AccessPath(b)
				// captured cell: the closure sees *fv; the caller's path of the variable's value
				if al, ok := b.(*ssa.Alloc); ok {
					if s := singleStore(al); s != nil {
						ap = AccessPath(s)
					}
				}
				binds = append(binds, bind{rootName(fv), ap.String()})
			}
		}
	}
	for k, mode := range ls {
		for _, b := range binds {
			if k == b.callerAP {
				out[b.calleeRoot] = mode
			} else if strings.HasPrefix(k, b.callerAP+".") {
				out[b.calleeRoot+k[len(b.callerAP):]] = mode
			} else if i := strings.LastIndex(k, "."); i > 0 && strings.HasPrefix(b.callerAP, k[:i]+".") {
				// the argument is a part of the object whose mutex is held (w := &m.warmup while m.mu is held): in the
				// callee that mutex is "the enclosing object's", one "^" per level between the part and the owner
				up := strings.Count(b.callerAP[i+1:], ".") + 1
				out[b.calleeRoot+strings.Repeat(".^", up)+k[i:]] = mode
			}
		}
	}
	return out
}

func (li *LockInfo) analyse(f *ssa.Function) {
	if len(f.Blocks) == 0 {
		return
	}
	in := make([]LockSet, len(f.Blocks))
	out := make([]LockSet, len(f.Blocks))
	in[0] = li.Entry[f].clone()
	work := []*ssa.BasicBlock{f.Blocks[0]}
	inWork := map[int]bool{0: true}
	iter := 0
	for len(work) > 0 && iter < 10000 {
		iter++
		b := work[0]
		work = work[1:]
		inWork[b.Index] = false
		cur := in[b.Index].clone()
		for _, ins := range b.Instrs {
			li.Before[ins] = cur.clone()
			if call, ok := ins.(*ssa.Call); ok {
				c := li.p.CallOf(call)
				op, key := li.p.lockOpOf(c)
				switch op {
				case opLock:
					cur[key] = true
				case opRLock:
					if _, held := cur[key]; !held {
						cur[key] = false
					}
				case opUnlock, opRUnlock:
					delete(cur, key)
				}
			}
		}
		if out[b.Index] != nil && equalLS(out[b.Index], cur) {
			continue
		}
		out[b.Index] = cur
		for _, s := range b.Succs {
			var n LockSet
			if in[s.Index] == nil {
				n = cur.clone()
			} else {
				n = meet(in[s.Index], cur)
			}
			if in[s.Index] == nil || !equalLS(in[s.Index], n) {
				in[s.Index] = n
				if !inWork[s.Index] {
					work = append(work, s)
					inWork[s.Index] = true
				}
			}
		}
	}
	var exit LockSet
	for _, b := range f.Blocks {
		if len(b.Instrs) == 0 {
			continue
		}
		if _, ok := b.Instrs[len(b.Instrs)-1].(*ssa.Return); ok && out[b.Index] != nil {
			if exit == nil {
				exit = out[b.Index].clone()
			} else {
				exit = meet(exit, out[b.Index])
			}
		}
	}
	if exit == nil {
		exit = LockSet{}
	}
	li.Exit[f] = exit
}

// Held returns the lockset immediately before the instruction.
func (li *LockInfo) Held(ins ssa.Instruction) LockSet {
	if s, ok := li.Before[ins]; ok {
		return s
	}
	return LockSet{}
}

// mutexFields lists the fields of a struct type whose type is sync.Mutex / sync.RWMutex.
func mutexFields(nt *types.Named) []string {
	st, ok := nt.Underlying().(*types.Struct)
	if !ok {
		return nil
	}
	var out []string
	for i := 0; i < st.NumFields(); i++ {
		if isSyncType(st.Field(i).Type(), "Mutex", "RWMutex") {
			out = append(out, st.Field(i).Name())
		}
	}
	return out
}

func isSyncType(t types.Type, names ...string) bool {
	if pt, ok := t.(*types.Pointer); ok {
		t = pt.Elem()
	}
	nt, ok := t.(*types.Named)
	if !ok || nt.Obj().Pkg() == nil || nt.Obj().Pkg().Path() != "sync" {
		return false
	}
	for _, n := range names {
		if nt.Obj().Name() == n {
			return true
		}
	}
	return false
}

// lockAcq: a mutex a function takes, named relative to its receiver (selector path from the receiver to the mutex).
type lockAcq struct {
	sel  []string
	excl bool
	at   ssa.Instruction
}

// acquiresOnReceiver lists the mutexes reachable from g's receiver that g takes - directly or through module methods it
// calls on receiver-rooted paths (to the given depth).
func (p *Prog) acquiresOnReceiver(g *ssa.Function, depth int, seen map[*ssa.Function]bool) []lockAcq {
	if g == nil || g.Blocks == nil || len(g.Params) == 0 || g.Signature.Recv() == nil || seen[g] {
		return nil
	}
	seen[g] = true
	defer delete(seen, g)
	recv := g.Params[0]
	var out []lockAcq
	allInstrs(g, func(ins ssa.Instruction) {
		call, ok := ins.(*ssa.Call)
		if !ok {
			return
		}
		c := p.CallOf(call)
		if c == nil || c.Recv == nil {
			return
		}
		ap := AccessPath(c.Recv)
		if ap.Root != ssa.Value(recv) {
			return
		}
		if op, _ := p.lockOpOf(c); op == opLock || op == opRLock {
			out = append(out, lockAcq{sel: append([]string(nil), ap.Sel...), excl: op == opLock, at: ins})
			return
		}
		if depth > 0 && c.Static != nil && p.InModule(c.Static) {
			for _, a := range p.acquiresOnReceiver(c.Static, depth-1, seen) {
				out = append(out, lockAcq{sel: append(append([]string(nil), ap.Sel...), a.sel...), excl: a.excl, at: ins})
			}
		}
	})
	return out
}

// selfDeadlocks: call sites (and lock operations) that take a sync mutex the calling goroutine already holds on every
// path reaching them. Go's mutexes are not re-entrant: Lock after Lock, Lock after RLock and RLock after Lock on the
// same mutex block for ever (RLock after RLock is left alone: it only blocks when a writer is queued in between).
func (p *Prog) selfDeadlocks(locks *LockInfo) (int, []string) {
	var bad []string
	n := 0
	for _, f := range p.Funcs {
		if p.PkgOf(f) == "" || strings.HasPrefix(p.PkgOf(f), "examples") {
			continue
		}
		allInstrs(f, func(ins ssa.Instruction) {
			call, ok := ins.(*ssa.Call)
			if !ok {
				return
			}
			c := p.CallOf(call)
			if c == nil || c.Recv == nil {
				return
			}
			held := locks.Held(ins)
			if len(held) == 0 {
				return
			}
			if op, k := p.lockOpOf(c); op == opLock || op == opRLock {
				n++
				if ex, ok := held[k]; ok && (ex || op == opLock) {
					bad = append(bad, fmt.Sprintf("%s: %s takes %s, which it already holds: the goroutine blocks for ever", p.At(ins), p.Key(f), k))
				}
				return
			}
			if c.Static == nil || !p.InModule(c.Static) {
				return
			}
			ap := AccessPath(c.Recv)
			for _, a := range p.acquiresOnReceiver(c.Static, 2, map[*ssa.Function]bool{}) {
				n++
				k := rootName(ap.Root)
				for _, s := range append(append([]string(nil), ap.Sel...), a.sel...) {
					k += "." + s
				}
				if ex, ok := held[k]; ok && (ex || a.excl) {
					bad = append(bad, fmt.Sprintf("%s: %s calls %s while holding %s, and %s takes that mutex again (%s): the goroutine blocks for ever, and with it every caller that needs the mutex", p.At(ins), p.Key(f), p.Key(c.Static), k, p.Key(c.Static), p.At(a.at)))
				}
			}
		})
	}
	return n, bad
}
