package main

import (
	"fmt"
	"go/token"
	"go/types"
	"strings"

	"gclverify/xt/ssa"
)

func init() {
	register("C03", &ruleSet{
		run:    runC03,
		floors: map[string]int{"O1": 3, "O2": 1, "O3": 6, "O4": 9, "O5": 2},
		explain: "Decides structurally for both partitioned strategies: (O1) admission predicate: a request whose partition was found is refused on exactly the paths that " +
			"established total.busy >= total.limit AND bin.busy >= bin.limit (comparator directions and operand fields checked; IsLimitExceeded is busy >= limit of the bin), " +
			"and granted on every other such path; the predicate strategy visits partitions in registration order and decides inside the first matching iteration; no match " +
			"refuses; (O2) share formula: UpdateLimit stores exactly max(1, ceil(float(total) x percent)) with percent the partition's immutable fraction; (O3) share coverage: " +
			"every partition object TryAcquire can select - each element of the container and the unknown-key bucket - is given UpdateLimit(current total) in the constructor, " +
			"in SetLimit for the new value, and when added dynamically, and bin limits have no other writer; (O4 = C02/O5 exact bins); (O5) lookup, comparison and both " +
			"increments are one exclusive critical section of the strategy mutex, and add/remove take the same mutex. Floating error of total x percent and user predicates are not covered.",
	})
}

type c03Strat struct {
	T        *types.Named
	Part     *types.Named // partition type
	TotalCnt FieldRef
	TotalLim FieldRef
	BinCnt   FieldRef
	BinLim   FieldRef
	Percent  FieldRef
	Sources  []FieldRef // fields of T from which TryAcquire can select a partition
	Try      *ssa.Function
	Set      *ssa.Function
	Update   *ssa.Function
	Exceeded *ssa.Function
}

func c03Discover(p *Prog, l *Ledger) []*c03Strat {
	var out []*c03Strat
	for _, T := range p.Implementers(p.coreIface("Strategy")) {
		try := p.Method(T, "TryAcquire")
		set := p.Method(T, "SetLimit")
		if try == nil || set == nil {
			continue
		}
		s := &c03Strat{T: T, Try: try, Set: set}
		// partition type: receiver of the Acquire() call in TryAcquire
		allInstrs(try, func(ins ssa.Instruction) {
			if call, ok := ins.(*ssa.Call); ok {
				c := p.CallOf(call)
				if c.Static != nil && c.Recv != nil && c.Static.Name() == "Acquire" && p.InPkg(c.Static, "strategy") {
					s.Part = derefNamed(c.Obj().Type())
				}
			}
			if d, ok := p.DeltaOf(ins); ok && types.Identical(d.Field.Type, T) && d.By == 1 {
				s.TotalCnt = d.Field
			}
		})
		if s.Part == nil {
			continue
		}
		for _, a := range p.Accesses(set) {
			if a.Write && types.Identical(a.Field.Type, T) {
				s.TotalLim = a.Field
			}
		}
		s.Update = p.Method(s.Part, "UpdateLimit")
		s.Exceeded = p.Method(s.Part, "IsLimitExceeded")
		if acq := p.Method(s.Part, "Acquire"); acq != nil {
			allInstrs(acq, func(ins ssa.Instruction) {
				if d, ok := p.DeltaOf(ins); ok && d.By == 1 {
					s.BinCnt = d.Field
				}
			})
		}
		// the partition's state may live in a struct embedded in the partition type (shared bookkeeping)
		partTypes := []*types.Named{s.Part}
		if pst, ok := s.Part.Underlying().(*types.Struct); ok {
			for i := 0; i < pst.NumFields(); i++ {
				if f := pst.Field(i); f.Embedded() {
					if nt := derefNamed(f.Type()); nt != nil {
						if _, isStruct := nt.Underlying().(*types.Struct); isStruct {
							partTypes = append(partTypes, nt)
						}
					}
				}
			}
		}
		inPart := func(t *types.Named) bool {
			for _, pt := range partTypes {
				if t != nil && types.Identical(t, pt) {
					return true
				}
			}
			return false
		}
		if s.Update != nil {
			for _, a := range p.Accesses(s.Update) {
				if a.Write && inPart(a.Field.Type) {
					s.BinLim = a.Field
				}
			}
		}
		for _, pt := range partTypes {
			st := pt.Underlying().(*types.Struct)
			for i := 0; i < st.NumFields(); i++ {
				if isFloat(st.Field(i).Type()) {
					s.Percent = FieldRef{pt, i, st.Field(i).Name()}
				}
			}
		}
		// sources: fields of T whose type mentions the partition type
		tst := T.Underlying().(*types.Struct)
		for i := 0; i < tst.NumFields(); i++ {
			if typeMentions(tst.Field(i).Type(), s.Part) {
				s.Sources = append(s.Sources, FieldRef{T, i, tst.Field(i).Name()})
			}
		}
		if !s.TotalCnt.Valid() || !s.TotalLim.Valid() || !s.BinCnt.Valid() || !s.BinLim.Valid() || !s.Percent.Valid() || s.Update == nil || s.Exceeded == nil {
			l.Infra("%s: cannot resolve counters / limits / share function of the partitioned strategy", p.TypeKey(T))
			continue
		}
		out = append(out, s)
	}
	return out
}

func typeMentions(t types.Type, nt *types.Named) bool {
	switch x := t.(type) {
	case *types.Pointer:
		return typeMentions(x.Elem(), nt)
	case *types.Slice:
		return typeMentions(x.Elem(), nt)
	case *types.Map:
		return typeMentions(x.Elem(), nt)
	case *types.Named:
		return types.Identical(x, nt)
	}
	return false
}

// c03ShareFormula checks UpdateLimit of one partition type. Returns the list of problems.
func c03ShareFormula(p *Prog, s *c03Strat) (int, []string) {
	up := s.Update
	var bad []string
	n := 0
	param := up.Params[1]
	isPercent := func(v ssa.Value) bool {
		fr, base, ok := loadedField(strip(v, false))
		return ok && sameField(fr, s.Percent) && AccessPath(base).Root == ssa.Value(up.Params[0])
	}
	isTotal := func(v ssa.Value) bool {
		v = strip(v, true)
		if cv, ok := v.(*ssa.Convert); ok {
			v = strip(cv.X, true)
		}
		return v == ssa.Value(param)
	}
	EnumPaths(up, 10000, func(pa *Path) bool {
		if !pa.IsReturn() {
			return true
		}
		n++
		nst := 0
		pa.Each(func(step int, ins ssa.Instruction) bool {
			st, ok := ins.(*ssa.Store)
			if !ok {
				return true
			}
			fa, ok := st.Addr.(*ssa.FieldAddr)
			if !ok {
				return true
			}
			if fr, _, _ := fieldOf(fa); !sameField(fr, s.BinLim) {
				return true
			}
			nst++
			v := strip(pa.Resolve(st.Val, step), true)
			if cv, ok := v.(*ssa.Convert); ok {
				v = strip(pa.Resolve(cv.X, step), true)
			}
			pr := &prover{p: p, pa: pa, step: step}
			name, args := pr.mathCall(v)
			var core ssa.Value
			if name == "max" && len(args) == 2 {
				if f, ok := constFloat(args[0]); ok && f == 1 {
					core = args[1]
				} else if f, ok := constFloat(args[1]); ok && f == 1 {
					core = args[0]
				}
			}
			if core == nil {
				// the clamp written as a branch: on this path the stored value is 1 where x < 1 was established, or x where
				// x >= 1 was (if x < 1 { x = 1 })
				isOne := func(w ssa.Value) bool { f, ok := constFloat(strip(w, true)); return ok && f == 1 }
				for _, r := range pa.Rels(step + 1) {
					for _, rr := range []Rel{r, {X: r.Y, Y: r.X, Op: flipOp(r.Op)}} {
						if !isOne(rr.Y) {
							continue
						}
						x := strip(pa.Resolve(rr.X, step), true)
						switch rr.Op {
						case token.LSS, token.LEQ:
							if isOne(v) {
								core = x
							}
						case token.GEQ, token.GTR:
							if x == v {
								core = x
							}
						}
					}
				}
			}
			if core == nil {
				bad = append(bad, fmt.Sprintf("%s: the share is not max(1, ...): %s", p.At(st), valueString(v)))
				return true
			}
			core = strip(pa.Resolve(core, step), false)
			cn, cargs := pr.mathCall(core)
			if cn != "ceil" {
				bad = append(bad, fmt.Sprintf("%s: the share is not rounded up with Ceil: %s", p.At(st), valueString(core)))
				return true
			}
			prod, ok := strip(pa.Resolve(cargs[0], step), false).(*ssa.BinOp)
			if !ok || prod.Op != token.MUL || !((isTotal(prod.X) && isPercent(prod.Y)) || (isTotal(prod.Y) && isPercent(prod.X))) {
				bad = append(bad, fmt.Sprintf("%s: the rounded quantity is not float(total) x the partition's fraction: %s", p.At(st), valueString(cargs[0])))
			}
			return true
		})
		if nst != 1 {
			bad = append(bad, fmt.Sprintf("UpdateLimit stores the bin limit %d times on a path (want once)", nst))
		}
		return len(bad) < 3
	})
	// the fraction is immutable
	for _, f := range p.Funcs {
		for _, a := range p.Accesses(f) {
			if a.Write && sameField(a.Field, s.Percent) && !freshBase(a) {
				bad = append(bad, fmt.Sprintf("%s: the partition fraction is modified after construction", p.At(a.Instr)))
			}
		}
	}
	return n, bad
}

func runC03(p *Prog, l *Ledger) {
	l.Rule("O1", "admission predicate: refuse exactly when total.busy >= total.limit AND bin.busy >= bin.limit; first registered match is charged; no match refuses")
	l.Rule("O2", "share formula: UpdateLimit stores exactly max(1, ceil(float(total) x fraction)), the fraction being immutable")
	l.Rule("O3", "share coverage: every selectable partition gets UpdateLimit(current total) in the constructor, in SetLimit and when added dynamically; bin limits have no other writer")
	l.Rule("O5", "the whole decision is one exclusive critical section of the strategy mutex; add/remove take the same mutex exclusively")
	l.Rule("O4", "exact bins (decided by the C02/O5 rules on the same tree): grant charges total and one bin, the release closure captured at grant time gives back exactly that bin and the total")
	l.NotCovered = []string{"floating error of total x percent (the property defines the share with the same expression)", "behaviour of user predicates / lookup functions", "floating point"}
	locks := p.Locksets()
	importObligations(p, l, "C02", "O4", func(o *Obligation) bool { return o.Rule == "O5" })
	strats := c03Discover(p, l)
	// a partition added to a key-indexed strategy is registered under the key the caller gave: requests are routed by that
	// key (the lookup function's result), whatever the partition calls itself
	for _, s := range strats {
		for _, m := range p.MethodsOf(s.T) {
			var bad []string
			n := 0
			allInstrs(m, func(ins ssa.Instruction) {
				mu, ok := ins.(*ssa.MapUpdate)
				if !ok {
					return
				}
				fr, _, isF := fieldPointerLoad(mu.Map)
				if !isF || !types.Identical(fr.Type, s.T) {
					return
				}
				if mt, ok := mu.Map.Type().Underlying().(*types.Map); !ok || derefNamed(mt.Elem()) == nil || !types.Identical(derefNamed(mt.Elem()), s.Part) {
					return
				}
				n++
				if _, isP := strip(mu.Key, false).(*ssa.Parameter); !isP {
					bad = append(bad, fmt.Sprintf("%s: the partition is stored under %s, not under the key parameter of %s", p.At(ins), valueString(strip(mu.Key, false)), m.Name()))
				}
			})
			if n > 0 {
				l.Check(len(bad) == 0, "O3", p.Key(m)+"/registered-under-key", p.FuncPos(m), "the partition map is updated under the key parameter", "requests mapped to the registered key do not reach the partition (they fall into the unknown bucket, whose share is 1)", bad...)
			}
		}
	}
	if len(strats) < 2 {
		l.Infra("expected two partitioned strategies, found %d", len(strats))
	}
	for _, s := range strats {
		tk := p.TypeKey(s.T)
		recv := s.Try.Params[0]
		// ---------------- O1
		{
			// IsLimitExceeded: returns busy >= limit of the bin
			var bad []string
			okCmp := false
			allInstrs(s.Exceeded, func(ins ssa.Instruction) {
				if bo, ok := ins.(*ssa.BinOp); ok {
					x, y, op := bo.X, bo.Y, bo.Op
					fx, _, okx := loadedField(strip(x, true))
					fy, _, oky := loadedField(strip(y, true))
					if okx && oky {
						if sameField(fx, s.BinLim) && sameField(fy, s.BinCnt) {
							fx, fy, op = fy, fx, flipOp(op)
						}
						if sameField(fx, s.BinCnt) && sameField(fy, s.BinLim) {
							if op == token.GEQ {
								okCmp = true
							} else {
								bad = append(bad, fmt.Sprintf("%s: the bin is considered exhausted when busy %s limit (want >=)", p.At(ins), op))
							}
						}
					}
				}
			})
			if !okCmp && len(bad) == 0 {
				bad = append(bad, "IsLimitExceeded does not compare the bin's busy count with its limit")
			}
			l.Check(len(bad) == 0, "O1", p.Key(s.Exceeded), p.FuncPos(s.Exceeded), "bin exhausted iff busy >= limit", "the bin test has the wrong comparator", bad...)
		}
		{
			var bad []string
			npaths := 0
			EnumPathsWithLoops(s.Try, 200000, func(pa *Path) bool {
				if pa.Cut {
					// looping back after a matching predicate is a violation (first match must decide)
					for _, f := range pa.Facts {
						if call, ok := f.Cond.(*ssa.Call); ok && f.True && p.CallOf(call).Name == "dynamic" {
							bad = append(bad, fmt.Sprintf("%s: a matching partition does not decide the request (the loop goes on to later partitions)", p.At(call)))
						}
					}
					return len(bad) < 3
				}
				// after a predicate matched, the path must not go round the loop again
				for _, f := range pa.Facts {
					call, ok := f.Cond.(*ssa.Call)
					if !ok || !f.True || p.CallOf(call).Name != "dynamic" {
						continue
					}
					for i := f.Step + 1; i < len(pa.Blocks); i++ {
						if isLoopHeader(pa.Blocks[i]) && pa.Blocks[i].Dominates(call.Block()) {
							bad = append(bad, fmt.Sprintf("%s: a matching partition does not decide the request: the search continues with later partitions", p.At(call)))
						}
					}
				}
				rv := pa.ReturnValues()
				if len(rv) != 2 {
					return true
				}
				npaths++
				granted, _ := constBool(strip(rv[1], false))
				// was a partition selected (bin test or bin Acquire on the path, or the total comparison evaluated)?
				totalFull, totalKnown := false, false
				for _, r := range pa.Rels(-1) {
					for _, rr := range []Rel{r, {X: r.Y, Y: r.X, Op: flipOp(r.Op)}} {
						fx, bx, okx := loadedField(strip(rr.X, true))
						fy, _, oky := loadedField(strip(rr.Y, true))
						if okx && oky && sameField(fx, s.TotalCnt) && sameField(fy, s.TotalLim) && AccessPath(bx).Root == ssa.Value(recv) {
							switch rr.Op {
							case token.GEQ:
								totalFull, totalKnown = true, true
							case token.LSS:
								totalFull, totalKnown = false, true
							default:
								bad = append(bad, fmt.Sprintf("the total is compared with '%s' (want busy >= limit)", rr.Op))
							}
						}
					}
				}
				binFull, binKnown := false, false
				var binObj ssa.Value
				for _, f := range pa.Facts {
					if call, ok := f.Cond.(*ssa.Call); ok && p.CallOf(call).Static == s.Exceeded {
						binFull, binKnown = f.True, true
						binObj = pa.Resolve(p.CallOf(call).Obj(), f.Step)
					}
				}
				var charged ssa.Value
				pa.Each(func(step int, ins ssa.Instruction) bool {
					if call, ok := ins.(*ssa.Call); ok {
						c := p.CallOf(call)
						if c.Static != nil && c.Recv != nil && c.Static.Name() == "Acquire" && types.Identical(derefNamed(c.Obj().Type()), s.Part) {
							charged = pa.Resolve(c.Obj(), step)
						}
					}
					return true
				})
				if granted {
					if totalKnown && totalFull && (!binKnown || binFull) {
						bad = append(bad, "a request is granted although the total is exhausted and its bin is not known to be under its share: "+joinWitness(p.DescribePath(pa)))
					}
					if !totalKnown {
						bad = append(bad, "a request is granted without comparing the total in-flight with the total limit: "+joinWitness(p.DescribePath(pa)))
					}
					if binKnown && charged != nil && binObj != charged && !sameCellValueOnPath(pa, binObj, charged) {
						bad = append(bad, "the bin that is tested is not the bin that is charged")
					}
				} else if totalKnown {
					if !(totalFull && binKnown && binFull) {
						bad = append(bad, "a request whose partition was found is refused although the total has room or its bin is under its share: "+joinWitness(p.DescribePath(pa)))
					}
				}
				return len(bad) < 4
			})
			// registration order for slice containers
			for _, src := range s.Sources {
				if _, isSlice := structOf(s.T).Field(src.Index).Type().(*types.Slice); isSlice {
					okSweep := false
					allInstrs(s.Try, func(ins ssa.Instruction) {
						if ia, ok := ins.(*ssa.IndexAddr); ok {
							if fr, _, ok := fieldPointerLoad(ia.X); ok && sameField(fr, src) {
								if c03Sweeps(ia) {
									okSweep = true
								} else {
									bad = append(bad, fmt.Sprintf("%s: partitions are not visited in registration order from the first", p.At(ins)))
								}
							}
						}
					})
					if !okSweep && len(bad) == 0 {
						bad = append(bad, "TryAcquire does not iterate over the registered partitions")
					}
				}
			}
			l.Count("paths", npaths)
			l.Check(len(bad) == 0 && npaths > 0, "O1", p.Key(s.Try), p.FuncPos(s.Try), fmt.Sprintf("%d paths; refuse iff total.busy >= total.limit and the bin is at its share; the first match decides", npaths), "the admission predicate is wrong", bad...)
			// "the first registered one is charged": the list keeps registration order - nothing overwrites an element of it in
			// place (swap-remove), sorts, reverses or shuffles it; it only grows by append and shrinks by rebuilding
			for _, src := range s.Sources {
				if _, isSlice := structOf(s.T).Field(src.Index).Type().(*types.Slice); !isSlice {
					continue
				}
				var obad []string
				fromList := func(v ssa.Value) bool {
					for i := 0; i < 8; i++ {
						v = strip(v, false)
						if sl, ok := v.(*ssa.Slice); ok {
							v = sl.X
							continue
						}
						break
					}
					fr, _, ok := fieldPointerLoad(v)
					return ok && sameField(fr, src)
				}
				for _, f := range p.Funcs {
					if !p.InPkg(f, p.PkgOf(s.Try)) {
						continue
					}
					allInstrs(f, func(ins ssa.Instruction) {
						switch x := ins.(type) {
						case *ssa.Store:
							if ia, ok := x.Addr.(*ssa.IndexAddr); ok && fromList(ia.X) {
								obad = append(obad, fmt.Sprintf("%s: an element of the partition list is overwritten in place: the remaining partitions lose their registration order", p.At(ins)))
							}
						case *ssa.Call:
							c := p.CallOf(x)
							if c.Static == nil || p.InModule(c.Static) {
								return
							}
							n := c.Name
							if strings.HasPrefix(n, "sort.") || strings.HasPrefix(n, "slices.Sort") || strings.HasPrefix(n, "slices.Reverse") || strings.Contains(n, "rand.Shuffle") || strings.HasPrefix(n, "(*math/rand.Rand).Shuffle") {
								for _, a := range x.Call.Args {
									if fromList(a) {
										obad = append(obad, fmt.Sprintf("%s: the partition list is reordered by %s", p.At(ins), n))
									}
								}
							}
						}
					})
				}
				l.Check(len(obad) == 0, "O1", p.TypeKey(s.T)+"/registration-order/"+src.Name, p.FuncPos(s.Try), "the partition list is only appended to or rebuilt; nothing reorders it", "overlapping predicates can be charged to a partition other than the first registered one", obad...)
			}
		}
		// ---------------- O2
		{
			n, bad := c03ShareFormula(p, s)
			l.Check(len(bad) == 0 && n > 0, "O2", p.Key(s.Update), p.FuncPos(s.Update), "stores max(1, ceil(float(total) x fraction)) once; the fraction is immutable", "the share is not max(1, ceil(total x fraction))", bad...)
		}
		// ---------------- O3 coverage
		c03Coverage(p, l, locks, s)
		// ---------------- O5 critical section
		{
			var bad []string
			excl := func(ins ssa.Instruction, base ssa.Value) bool {
				held := locks.Held(ins)
				for _, m := range mutexFields(s.T) {
					if ex, ok := held[AccessPath(base).String()+"."+m]; ok && ex {
						return true
					}
				}
				return false
			}
			allInstrs(s.Try, func(ins ssa.Instruction) {
				interesting := false
				if _, ok := p.DeltaOf(ins); ok {
					interesting = true
				}
				if call, ok := ins.(*ssa.Call); ok {
					c := p.CallOf(call)
					if c.Static == s.Exceeded || (c.Static != nil && c.Static.Name() == "Acquire" && c.Recv != nil && types.Identical(derefNamed(c.Obj().Type()), s.Part)) || c.Name == "dynamic" {
						interesting = true
					}
				}
				if _, ok := ins.(*ssa.Lookup); ok {
					interesting = true
				}
				if bo, ok := ins.(*ssa.BinOp); ok {
					if fr, _, ok := loadedField(strip(bo.X, true)); ok && sameField(fr, s.TotalCnt) {
						interesting = true
					}
				}
				if interesting && !excl(ins, recv) {
					bad = append(bad, fmt.Sprintf("%s: part of the admission decision runs without the strategy's exclusive mutex", p.At(ins)))
				}
			})
			// container mutations elsewhere
			for _, m := range p.MethodsOf(s.T) {
				if m == s.Try {
					continue
				}
				for _, a := range p.Accesses(m) {
					for _, src := range s.Sources {
						if a.Write && sameField(a.Field, src) && !freshBase(a) && !excl(a.Instr, a.Base) {
							bad = append(bad, fmt.Sprintf("%s: the partition set is changed without the strategy's exclusive mutex (%s)", p.At(a.Instr), m.Name()))
						}
					}
				}
			}
			l.Check(len(bad) == 0, "O5", tk+"/critical-section", p.FuncPos(s.Try), "lookup, comparisons and both increments hold the strategy's exclusive mutex; add/remove take it too", "two decisions can interleave", bad...)
		}
	}
}

// c03Sweeps: the index of an element access is a loop counter starting at the first element, stepping +1.
func c03Sweeps(ia *ssa.IndexAddr) bool {
	idx := strip(ia.Index, true)
	plusOne := func(v ssa.Value) (*ssa.Phi, bool) {
		bo, ok := strip(v, true).(*ssa.BinOp)
		if !ok || bo.Op != token.ADD {
			return nil, false
		}
		if k, ok := constInt(bo.Y); !ok || k != 1 {
			return nil, false
		}
		ph, ok := strip(bo.X, true).(*ssa.Phi)
		return ph, ok
	}
	var phi *ssa.Phi
	start := int64(0)
	if ph, ok := idx.(*ssa.Phi); ok {
		phi = ph
	} else if ph, ok := plusOne(idx); ok {
		phi, start = ph, -1
	} else {
		return false
	}
	if !isLoopHeader(phi.Block()) {
		return false
	}
	okS, okT := false, false
	for _, e := range phi.Edges {
		if k, ok := constInt(e); ok && k == start {
			okS = true
		} else if ph, ok := plusOne(e); ok && ph == phi {
			okT = true
		}
	}
	return okS && okT
}

func c03Coverage(p *Prog, l *Ledger, locks *LockInfo, s *c03Strat) {
	tk := p.TypeKey(s.T)
	// who-may-write the bin limit
	{
		var bad []string
		n := 0
		for _, f := range p.Funcs {
			for _, a := range p.Accesses(f) {
				if a.Write && sameField(a.Field, s.BinLim) {
					n++
					if f != s.Update && !freshBase(a) {
						bad = append(bad, fmt.Sprintf("%s: bin limit written in %s", p.At(a.Instr), p.Key(f)))
					}
				}
			}
		}
		l.Check(len(bad) == 0, "O3", p.FieldKey(s.BinLim)+"/writers", p.FuncPos(s.Update), fmt.Sprintf("%d writers: the partition constructor and UpdateLimit", n), "a bin limit is written outside UpdateLimit", bad...)
	}
	// updateCalls in f: receivers (as source fields) that get UpdateLimit(arg) with arg satisfying argOK
	type upd struct {
		src  *FieldRef // source field the receiver was taken from (container element or single field)
		recv ssa.Value
		arg  ssa.Value
		ins  ssa.Instruction
	}
	updates := func(f *ssa.Function) []upd {
		var out []upd
		allInstrs(f, func(ins ssa.Instruction) {
			call, ok := ins.(*ssa.Call)
			if !ok {
				return
			}
			c := p.CallOf(call)
			if c.Static != s.Update {
				return
			}
			u := upd{recv: c.Obj(), arg: c.Args[0], ins: ins}
			if src := c03SourceOf(c.Obj(), s); src != nil {
				u.src = src
			}
			out = append(out, u)
		})
		return out
	}
	// (i) constructor
	for _, ctor := range p.Constructors(s.T) {
		al := p.allocOf(ctor, s.T)
		// the total limit the strategy starts with
		lv := storesInto(al, s.TotalLim)
		for _, src := range s.Sources {
			key := fmt.Sprintf("%s/ctor/%s", tk, src.Name)
			vals := storesInto(al, src)
			if len(vals) != 1 || len(lv) != 1 {
				l.Unknown("O3", key, p.FuncPos(ctor), "the constructor does not initialise the partition source / total limit exactly once")
				continue
			}
			stored := strip(vals[0], false)
			okUpd := false
			for _, u := range updates(ctor) {
				if strip(u.arg, true) != strip(lv[0], true) {
					continue
				}
				// receiver is the stored object itself, or an element of the stored container (range over it)
				r := strip(u.recv, false)
				if r == stored || c03ElementOf(r, stored) {
					okUpd = true
				}
			}
			// a defensive copy: the stored container is a map made here, and everything put into it was given its share
			// first (the same value is the receiver of an UpdateLimit(initial total) in this constructor)
			if mm, isMake := stored.(*ssa.MakeMap); isMake && !okUpd {
				nput, nok := 0, 0
				allInstrs(ctor, func(ins ssa.Instruction) {
					mu, ok := ins.(*ssa.MapUpdate)
					if !ok || strip(mu.Map, false) != ssa.Value(mm) {
						return
					}
					nput++
					for _, u := range updates(ctor) {
						if strip(u.arg, true) == strip(lv[0], true) && strip(u.recv, false) == strip(mu.Value, false) {
							nok++
							return
						}
					}
				})
				if nput > 0 && nput == nok {
					okUpd = true
				}
			}
			l.Check(okUpd, "O3", key, p.FuncPos(ctor), "given its share of the initial total in the constructor", fmt.Sprintf("partition source %s is installed without UpdateLimit(initial total): its share is whatever its own constructor set", src.Name))
		}
	}
	// (ii) SetLimit
	{
		param := s.Set.Params[1]
		for _, src := range s.Sources {
			key := fmt.Sprintf("%s/SetLimit/%s", tk, src.Name)
			var bad []string
			n := 0
			EnumPaths(s.Set, 100000, func(pa *Path) bool {
				if !pa.IsReturn() {
					return true
				}
				// does this path change the stored limit?
				changed := false
				loops := false
				pa.Each(func(step int, ins ssa.Instruction) bool {
					if st, ok := ins.(*ssa.Store); ok {
						if fa, ok := st.Addr.(*ssa.FieldAddr); ok {
							if fr, _, _ := fieldOf(fa); sameField(fr, s.TotalLim) {
								changed = true
							}
						}
					}
					return true
				})
				if changed {
					// a store of the value the field was just compared equal to does not change the limit
					if pa.HoldsRel(-1, func(r Rel) bool {
						fr, _, isF := loadedField(strip(r.X, true))
						return r.Op == token.EQL && isF && sameField(fr, s.TotalLim) && flooredParam(pa, r.Y, param, len(pa.Blocks)-1) == ""
					}) {
						changed = false
					}
				}
				if !changed {
					return true
				}
				n++
				ok := false
				pa.Each(func(step int, ins ssa.Instruction) bool {
					call, isC := ins.(*ssa.Call)
					if !isC {
						return true
					}
					c := p.CallOf(call)
					if c.Static != s.Update {
						return true
					}
					if sf := c03SourceOf(c.Obj(), s); sf != nil && sameField(*sf, src) {
						if flooredParam(pa, c.Args[0], param, step) == "" {
							ok = true
						} else if fr, _, isF := loadedField(strip(c.Args[0], true)); isF && sameField(fr, s.TotalLim) {
							// the new total re-read from the field it was just stored into (same critical section)
							var lastVal ssa.Value
							lastStep := -1
							pa.Each(func(st2 int, i2 ssa.Instruction) bool {
								if i2 == ins {
									return false
								}
								if stt, isS := i2.(*ssa.Store); isS {
									if fa, isFA := stt.Addr.(*ssa.FieldAddr); isFA {
										if f2, _, _ := fieldOf(fa); sameField(f2, s.TotalLim) {
											lastVal, lastStep = stt.Val, st2
										}
									}
								}
								return true
							})
							if lastVal != nil && flooredParam(pa, lastVal, param, lastStep) == "" {
								ok = true
							}
						}
					}
					return true
				})
				_ = loops
				if !ok {
					// a container may be empty on this path (loop taken zero times): accept when the path skipped the loop over this very container
					if _, isSingle := structOf(s.T).Field(src.Index).Type().(*types.Pointer); !isSingle {
						if c03SkippedLoopOver(pa, src) {
							return true
						}
					}
					bad = append(bad, fmt.Sprintf("the limit changes but %s is not given UpdateLimit(new total): %s", src.Name, joinWitness(p.DescribePath(pa))))
				}
				return len(bad) < 2
			})
			l.Check(len(bad) == 0 && n > 0, "O3", key, p.FuncPos(s.Set), fmt.Sprintf("%d limit-changing paths; each recomputes the share of %s from the new total", n, src.Name), "a selectable partition keeps a stale share after SetLimit", bad...)
		}
	}
	// (iii) dynamic add: functions (not ctor, not SetLimit) that add to a container source
	for _, m := range p.MethodsOf(s.T) {
		if m == s.Set || m == s.Try {
			continue
		}
		for _, src := range s.Sources {
			adds := false
			var addedVal ssa.Value
			var at ssa.Instruction
			allInstrs(m, func(ins ssa.Instruction) {
				switch x := ins.(type) {
				case *ssa.MapUpdate:
					if fr, _, ok := fieldPointerLoad(x.Map); ok && sameField(fr, src) {
						adds, addedVal, at = true, x.Value, ins
					}
				case *ssa.Store:
					if fa, ok := x.Addr.(*ssa.FieldAddr); ok {
						if fr, _, _ := fieldOf(fa); sameField(fr, src) {
							if call, ok := strip(x.Val, false).(*ssa.Call); ok {
								if bi, ok := call.Call.Value.(*ssa.Builtin); ok && bi.Name() == "append" {
									if vs := appendedValues(call); len(vs) == 1 {
										adds, addedVal, at = true, vs[0], ins
									}
								}
							}
						}
					}
				}
			})
			if !adds {
				continue
			}
			key := fmt.Sprintf("%s/%s/%s", tk, m.Name(), src.Name)
			okUpd := false
			for _, u := range updates(m) {
				if strip(u.recv, false) != strip(addedVal, false) {
					continue
				}
				// argument: the strategy's current total limit
				fr, base, ok := loadedField(strip(u.arg, true))
				if ok && sameField(fr, s.TotalLim) && AccessPath(base).Root == ssa.Value(m.Params[0]) {
					held := locks.Held(u.ins)
					for _, mu := range mutexFields(s.T) {
						if ex, ok := held[AccessPath(base).String()+"."+mu]; ok && ex {
							okUpd = true
						}
					}
				}
			}
			l.Check(okUpd, "O3", key, p.At(at), "a dynamically added partition is given its share of the current total under the strategy mutex",
				"a dynamically added partition keeps the limit its own constructor set until the total limit next changes (SetLimit skips unchanged limits)")
		}
	}
}

// c03SourceOf: which source field of the strategy the partition value v was taken from.
func c03SourceOf(v ssa.Value, s *c03Strat) *FieldRef {
	seen := map[ssa.Value]bool{}
	var walk func(v ssa.Value, d int) *FieldRef
	walk = func(v ssa.Value, d int) *FieldRef {
		if v == nil || d > 8 || seen[v] {
			return nil
		}
		seen[v] = true
		v = strip(v, false)
		if fr, _, ok := loadedField(v); ok {
			for i := range s.Sources {
				if sameField(fr, s.Sources[i]) {
					return &s.Sources[i]
				}
			}
		}
		switch x := v.(type) {
		case *ssa.Phi:
			for _, e := range x.Edges {
				if r := walk(e, d+1); r != nil {
					return r
				}
			}
		case *ssa.Extract:
			return walk(x.Tuple, d+1)
		case *ssa.Lookup:
			return walk(x.X, d+1)
		case *ssa.Next:
			return walk(x.Iter, d+1)
		case *ssa.Range:
			return walk(x.X, d+1)
		case *ssa.UnOp:
			return walk(x.X, d+1)
		case *ssa.IndexAddr:
			return walk(x.X, d+1)
		}
		return nil
	}
	return walk(v, 0)
}

// c03ElementOf: r is an element (range value / lookup / index) of container c.
func c03ElementOf(r, c ssa.Value) bool {
	seen := map[ssa.Value]bool{}
	var walk func(v ssa.Value, d int) bool
	walk = func(v ssa.Value, d int) bool {
		if v == nil || d > 8 || seen[v] {
			return false
		}
		seen[v] = true
		v = strip(v, false)
		if v == c {
			return true
		}
		switch x := v.(type) {
		case *ssa.Extract:
			return walk(x.Tuple, d+1)
		case *ssa.Next:
			return walk(x.Iter, d+1)
		case *ssa.Range:
			return walk(x.X, d+1)
		case *ssa.UnOp:
			return walk(x.X, d+1)
		case *ssa.IndexAddr:
			return walk(x.X, d+1)
		case *ssa.Lookup:
			return walk(x.X, d+1)
		case *ssa.Phi:
			for _, e := range x.Edges {
				if walk(e, d+1) {
					return true
				}
			}
		}
		return false
	}
	return walk(r, 0)
}

// c03SkippedLoopOver: the path went through a loop header over the container field and left it without iterating.
func c03SkippedLoopOver(pa *Path, src FieldRef) bool {
	for i, b := range pa.Blocks {
		if !isLoopHeader(b) || i+1 >= len(pa.Blocks) {
			continue
		}
		over := false
		for _, ins := range b.Instrs {
			switch x := ins.(type) {
			case *ssa.Next:
				if rg, ok := x.Iter.(*ssa.Range); ok {
					if fr, _, ok := fieldPointerLoad(rg.X); ok && sameField(fr, src) {
						over = true
					}
				}
			case *ssa.BinOp:
				if call, ok := x.Y.(*ssa.Call); ok {
					if bi, ok := call.Call.Value.(*ssa.Builtin); ok && bi.Name() == "len" {
						if fr, _, ok := fieldPointerLoad(call.Call.Args[0]); ok && sameField(fr, src) {
							over = true
						}
					}
				}
			}
		}
		if over {
			return true
		}
	}
	// range over a map: the Range instruction is in the pre-header
	found := false
	pa.Each(func(step int, ins ssa.Instruction) bool {
		if rg, ok := ins.(*ssa.Range); ok {
			if fr, _, ok := fieldPointerLoad(rg.X); ok && sameField(fr, src) {
				found = true
			}
		}
		return true
	})
	return found && strings.Contains(src.Name, "")
}
