package main

import (
	"fmt"
	"go/token"
	"go/types"
	"strings"

	"gclverify/xt/ssa"
)

func init() {
	register("C12", &ruleSet{
		run:    runC12,
		floors: map[string]int{"O1": 1, "O2": 4, "O3": 4, "O4": 5},
		explain: "Decides structurally for the queue limiter: (O1) bound: the enqueue is dominated by the false edge of 'backlog length >= configured maximum' (comparator " +
			"direction; the maximum derives from the configuration after defaulting), the length read and the enqueue are one exclusive critical section of the limiter mutex, " +
			"and the refusal edge returns at once without any blocking operation; (O2) membership typestate: after the enqueue every path to return has the caller's element " +
			"evicted exactly once - the hand-off case relies on the sender's eviction (which unblock performs before delivering, on the same path), the timeout and cancel " +
			"cases evict the caller's own element exactly once (directly or through a helper that calls its EvictFunc parameter exactly once on every path), and an eviction " +
			"removes exactly the element it was built for; the backlog length is the list's own length, or a counter proved to mirror it (steps of one under the queue's exclusive mutex, paired with insertions and removals on every path, the step down behind a first-time flag); (O3) gauges: queue_size is the backlog's length " +
			"accessor reading the list under the queue mutex, queue_limit derives from the configured maximum. Numeric equality of reported size and number of blocked callers " +
			"at every instant of a concurrent history is their consequence, not separately decided.",
	})
}

func runC12(p *Prog, l *Ledger) {
	l.Rule("O1", "bound: enqueue only on the false edge of len >= max, checked and enqueued in one exclusive critical section; refusal returns immediately without blocking")
	l.Rule("O2", "membership: after enqueue every path evicts the caller's own element exactly once (or took the hand-off, whose sender evicts before delivering); the size is the list's own length")
	l.Rule("O3", "gauges: queue_size is the backlog length accessor under the queue mutex; queue_limit derives from the configured bound")
	l.Rule("O4", "a waiter leaves the backlog only by its own give-up or together with the capacity handed to it (the C10/O5 evict-with-token rule on the same tree): nothing else removes a caller that is still blocked")
	l.NotCovered = []string{"instantaneous numeric equality 'reported size = number of blocked callers' in a concurrent history (the structural clauses are its necessary conditions)"}
	importObligations(p, l, "C10", "O4", func(o *Obligation) bool {
		return o.Rule == "O5" && (strings.Contains(o.Key, "evict-with-token") || strings.HasSuffix(o.Key, "/evict-idempotent") || strings.HasSuffix(o.Key, "/delivery") || strings.HasSuffix(o.Key, "/raw-completions"))
	})
	// the gauges are fed through core's supplier wrappers, which must hand every reading through (C20/O3)
	importObligations(p, l, "C20", "O3", func(o *Obligation) bool { return o.Rule == "O3" && strings.HasSuffix(o.Key, "/passes-through") })
	// every enqueue inserts a holder of its own: an element that comes out of a pool / free list can be in the hands of
	// two callers at once (a second eviction of the same element recycles it twice), and then one caller's place in line
	// delivers to the other
	{
		var bad []string
		n := 0
		for _, f := range p.Funcs {
			if !p.InPkg(f, "limiter") {
				continue
			}
			allInstrs(f, func(ins ssa.Instruction) {
				c := p.CallOf(ins)
				if c == nil || !c.Is("(*container/list.List).PushFront", "(*container/list.List).PushBack") || len(c.Args) != 1 {
					return
				}
				n++
				v := strip(c.Args[0], false)
				if mi, ok := v.(*ssa.MakeInterface); ok {
					v = strip(mi.X, false)
				}
				fresh := false
				switch x := v.(type) {
				case *ssa.Alloc:
					fresh = true
				case *ssa.Call:
					fresh = p.returnsFresh(x.Call.StaticCallee(), 2)
				}
				if !fresh {
					bad = append(bad, fmt.Sprintf("%s: the element put into the backlog is not allocated for this caller (%s)", p.At(ins), valueString(v)))
				}
			})
		}
		l.Check(len(bad) == 0 && n > 0, "O2", "limiter/enqueue-fresh-element", "", fmt.Sprintf("%d insertion(s) into the backlog list, each of a freshly allocated element", n), "two callers can share one backlog element", bad...)
	}
	// who may take an element out of the backlog list: only an eviction function - the func() a push hands to its own
	// caller (EvictFunc), which removes that caller's element - and what it calls. A sweep that removes other callers'
	// elements (pruning "dead" waiters, compaction) takes out callers that are still blocked.
	{
		evictors := c12Evictors(p)
		var bad []string
		n := 0
		for _, f := range p.Funcs {
			if !p.InPkg(f, "limiter") {
				continue
			}
			allInstrs(f, func(ins ssa.Instruction) {
				c := p.CallOf(ins)
				if c == nil || !c.Is("(*container/list.List).Remove") {
					return
				}
				n++
				if !evictors[f] {
					bad = append(bad, fmt.Sprintf("%s: an element is removed from the backlog list in %s, which is not the eviction function a caller was given for its own element", p.At(ins), p.Key(f)))
				}
			})
		}
		l.Check(len(bad) == 0 && n > 0, "O4", "limiter/backlog-removal-sites", "", fmt.Sprintf("%d list.Remove call site(s), all inside eviction functions", n), "a caller that is still blocked can be taken out of the backlog: it is no longer counted and cannot be served", bad...)
	}
	locks := p.Locksets()
	lis := p.coreNamed("Listener")

	// discover the queue limiter, its backlog field, and the backlog's list field / length accessor
	for _, nt := range p.Implementers(p.coreIface("Limiter")) {
		if !strings.HasPrefix(p.TypeKey(nt), "limiter.") {
			continue
		}
		st, ok := nt.Underlying().(*types.Struct)
		if !ok {
			continue
		}
		var blf, listF FieldRef
		var backlogT *types.Named
		for i := 0; i < st.NumFields(); i++ {
			if d := derefNamed(st.Field(i).Type()); d != nil {
				if ds, ok := d.Underlying().(*types.Struct); ok {
					for j := 0; j < ds.NumFields(); j++ {
						if isListPtr(ds.Field(j).Type()) {
							blf = FieldRef{nt, i, st.Field(i).Name()}
							listF = FieldRef{d, j, ds.Field(j).Name()}
							backlogT = d
						}
					}
				}
			}
		}
		if backlogT == nil {
			continue
		}
		tk := p.TypeKey(nt)
		// length accessor: method of the backlog returning an integer from list.Len()
		var lenFn *ssa.Function
		var lenCands []*ssa.Function
		for _, m := range p.MethodsOf(backlogT) {
			res := m.Signature.Results()
			if res.Len() != 1 || !isIntegral(res.At(0).Type()) {
				continue
			}
			lenFn = m
			lenCands = append(lenCands, m)
		}
		// several integer accessors (a second one kept for a gauge, say): the one the limiter's own methods call is the one
		// the admission bound reads
		if len(lenCands) > 1 {
			var called []*ssa.Function
			for _, cand := range lenCands {
				used := false
				for _, lm := range p.MethodsOf(nt) {
					allInstrs(lm, func(ins ssa.Instruction) {
						if c := p.CallOf(ins); c != nil && c.Static == cand {
							used = true
						}
					})
				}
				if used {
					called = append(called, cand)
				}
			}
			if len(called) > 0 {
				lenFn = called[len(called)-1]
			}
		}
		if lenFn == nil {
			l.Infra("%s: the backlog has no length accessor", tk)
			continue
		}
		{
			bad, okLen := c12SizeProof(p, locks, backlogT, listF, lenFn)
			l.Check(len(bad) == 0 && okLen, "O2", p.Key(lenFn)+"/size", p.FuncPos(lenFn), "the backlog size is list.Len() read under the queue mutex", "the reported backlog size can differ from the number of queued callers", bad...)
		}

		// the enqueue site
		for _, m := range p.MethodsOf(nt) {
			var push, lenCall *ssa.Call
			var sel *ssa.Select
			allInstrs(m, func(ins ssa.Instruction) {
				switch x := ins.(type) {
				case *ssa.Call:
					c := p.CallOf(x)
					if c.Static != nil && c.Recv != nil {
						if fr, _, ok := fieldPointerLoad(c.Recv); ok && sameField(fr, blf) {
							res := c.Static.Signature.Results()
							for i := 0; i < res.Len(); i++ {
								if ch, ok := res.At(i).Type().Underlying().(*types.Chan); ok && types.Identical(ch.Elem(), lis) {
									push = x
								}
							}
							if c.Static == lenFn {
								lenCall = x
							}
						}
					}
				case *ssa.Select:
					if x.Blocking {
						sel = x
					}
				}
			})
			if push == nil {
				continue
			}
			key := p.Key(m)
			// ---------------- O1
			var bad1 []string
			base := AccessPath(p.CallOf(push).Recv).Parent().String()
			muKey := ""
			for _, mu := range mutexFields(nt) {
				muKey = base + "." + mu
			}
			if lenCall == nil {
				bad1 = append(bad1, "no backlog length check before the enqueue")
			} else {
				for name, ins := range map[string]*ssa.Call{"length check": lenCall, "enqueue": push} {
					if ex, ok := locks.Held(ins)[muKey]; !ok || !ex {
						bad1 = append(bad1, fmt.Sprintf("%s: the %s runs without %s: two arrivals can both pass the bound", p.At(ins), name, muKey))
					}
				}
			}
			npaths := 0
			EnumPathsPrefix(m, push, 100000, func(pa *Path) bool {
				npaths++
				// fact: len < max  (false edge of len >= max)
				okBound := false
				for _, r := range pa.Rels(len(pa.Blocks)) {
					for _, rr := range []Rel{r, {X: r.Y, Y: r.X, Op: flipOp(r.Op)}} {
						if strip(rr.X, true) != ssa.Value(lenCall) {
							continue
						}
						fr, b2, ok := loadedField(strip(rr.Y, true))
						if !ok || !types.Identical(fr.Type, nt) || AccessPath(b2).String() != base {
							continue
						}
						switch rr.Op {
						case token.LSS:
							okBound = true
							// the bound field derives from the config after defaulting (constructor check)
							if why := c12BoundFromConfig(p, nt, fr); why != "" {
								bad1 = append(bad1, why)
							}
						case token.LEQ:
							bad1 = append(bad1, fmt.Sprintf("a caller is enqueued when the backlog already holds its maximum (len <= max instead of len < max)"))
						}
					}
				}
				if !okBound {
					bad1 = append(bad1, "the enqueue is reachable without having established backlog length < configured maximum: "+joinWitness(p.DescribePath(pa)))
				}
				return len(bad1) < 3
			})
			// refusal edge: from the true edge of the bound test, return immediately, no blocking operation
			if lenCall != nil {
				for _, b := range m.Blocks {
					iff, ok := b.Instrs[len(b.Instrs)-1].(*ssa.If)
					if !ok {
						continue
					}
					cond, neg := normCond(iff.Cond)
					bo, ok := cond.(*ssa.BinOp)
					if !ok || (strip(bo.X, true) != ssa.Value(lenCall) && strip(bo.Y, true) != ssa.Value(lenCall)) {
						continue
					}
					// successor taken when len >= max
					fullSucc := 0
					op := bo.Op
					if strip(bo.Y, true) == ssa.Value(lenCall) {
						op = flipOp(op)
					}
					if op == token.LSS || op == token.LEQ {
						fullSucc = 1
					}
					if neg {
						fullSucc = 1 - fullSucc
					}
					EnumPathsFrom(m, b.Succs[fullSucc], 10000, 1, func(pa *Path) bool {
						pa.Each(func(step int, ins ssa.Instruction) bool {
							switch ins.(type) {
							case *ssa.Select, *ssa.Send:
								bad1 = append(bad1, fmt.Sprintf("%s: the refusal for a full backlog blocks", p.At(ins)))
							}
							if ins == ssa.Instruction(push) {
								bad1 = append(bad1, "a caller is enqueued on the edge where the backlog is full")
							}
							return true
						})
						rv := pa.ReturnValues()
						if len(rv) >= 1 && !isNilConst(strip(rv[0], false)) {
							bad1 = append(bad1, "the refusal for a full backlog returns a listener")
						}
						return len(bad1) < 3
					})
				}
			}
			l.Check(len(bad1) == 0 && npaths > 0, "O1", key, p.At(push), fmt.Sprintf("%d paths to the enqueue, each with len < max established under %s; the full edge returns nil at once", npaths, muKey), "the backlog can exceed its configured maximum, or a refused caller waits", bad1...)

			// ---------------- O2 typestate after the enqueue
			if sel == nil {
				l.Bad("O2", key, p.At(push), "no blocking select after the enqueue")
				continue
			}
			var evictV, chanV ssa.Value
			if refs := push.Referrers(); refs != nil {
				for _, r := range *refs {
					if ex, ok := r.(*ssa.Extract); ok {
						if _, isCh := ex.Type().Underlying().(*types.Chan); isCh {
							chanV = ex
						} else {
							evictV = ex
						}
					}
				}
			}
			var idxV ssa.Value
			if refs := sel.Referrers(); refs != nil {
				for _, r := range *refs {
					if ex, ok := r.(*ssa.Extract); ok && ex.Index == 0 {
						idxV = ex
					}
				}
			}
			handIdx := -1
			for i, s := range sel.States {
				if phiCore(s.Chan) == chanV {
					handIdx = i
				}
			}
			var bad2 []string
			n2 := 0
			EnumPaths(m, 200000, func(pa *Path) bool {
				if !pa.IsReturn() || !pa.Contains(push) {
					return true
				}
				n2++
				chosen := -1
				for _, rel := range pa.Rels(-1) {
					if rel.Op == token.EQL && strip(rel.X, false) == idxV {
						if k, ok := constInt(rel.Y); ok {
							chosen = int(k)
						}
					}
				}
				ev := 0
				after := false
				pa.Each(func(step int, ins ssa.Instruction) bool {
					if ins == ssa.Instruction(push) {
						after = true
						return true
					}
					if !after {
						return true
					}
					call, ok := ins.(*ssa.Call)
					if !ok {
						return true
					}
					c := p.CallOf(call)
					if c.Name == "dynamic" && strip(pa.Resolve(c.FnVal, step), false) == evictV {
						ev++
					}
					if c.Static != nil && p.InModule(c.Static) {
						for ai, a := range call.Call.Args {
							if strip(pa.Resolve(a, step), false) == evictV {
								k, why := c12CallsParamOnce(p, c.Static, ai)
								if why != "" {
									bad2 = append(bad2, fmt.Sprintf("%s: %s", p.At(ins), why))
								}
								ev += k
							}
						}
					}
					return true
				})
				switch {
				case chosen == handIdx:
					if ev != 0 {
						bad2 = append(bad2, "the hand-off path evicts again (the sender already evicted the element)")
					}
				case chosen < 0:
					// the path leaves after the enqueue without having waited at all
					if chanV != nil && c12PushMakesChan(p, push) && pa.HoldsRel(-1, func(r Rel) bool {
						return r.Op == token.EQL && (strip(r.X, false) == chanV || strip(pa.Resolve(r.X, len(pa.Blocks)-1), false) == chanV || phiCore(r.X) == chanV) && isNilConst(strip(r.Y, false))
					}) {
						break // "the hand-off channel is nil" after an enqueue that always makes one: not a path
					}
					if ev != 1 {
						bad2 = append(bad2, fmt.Sprintf("a path returns after the enqueue without reaching the wait and evicts the caller's element %d times (want exactly once): a caller that has left stays listed, keeps its place in line and is handed capacity nobody will use: %s", ev, joinWitness(p.DescribePath(pa))))
					}
				case chosen >= 0:
					if ev != 1 {
						bad2 = append(bad2, fmt.Sprintf("a give-up path (select case %d) evicts the caller's element %d times (want exactly once): the caller %s", chosen, ev, map[bool]string{true: "stays listed in the backlog after its Acquire returned", false: "is evicted twice"}[ev == 0]))
					}
				}
				return len(bad2) < 3
			})
			l.Check(len(bad2) == 0 && n2 > 0, "O2", key, p.At(sel), fmt.Sprintf("%d paths after the enqueue: hand-off relies on the sender's eviction; every give-up evicts the caller's own element exactly once", n2), "a caller can leave Acquire while still listed in the backlog (or be counted out twice)", bad2...)
		}

		// sender side: on every path that delivers a listener to a waiter, that waiter's eviction ran exactly once, before the delivery
		for _, f := range p.Funcs {
			if !p.InPkg(f, "limiter") {
				continue
			}
			var evicts []*ssa.Call
			var delivers []ssa.Instruction
			hasAcq := false
			allInstrs(f, func(ins ssa.Instruction) {
				// a delivery written in place: a select / send offering a Listener on a channel
				switch x := ins.(type) {
				case *ssa.Select:
					for _, st := range x.States {
						if st.Dir == types.SendOnly && st.Send != nil && types.Identical(st.Send.Type(), lis) {
							delivers = append(delivers, ins)
						}
					}
				case *ssa.Send:
					if types.Identical(x.X.Type(), lis) {
						delivers = append(delivers, ins)
					}
				}
				call, ok := ins.(*ssa.Call)
				if !ok {
					return
				}
				c := p.CallOf(call)
				if p.callsRoleMethod(c, "Limiter", "Acquire") {
					hasAcq = true
				}
				if c.Name == "dynamic" && len(c.Args) == 0 {
					if named, ok := c.FnVal.Type().(*types.Named); ok && named.Obj().Name() == "EvictFunc" {
						evicts = append(evicts, call)
					}
				}
				if c.Static != nil && len(c.Args) == 1 && types.Identical(c.Args[0].Type(), lis) && p.InModule(c.Static) && c.Static.Signature.Results().Len() == 1 {
					delivers = append(delivers, call)
				}
			})
			if !hasAcq || len(delivers) == 0 {
				continue
			}
			var bad []string
			n := 0
			EnumPaths(f, 100000, func(pa *Path) bool {
				if !pa.IsReturn() {
					return true
				}
				for _, d := range delivers {
					if !pa.Contains(d) {
						continue
					}
					n++
					k := 0
					before := true
					pa.Each(func(step int, ins ssa.Instruction) bool {
						if ins == d {
							before = false
						}
						for _, e := range evicts {
							if ins == ssa.Instruction(e) {
								if before {
									k++
								} else {
									k += 100
								}
							}
						}
						return true
					})
					if k != 1 {
						bad = append(bad, fmt.Sprintf("%s: a waiter is served without having been evicted exactly once beforehand: it stays listed (or is removed after the delivery)", p.At(d)))
					}
				}
				return len(bad) < 3
			})
			l.Check(len(bad) == 0 && n > 0, "O2", p.Key(f)+"/sender", p.FuncPos(f), fmt.Sprintf("%d delivering paths; eviction exactly once before each delivery", n), "a granted caller can remain listed in the backlog", bad...)
		}
		// ---------------- O3 gauges
		for _, ctor := range p.Constructors(nt) {
			var sizeOK, limitOK bool
			var sizeAt, limitAt ssa.Instruction
			allInstrs(ctor, func(ins ssa.Instruction) {
				call, ok := ins.(*ssa.Call)
				if !ok {
					return
				}
				c := p.CallOf(call)
				if c.Iface == nil || c.Iface.Name() != "RegisterGauge" || len(c.Args) < 2 {
					return
				}
				id, _ := strip(c.Args[0], false).(*ssa.Const)
				sup, ok := strip(c.Args[1], false).(*ssa.Call)
				if !ok || id == nil || id.Value == nil || len(sup.Call.Args) != 1 {
					return
				}
				name := strings.Trim(id.Value.ExactString(), "\"")
				fnv := strip(sup.Call.Args[0], false)
				switch name {
				case "queue_size":
					sizeAt = ins
					if mc, ok := fnv.(*ssa.MakeClosure); ok {
						if r := boundReceiver(mc); r != nil && p.unwrap(mc.Fn.(*ssa.Function)) == lenFn {
							if fr, _, ok := fieldPointerLoad(r); ok && sameField(fr, blf) {
								sizeOK = true
							}
						}
						// a method of the limiter that only forwards to the length accessor of its own backlog
						if r := boundReceiver(mc); r != nil && !sizeOK {
							if fw := p.unwrap(mc.Fn.(*ssa.Function)); fw != nil && len(fw.Params) == 1 && len(fw.Blocks) > 0 {
								if rt := derefNamed(fw.Params[0].Type()); rt != nil && types.Identical(rt, nt) {
									forwards, nret := true, 0
									allInstrs(fw, func(i2 ssa.Instruction) {
										ret, isRet := i2.(*ssa.Return)
										if !isRet {
											return
										}
										nret++
										if len(ret.Results) != 1 {
											forwards = false
											return
										}
										fc, isCall := strip(ret.Results[0], false).(*ssa.Call)
										if !isCall || p.CallOf(fc).Static != lenFn {
											forwards = false
											return
										}
										fr, base, ok := fieldPointerLoad(p.CallOf(fc).Recv)
										if !ok || !sameField(fr, blf) || strip(base, false) != ssa.Value(fw.Params[0]) {
											forwards = false
										}
									})
									if forwards && nret > 0 {
										sizeOK = true
									}
								}
							}
						}
					}
				case "queue_limit":
					limitAt = ins
					if mc, ok := fnv.(*ssa.MakeClosure); ok {
						fn := mc.Fn.(*ssa.Function)
						allInstrs(fn, func(i2 ssa.Instruction) {
							if ret, ok := i2.(*ssa.Return); ok && len(ret.Results) == 1 {
								ap := AccessPathThroughClosures(ret.Results[0])
								if len(ap.Sel) > 0 && strings.Contains(strings.ToLower(ap.Sel[len(ap.Sel)-1]), "backlogsize") {
									limitOK = true
								}
								// a captured value: what this closure was created with (the closure may have been created by
								// a helper that the variant inlined into the constructor)
								rv := strip(ret.Results[0], true)
								if u, isU := rv.(*ssa.UnOp); isU {
									rv = strip(u.X, true)
								}
								for i, fv := range fn.FreeVars {
									if rv == ssa.Value(fv) && i < len(mc.Bindings) {
										b := mc.Bindings[i]
										if al, isAl := b.(*ssa.Alloc); isAl {
											if sv := singleStore(al); sv != nil {
												b = sv
											}
										}
										bp := AccessPath(strip(b, true))
										if len(bp.Sel) > 0 && strings.Contains(strings.ToLower(bp.Sel[len(bp.Sel)-1]), "backlogsize") {
											limitOK = true
										}
									}
								}
							}
						})
					}
				}
			})
			l.Check(sizeOK, "O3", p.Key(ctor)+"/queue_size", p.At(sizeAt), "queue_size polls the length accessor of the limiter's own backlog", "the queue_size gauge does not report the backlog's length")
			l.Check(limitOK, "O3", p.Key(ctor)+"/queue_limit", p.At(limitAt), "queue_limit reports the configured maximum backlog size", "the queue_limit gauge does not report the configured bound")
		}
	}
}

// c12BoundFromConfig: the limiter's bound field is initialised in the constructor from the config's backlog-size field,
// read after ApplyDefaults.
func c12BoundFromConfig(p *Prog, nt *types.Named, bound FieldRef) string {
	for _, ctor := range p.Constructors(nt) {
		al := p.allocOf(ctor, nt)
		vals := storesInto(al, bound)
		if len(vals) != 1 {
			return "the backlog bound is not initialised exactly once in the constructor"
		}
		v := strip(vals[0], true)
		if cv, ok := v.(*ssa.Convert); ok {
			v = strip(cv.X, true)
		}
		fr, base, ok := loadedField(v)
		if !ok || !strings.Contains(strings.ToLower(fr.Name), "backlogsize") {
			return "the backlog bound does not come from the configuration's backlog size: " + valueString(v)
		}
		ld := v.(ssa.Instruction)
		baseAP := AccessPath(base).String()
		var def ssa.Instruction
		allInstrs(ctor, func(ins ssa.Instruction) {
			if call, ok := ins.(*ssa.Call); ok {
				c := p.CallOf(call)
				if c.Static != nil && c.Recv != nil && c.Static.Name() == "ApplyDefaults" && AccessPath(c.Recv).String() == baseAP {
					def = ins
				}
			}
		})
		if def == nil {
			return "the configuration is not defaulted before the bound is read"
		}
		after := def.Block() == ld.Block() && indexIn(def) < indexIn(ld) || (def.Block() != ld.Block() && def.Block().Dominates(ld.Block()))
		if !after {
			return "the backlog bound is read from the raw (un-defaulted) configuration"
		}
		// the defaulting leaves a positive size on every path: a negative one converted to the unsigned bound is ~2^64
		if dc := p.CallOf(def); dc != nil && dc.Static != nil {
			if why := fieldPositiveAfter(p, dc.Static, fr); why != "" {
				return why
			}
		}
	}
	return ""
}

// fieldPositiveAfter: on every returning path of the defaulting method g, field fr of its receiver ends up >= 1: the last
// store on the path is a positive constant, or the path never writes it and has established field > 0 / field >= 1.
func fieldPositiveAfter(p *Prog, g *ssa.Function, fr FieldRef) string {
	if g == nil || len(g.Params) == 0 || g.Blocks == nil {
		return "cannot read the defaulting method"
	}
	recv := g.Params[0]
	why := ""
	n := 0
	EnumPaths(g, 100000, func(pa *Path) bool {
		if !pa.IsReturn() {
			return true
		}
		n++
		var last ssa.Value
		pa.Each(func(step int, ins ssa.Instruction) bool {
			if st, ok := ins.(*ssa.Store); ok {
				if fa, ok := st.Addr.(*ssa.FieldAddr); ok {
					if f2, base, ok := fieldOf(fa); ok && sameField(f2, fr) && AccessPath(base).Root == ssa.Value(recv) {
						last = pa.Resolve(st.Val, step)
					}
				}
			}
			return true
		})
		if last != nil {
			if k, isC := constInt(strip(last, true)); isC && k >= 1 {
				return true
			}
			why = fmt.Sprintf("%s stores a value into %s that is not a positive constant", p.Key(g), fr.Name)
			return false
		}
		pos := pa.HoldsRel(-1, func(r Rel) bool {
			f2, base, ok := loadedField(strip(r.X, true))
			if !ok || !sameField(f2, fr) || AccessPath(base).Root != ssa.Value(recv) {
				return false
			}
			k, isC := constInt(strip(r.Y, true))
			return isC && ((r.Op == token.GTR && k >= 0) || (r.Op == token.GEQ && k >= 1))
		})
		if !pos {
			why = fmt.Sprintf("%s can leave %s zero or negative (%s); converted to the unsigned bound a negative size is about 2^64: the backlog is unbounded", p.Key(g), fr.Name, joinWitness(p.DescribePath(pa)))
			return false
		}
		return true
	})
	if n == 0 && why == "" {
		why = "the defaulting method has no returning path"
	}
	return why
}

// c12CallsParamOnce: function g calls its parameter #i (a func()) exactly once on every returning path.
func c12CallsParamOnce(p *Prog, g *ssa.Function, i int) (int, string) {
	if i >= len(g.Params) {
		// method value call: receiver offset
		return 0, "cannot bind the eviction function to the helper's parameters"
	}
	prm := g.Params[i]
	why := ""
	n := 0
	EnumPaths(g, 10000, func(pa *Path) bool {
		if !pa.IsReturn() {
			return true
		}
		n++
		k := 0
		pa.Each(func(step int, ins ssa.Instruction) bool {
			if call, ok := ins.(*ssa.Call); ok {
				c := p.CallOf(call)
				if c.Name == "dynamic" && strip(c.FnVal, false) == ssa.Value(prm) {
					k++
				}
			}
			return true
		})
		if k != 1 {
			why = fmt.Sprintf("%s calls the eviction function %d times on a path (want exactly once)", p.Key(g), k)
			return false
		}
		return true
	})
	if why != "" {
		return 0, why
	}
	if n == 0 {
		return 0, p.Key(g) + " has no returning path"
	}
	return 1, ""
}

// c12PushMakesChan: every return of the enqueue function yields a freshly made channel as its channel result.
func c12PushMakesChan(p *Prog, push *ssa.Call) bool {
	g := push.Call.StaticCallee()
	if g == nil || g.Blocks == nil {
		return false
	}
	ok, n := true, 0
	allInstrs(g, func(ins ssa.Instruction) {
		ret, isR := ins.(*ssa.Return)
		if !isR {
			return
		}
		for _, r := range ret.Results {
			if _, isCh := r.Type().Underlying().(*types.Chan); !isCh {
				continue
			}
			n++
			v := strip(r, false)
			if ct, isCT := v.(*ssa.ChangeType); isCT {
				v = strip(ct.X, false)
			}
			if _, isMk := v.(*ssa.MakeChan); !isMk {
				ok = false
			}
		}
	})
	return ok && n > 0
}

// c12Evictors: the eviction functions of the limiter package - the func() a push hands to its own caller (EvictFunc),
// which removes that caller's element - and what they call.
func c12Evictors(p *Prog) map[*ssa.Function]bool {
	evictors := map[*ssa.Function]bool{}
	for _, f := range p.Funcs {
		if !p.InPkg(f, "limiter") {
			continue
		}
		allInstrs(f, func(ins ssa.Instruction) {
			mc, ok := ins.(*ssa.MakeClosure)
			if !ok {
				return
			}
			// the closure is (converted to) an EvictFunc, or returned by a function whose result is one
			isEv := false
			if nt, ok := mc.Type().(*types.Named); ok && nt.Obj().Name() == "EvictFunc" {
				isEv = true
			}
			if refs := mc.Referrers(); refs != nil {
				for _, r := range *refs {
					switch x := r.(type) {
					case *ssa.ChangeType:
						if nt, ok := x.Type().(*types.Named); ok && nt.Obj().Name() == "EvictFunc" {
							isEv = true
						}
					case *ssa.Return:
						res := f.Signature.Results()
						for i := 0; i < res.Len(); i++ {
							if nt, ok := res.At(i).Type().(*types.Named); ok && nt.Obj().Name() == "EvictFunc" {
								isEv = true
							}
							if _, isSig := res.At(i).Type().Underlying().(*types.Signature); isSig && res.Len() == 1 && f.Signature.Params().Len() >= 1 {
								isEv = true // evictionFunc(e) func()
							}
						}
					}
				}
			}
			if isEv {
				evictors[mc.Fn.(*ssa.Function)] = true
			}
		})
	}
	for i := 0; i < 2; i++ {
		for g := range evictors {
			allInstrs(g, func(ins ssa.Instruction) {
				if c := p.CallOf(ins); c != nil && c.Static != nil && p.InModule(c.Static) {
					evictors[c.Static] = true
				}
			})
		}
	}
	return evictors
}

// c12MirrorCounter proves that the integer field cnt of the backlog type equals the length of its list: every
// post-construction write of cnt is a step of +1 or -1 made holding the queue's mutex exclusively; every path through a
// +1 inserts exactly one element into the list and every inserting path steps up exactly once; every path through a -1
// removes an element exactly once, every removing path steps down exactly once, and the step down is taken only on the
// "not yet" edge of a test of a boolean field that the same path then sets (list.Remove is idempotent, a decrement is
// not: an eviction function runs twice when a give-up coincides with the hand-off). Returns "" or the reason.
func c12MirrorCounter(p *Prog, locks *LockInfo, backlogT *types.Named, listF, cnt FieldRef) string {
	isListOp := func(ins ssa.Instruction, names ...string) bool {
		c := p.CallOf(ins)
		if c == nil || !c.Is(names...) {
			return false
		}
		fr, _, ok := fieldPointerLoad(c.Recv)
		return ok && sameField(fr, listF)
	}
	nUp, nDown := 0, 0
	for _, f := range p.Funcs {
		if !p.InPkg(f, "limiter") {
			continue
		}
		var steps []Delta
		for _, a := range p.Accesses(f) {
			if !a.Write || !sameField(a.Field, cnt) || freshBase(a) {
				continue
			}
			d, ok := p.DeltaOf(a.Instr)
			if !ok || (d.By != 1 && d.By != -1) {
				return fmt.Sprintf("%s: the counter is written by something other than a step of one", p.At(a.Instr))
			}
			exclusive := false
			for _, mu := range mutexFields(backlogT) {
				if ex, ok := locks.Held(a.Instr)[AccessPath(a.Base).String()+"."+mu]; ok && ex {
					exclusive = true
				}
			}
			if !exclusive {
				return fmt.Sprintf("%s: the counter is stepped without the queue's exclusive mutex", p.At(a.Instr))
			}
			steps = append(steps, d)
		}
		touchesList := false
		allInstrs(f, func(ins ssa.Instruction) {
			if isListOp(ins, "(*container/list.List).PushFront", "(*container/list.List).PushBack", "(*container/list.List).Remove", "(*container/list.List).Init", "(*container/list.List).InsertBefore", "(*container/list.List).InsertAfter", "(*container/list.List).PushBackList", "(*container/list.List).PushFrontList") {
				touchesList = true
			}
		})
		if len(steps) == 0 && !touchesList {
			continue
		}
		why := ""
		_, trunc := EnumPaths(f, 20000, func(pa *Path) bool {
			if !pa.IsReturn() {
				return true
			}
			ups, downs, pushes, removes := 0, 0, 0, 0
			var downAt ssa.Instruction
			pa.Each(func(step int, ins ssa.Instruction) bool {
				if d, ok := p.DeltaOf(ins); ok && sameField(d.Field, cnt) {
					if d.By > 0 {
						ups++
					} else {
						downs++
						downAt = ins
					}
				}
				switch {
				case isListOp(ins, "(*container/list.List).PushFront", "(*container/list.List).PushBack", "(*container/list.List).InsertBefore", "(*container/list.List).InsertAfter"):
					pushes++
				case isListOp(ins, "(*container/list.List).Remove"):
					removes++
				case isListOp(ins, "(*container/list.List).Init", "(*container/list.List).PushBackList", "(*container/list.List).PushFrontList"):
					why = fmt.Sprintf("%s: the list is changed wholesale", p.At(ins))
				}
				return true
			})
			if why != "" {
				return false
			}
			if ups != pushes || ups > 1 {
				why = "a path inserts into the list and steps the counter up a different number of times: " + joinWitness(p.DescribePath(pa))
				return false
			}
			if downs != removes || downs > 1 {
				why = "a path removes from the list and steps the counter down a different number of times: " + joinWitness(p.DescribePath(pa))
				return false
			}
			nUp += ups
			if downs == 1 {
				nDown++
				// first-time guard: a boolean field tested false on this path and set true on it
				guarded := false
				for _, fact := range pa.Facts {
					fr, _, ok := loadedField(strip(fact.Cond, false))
					if !ok || fr.Type == nil || fact.True {
						continue
					}
					if b, isB := fact.Cond.Type().Underlying().(*types.Basic); !isB || b.Kind() != types.Bool {
						continue
					}
					pa.Each(func(step int, ins ssa.Instruction) bool {
						if st, ok := ins.(*ssa.Store); ok {
							if fa, ok := st.Addr.(*ssa.FieldAddr); ok {
								if f2, _, ok := fieldOf(fa); ok && sameField(f2, fr) {
									if c, ok := st.Val.(*ssa.Const); ok && c.Value != nil && c.Value.String() == "true" {
										guarded = true
									}
								}
							}
						}
						return true
					})
				}
				if !guarded {
					why = fmt.Sprintf("%s: the step down is not behind a first-time test (a flag tested unset and then set on the same path): the eviction function can run twice for one waiter", p.At(downAt))
					return false
				}
			}
			return true
		})
		if why != "" {
			return why
		}
		if trunc {
			return "path enumeration truncated in " + p.Key(f)
		}
	}
	if nUp == 0 || nDown == 0 {
		return "the counter is not stepped up with insertions and down with removals"
	}
	return ""
}

// c12SizeProof: the integer a backlog method reports is the length of the backlog's list - list.Len() itself, or a counter
// proved to mirror it - read under the queue mutex. Used for the accessor the admission bound reads (C12/O2) and for the
// supplier of the queue-size gauge (C20/O3).
func c12SizeProof(p *Prog, locks *LockInfo, backlogT *types.Named, listF FieldRef, lenFn *ssa.Function) (bad []string, okLen bool) {
	allInstrs(lenFn, func(ins ssa.Instruction) {
		if ret, ok := ins.(*ssa.Return); ok && len(ret.Results) == 1 {
			v := resolveLocalCell(strip(ret.Results[0], true))
			v = strip(v, true)
			if cv, ok := v.(*ssa.Convert); ok {
				v = strip(cv.X, true)
			}
			call, ok := v.(*ssa.Call)
			if !ok || !p.CallOf(call).Is("(*container/list.List).Len") {
				// a counter kept next to the list is the list's length if it is stepped only together with the list,
				// inside the queue's exclusive critical section, and the step down cannot run twice for one element
				if fr, base, isF := loadedField(v); isF && fr.Type != nil && types.Identical(fr.Type, backlogT) {
					if why := c12MirrorCounter(p, locks, backlogT, listF, fr); why == "" {
						held := locks.Held(ins)
						for _, mu := range mutexFields(backlogT) {
							if _, ok := held[AccessPath(base).String()+"."+mu]; ok {
								okLen = true
							}
						}
						if !okLen {
							bad = append(bad, fmt.Sprintf("%s: the mirrored length is read without the queue mutex", p.At(ins)))
						}
						return
					} else {
						bad = append(bad, fmt.Sprintf("%s: the reported backlog size is a counter that is not proved to mirror the list: %s", p.At(ins), why))
						return
					}
				}
				bad = append(bad, fmt.Sprintf("%s: the reported backlog size is not the list's own length (a mirrored counter can drift): %s", p.At(ins), valueString(v)))
				return
			}
			fr, base, ok := fieldPointerLoad(p.CallOf(call).Recv)
			if !ok || !sameField(fr, listF) {
				bad = append(bad, "the length is read from another list")
				return
			}
			held := locks.Held(call)
			for _, mu := range mutexFields(backlogT) {
				if _, ok := held[AccessPath(base).String()+"."+mu]; ok {
					okLen = true
				}
			}
			if !okLen {
				bad = append(bad, fmt.Sprintf("%s: the list length is read without the queue mutex", p.At(call)))
			}
		}
	})
	return bad, okLen
}
