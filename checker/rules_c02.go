package main

import (
	"fmt"
	"go/token"
	"go/types"
	"strings"

	"gclverify/xt/ssa"
)

func init() {
	register("C02", &ruleSet{
		run:    runC02,
		floors: map[string]int{"O1": 4, "O2": 6, "O3": 8, "O4": 1, "O5": 8, "O6": 1, "O7": 2, "O8": 3, "O9": 3, "O10": 6, "O11": 1},
		explain: "Decides the release/complete pairing on all CFG paths of all layers (timeout, cancel and refused hand-off are ordinary paths): (O1) each outcome of a " +
			"capacity-owning listener decrements the limiter's in-flight gauge by exactly 1 and releases the strategy token exactly once on every path; (O2) each " +
			"wrapping listener forwards OnX to the delegate's same-named method exactly once; (O3) typestate: every listener/token obtained from delegate.Acquire, " +
			"strategy.TryAcquire or an internal tryAcquire is, on every path on which it can hold capacity, consumed exactly once (returned as success, wrapped into the " +
			"returned listener, delivered to a waiter, or completed), including paths that loop; results obey 'listener iff ok'; (O4) the hand-off channel protocol " +
			"cannot strand a token; (O5) partitioned strategies charge total and bin +1 once on the grant path on the partition the release closure captures, and the " +
			"closure gives both back once under the strategy mutex; (O6) the limiter gauge is incremented exactly once on, and only on, the grant path and the listener " +
			"is wired to that gauge and that token; (O7) StaticStrategyToken.Release invokes the stored release function exactly once. Later obligations reuse sibling rules on the same tree: (O8) the counter discipline of the non-partitioned strategies (C01/O2), (O9) nobody who has left the backlog is handed capacity (C12/O2), (O10) the queue hand-off is one critical section with the give-up (C10/O5), (O11) a refusal is the strategy's answer to this call, never a remembered one (C01/O7). API misuse by callers (completing twice / never) is outside the statement.",
	})
}

var c02Outcomes = []string{"OnSuccess", "OnIgnore", "OnDropped"}

func runC02(p *Prog, l *Ledger) {
	l.Rule("O1", "owning listener: every outcome does gauge -1 exactly once and token.Release() exactly once on every path")
	l.Rule("O2", "wrapping listener: OnX calls the delegate's same-named OnX exactly once on every path")
	l.Rule("O3", "typestate: an obtained listener/token that may hold capacity is consumed exactly once on every path (incl. loop-back paths); results obey 'listener iff ok'")
	l.Rule("O4", "hand-off protocol cannot strand a token (unbuffered channel received only inside the waiter's single select, or a buffered one drained on give-up)")
	l.Rule("O5", "partitioned strategies: grant = total+1 and bin+1 once on the captured partition; release closure = total-1 and bin-1 once under the strategy mutex; refusal touches nothing")
	l.Rule("O6", "limiter Acquire: gauge +1 exactly once on and only on the grant path; the listener is wired to that gauge and to the granted token")
	l.Rule("O7", "StaticStrategyToken.Release invokes the stored release function exactly once; constructors store the given function")
	l.Rule("O8", "non-partitioned strategies (decided by the C01/O2 rule on the same tree): grant = counter +1 exactly once, refusal writes nothing, the token's release does -1 exactly once on the same counter, no other writer")
	importObligations(p, l, "C01", "O8", func(o *Obligation) bool { return o.Rule == "O2" })
	l.Rule("O9", "nobody who has left is handed capacity (decided by the C12/O2 rule on the same tree): a caller that returns from a queueing Acquire has taken its own element out of the backlog, so a later release cannot acquire a token for it and park it where nobody reads")
	importObligations(p, l, "C12", "O9", func(o *Obligation) bool { return o.Rule == "O2" })
	l.Rule("O10", "a hand-off that races with the waiter giving up loses nothing (decided by the C10/O5 rules on the same tree): selecting the waiter, acquiring for it, evicting and delivering are one critical section with the waiter's give-up, so a token is never delivered to a waiter that has already left and reported failure")
	importObligations(p, l, "C10", "O10", func(o *Obligation) bool { return o.Rule == "O5" })
	l.Rule("O11", "the limiter again admits its full limit (decided by the C01/O7 rule on the same tree): a refusal is the strategy's answer to this very request - a remembered refusal outlives the capacity that caused it when no completion is left to clear it")
	importObligations(p, l, "C01", "O11", func(o *Obligation) bool { return o.Rule == "O7" })
	l.NotCovered = []string{"callers completing a listener twice or never (API misuse)", "quiescent values (all zero) are a consequence, not separately computed"}

	lisIface := p.coreIface("Listener")
	tokNamed := p.coreNamed("StrategyToken")
	lisNamed := p.coreNamed("Listener")
	if lisIface == nil || tokNamed == nil {
		l.Infra("core.Listener / core.StrategyToken not found")
		return
	}
	locks := p.Locksets()

	// ---------------- O1 / O2
	for _, nt := range p.Implementers(lisIface) {
		if !strings.HasPrefix(p.TypeKey(nt), "limiter.") {
			continue
		}
		tokF := fieldsOfType(nt, tokNamed)
		delF := fieldsOfType(nt, lisNamed)
		var gaugeF []FieldRef
		if st, ok := nt.Underlying().(*types.Struct); ok {
			for i := 0; i < st.NumFields(); i++ {
				if pt, ok := st.Field(i).Type().(*types.Pointer); ok && isIntegral(pt.Elem()) {
					gaugeF = append(gaugeF, FieldRef{nt, i, st.Field(i).Name()})
				}
			}
		}
		if len(tokF) == 1 {
			// who may give the token back: the three outcomes (and what they call). A fourth way out - a watcher on the
			// request context, a finaliser, a Close - releases a token that an outcome will release again
			allowed := map[*ssa.Function]bool{}
			for _, mname := range c02Outcomes {
				if m := p.Method(nt, mname); m != nil {
					allowed[m] = true
				}
			}
			for i := 0; i < 2; i++ {
				for g := range allowed {
					allInstrs(g, func(ins ssa.Instruction) {
						if c := p.CallOf(ins); c != nil && c.Static != nil && p.InModule(c.Static) && !p.addrTaken[c.Static] {
							allowed[c.Static] = true
						}
					})
				}
			}
			var wbad []string
			nrel := 0
			for _, g := range p.Funcs {
				allInstrs(g, func(ins ssa.Instruction) {
					c := p.CallOf(ins)
					if c == nil || !p.isCoreInvoke(c, "StrategyToken", "Release") {
						return
					}
					if fr, _, ok := loadedField(strip(c.Recv, false)); ok && sameField(fr, tokF[0]) {
						nrel++
						if !allowed[g] {
							wbad = append(wbad, fmt.Sprintf("%s: the listener's token is released in %s, which is not one of its three outcomes: the unit of capacity can be given back twice", p.At(ins), p.Key(g)))
						}
					}
				})
			}
			l.Check(len(wbad) == 0 && nrel > 0, "O1", p.TypeKey(nt)+"/release-sites", "", fmt.Sprintf("%d token.Release() call sites, all inside OnSuccess / OnIgnore / OnDropped", nrel), "capacity can be given back by something other than the listener's single outcome", wbad...)
		}
		for _, mname := range c02Outcomes {
			m := p.Method(nt, mname)
			if m == nil {
				continue
			}
			key := p.Key(m)
			recv := m.Params[0]
			if len(tokF) == 1 {
				npaths := 0
				var bad []string
				EnumPaths(m, 100000, func(pa *Path) bool {
					if !pa.IsReturn() {
						return true
					}
					npaths++
					rel, dec := 0, 0
					pa.Each(func(step int, ins ssa.Instruction) bool {
						if call, ok := ins.(*ssa.Call); ok {
							c := p.CallOf(call)
							if p.isCoreInvoke(c, "StrategyToken", "Release") {
								if fr, base, ok := loadedField(strip(c.Recv, false)); ok && sameField(fr, tokF[0]) && AccessPath(base).Root == ssa.Value(recv) {
									rel++
								}
							}
							// a call of another method of the same listener on the same object gives back whatever that method
							// gives back (OnSuccess delegating to OnIgnore releases a second time)
							if c.Static != nil && c.Static != m && c.Recv != nil && c.Static.Signature.Recv() != nil {
								if d := derefNamed(c.Static.Signature.Recv().Type()); d != nil && types.Identical(d, nt) {
									if ap := AccessPath(c.Recv); ap.Root == ssa.Value(recv) && len(ap.Sel) == 0 {
										r2, d2 := c02GiveBack(p, c.Static, tokF[0], gaugeF, 3)
										rel += r2
										dec += d2
									}
								}
							}
						}
						if d, ok := p.DeltaOf(ins); ok && len(gaugeF) > 0 && sameField(d.Field, gaugeF[0]) && d.Pointee {
							if d.By == -1 {
								dec++
							} else {
								dec += 100
							}
						}
						return true
					})
					if rel != 1 {
						bad = append(bad, fmt.Sprintf("token.Release() runs %d times on the path %s", rel, joinWitness(p.DescribePath(pa))))
					}
					if len(gaugeF) > 0 && dec != 1 {
						bad = append(bad, fmt.Sprintf("the in-flight gauge is not decremented by exactly 1 exactly once on the path %s", joinWitness(p.DescribePath(pa))))
					}
					return len(bad) < 3
				})
				l.Count("paths", npaths)
				l.Check(len(bad) == 0, "O1", key, p.FuncPos(m), fmt.Sprintf("%d paths; each releases the token once and decrements the gauge once", npaths), "an outcome does not give back exactly one unit of capacity", bad...)
			}
			if len(delF) == 1 {
				npaths := 0
				var bad []string
				EnumPaths(m, 100000, func(pa *Path) bool {
					if !pa.IsReturn() {
						return true
					}
					npaths++
					var names []string
					pa.Each(func(step int, ins ssa.Instruction) bool {
						if call, ok := ins.(*ssa.Call); ok {
							c := p.CallOf(call)
							for _, o := range c02Outcomes {
								if p.isCoreInvoke(c, "Listener", o) {
									if fr, base, ok := loadedField(strip(c.Recv, false)); ok && sameField(fr, delF[0]) && AccessPath(base).Root == ssa.Value(recv) {
										names = append(names, o)
									}
								}
							}
						}
						return true
					})
					if len(names) != 1 || names[0] != mname {
						bad = append(bad, fmt.Sprintf("%s forwards %v to the delegate (want exactly [%s])", mname, names, mname))
					}
					return len(bad) < 3
				})
				l.Check(len(bad) == 0, "O2", key, p.FuncPos(m), fmt.Sprintf("%d paths; each calls delegate.%s exactly once", npaths, mname), "a wrapper does not complete its delegate exactly once with the same outcome", bad...)
			}
		}
	}

	c02Typestate(p, l)
	c02Handoff(p, l)
	c02Partitions(p, l, locks)
	c02LimiterGauge(p, l)
	c02Token(p, l)
}

// ---------------------------------------------------------------- O3 typestate

type c02Site struct {
	call   *ssa.Call
	val    ssa.Value // the listener / token
	ok     ssa.Value // the ok result, or nil
	kind   string    // "Acquire" | "TryAcquire" | helper key
	strict bool      // result contract "(non-nil,true) | (nil,false)" applies to the callee
}

func returnsListener(sig *types.Signature, lis, tok *types.Named) (bool, bool) {
	res := sig.Results()
	if res.Len() == 0 {
		return false, false
	}
	t0 := res.At(0).Type()
	if !(types.Identical(t0, lis) || types.Identical(t0, tok)) {
		return false, false
	}
	if res.Len() == 1 {
		return true, false
	}
	if b, ok := res.At(1).Type().Underlying().(*types.Basic); ok && b.Kind() == types.Bool && res.Len() == 2 {
		return true, true
	}
	return false, false
}

func c02Typestate(p *Prog, l *Ledger) {
	lis, tok := p.coreNamed("Listener"), p.coreNamed("StrategyToken")
	for _, f := range p.Funcs {
		pk := p.PkgOf(f)
		if !(pk == "limiter" || pk == "patterns/pool") {
			continue
		}
		var sites []*c02Site
		allInstrs(f, func(ins ssa.Instruction) {
			call, ok := ins.(*ssa.Call)
			if !ok {
				return
			}
			c := p.CallOf(call)
			s := &c02Site{call: call}
			switch {
			case p.callsRoleMethod(c, "Limiter", "Acquire"):
				s.kind, s.strict = "Acquire", true
			case p.callsRoleMethod(c, "Strategy", "TryAcquire"):
				s.kind = "TryAcquire"
			case c.Static != nil && p.InModule(c.Static) && p.PkgOf(c.Static) == "limiter":
				if yes, _ := returnsListener(c.Static.Signature, lis, tok); yes && !strings.HasPrefix(c.Static.Name(), "New") {
					s.kind, s.strict = p.Key(c.Static), true
				} else {
					return
				}
			default:
				return
			}
			if call.Call.Signature().Results().Len() == 1 {
				s.val = call
			} else if refs := call.Referrers(); refs != nil {
				for _, r := range *refs {
					if ex, ok := r.(*ssa.Extract); ok {
						if ex.Index == 0 {
							s.val = ex
						} else if ex.Index == 1 {
							s.ok = ex
						}
					}
				}
			}
			if s.val == nil {
				// result discarded entirely
				l.Bad("O3", fmt.Sprintf("%s/%s#discarded", p.Key(f), s.kind), p.At(call), "the acquired listener/token is discarded: its capacity can never be returned")
				return
			}
			sites = append(sites, s)
		})
		if len(sites) == 0 {
			continue
		}
		key := p.Key(f)
		npaths := 0
		var bad []string
		_, trunc := EnumPathsWithLoops(f, 200000, func(pa *Path) bool {
			if !pa.Cut && !pa.IsReturn() {
				return true
			}
			npaths++
			rv := pa.ReturnValues()
			order := map[ssa.Instruction]int{}
			k := 0
			pa.Each(func(step int, ins ssa.Instruction) bool { k++; order[ins] = k; return true })
			for si, s := range sites {
				if order[s.call] == 0 {
					continue
				}
				last := len(pa.Blocks)
				okTrue, okKnown := false, false
				if s.ok != nil {
					okTrue, okKnown = pa.FactOn(s.ok, last)
				}
				isNil := pa.HoldsRel(-1, func(r Rel) bool { return r.Op == token.EQL && strip(r.X, false) == s.val && isNilConst(r.Y) })
				nonNil := pa.HoldsRel(-1, func(r Rel) bool { return r.Op == token.NEQ && strip(r.X, false) == s.val && isNilConst(r.Y) })
				if s.strict && okKnown {
					if (okTrue && isNil) || (!okTrue && nonNil) {
						continue // contradicts the callee's result contract: infeasible
					}
				}
				held := true
				if okKnown && !okTrue {
					held = false
				}
				if isNil {
					held = false
				}
				// consumption events
				count := 0
				var how []string
				returnedAsSuccess := false
				// values are compared after resolving merges (phis) along the path: a result that flows through an inlined
				// helper's return, or through a local assigned on several branches, is still the same listener
				is := func(v ssa.Value, step int) bool {
					return v != nil && strip(pa.Resolve(v, step), false) == s.val
				}
				lastStep := len(pa.Blocks) - 1
				// (1) returned directly
				for ri, r := range rv {
					if is(r, lastStep) && ri == 0 {
						ok2 := true
						if len(rv) == 2 {
							r1 := strip(rv[1], false)
							if b, isB := constBool(r1); isB {
								ok2 = b
							} else if r1 != s.ok {
								ok2 = false
								bad = append(bad, fmt.Sprintf("%s: the listener of one acquisition is returned with the ok flag of something else", p.At(s.call)))
							}
						}
						if ok2 && len(rv) == 2 && strip(rv[1], false) == s.ok && okKnown && !okTrue {
							// both results of the refused call are passed on unchanged: a refusal, reported as one
						} else if ok2 {
							count++
							how = append(how, "returned")
							returnedAsSuccess = true
						} else {
							bad = append(bad, fmt.Sprintf("%s: a listener is returned together with ok=false", p.At(s.call)))
						}
					}
				}
				pa.Each(func(step int, ins ssa.Instruction) bool {
					if order[ins] <= order[s.call] {
						return true
					}
					switch x := ins.(type) {
					case *ssa.Store:
						if is(x.Val, step) {
							if fa, ok := x.Addr.(*ssa.FieldAddr); ok {
								if al, ok := AccessPath(fa.X).Root.(*ssa.Alloc); ok {
									// wrapped into a fresh struct: consumed iff that struct is returned as success
									wrappedRet := false
									for _, r := range rv {
										if strip(pa.Resolve(r, lastStep), false) == ssa.Value(al) {
											wrappedRet = true
										}
									}
									if wrappedRet {
										count++
										how = append(how, "wrapped into the returned listener")
										returnedAsSuccess = true
									}
								}
							}
						}
					case *ssa.Send:
						if is(x.X, step) {
							count++
							how = append(how, "sent")
						}
					case *ssa.Select:
						// a hand-off written in place: select { case ch <- listener: ...; default: ... }
						for si2, st2 := range x.States {
							if st2.Dir != types.SendOnly || !is(st2.Send, step) {
								continue
							}
							var idxV ssa.Value
							if refs := x.Referrers(); refs != nil {
								for _, r := range *refs {
									if ex, ok := r.(*ssa.Extract); ok && ex.Index == 0 {
										idxV = ex
									}
								}
							}
							chosen, known := -1, false
							for _, rel := range pa.Rels(-1) {
								if strip(rel.X, false) == idxV && idxV != nil {
									if k, ok := constInt(rel.Y); ok {
										if rel.Op == token.EQL {
											chosen, known = int(k), true
										} else if rel.Op == token.NEQ && int(k) == si2 {
											chosen, known = -2, true
										}
									}
								}
							}
							switch {
							case !known && len(x.States) == 1 && x.Blocking:
								count++
								how = append(how, "sent")
							case !known:
								bad = append(bad, fmt.Sprintf("%s: the listener is offered on a channel but the outcome of the select is not tested", p.At(x)))
							case chosen == si2:
								count++
								how = append(how, "delivered")
							}
						}
					case *ssa.Call:
						c := p.CallOf(x)
						for _, o := range c02Outcomes {
							if p.isCoreInvoke(c, "Listener", o) && is(c.Recv, step) {
								count++
								how = append(how, o)
							}
						}
						if p.isCoreInvoke(c, "StrategyToken", "Release") && is(c.Recv, step) {
							count++
							how = append(how, "Release")
						}
						if c.Static != nil && p.InModule(c.Static) {
							for _, a := range c.Args {
								if is(a, step) {
									res := c.Static.Signature.Results()
									if res.Len() == 1 {
										if b, ok := res.At(0).Type().Underlying().(*types.Basic); ok && b.Kind() == types.Bool {
											t, known := pa.FactOn(x, last)
											if !known {
												bad = append(bad, fmt.Sprintf("%s: the listener is handed to %s but the result (accepted?) is not tested", p.At(x), p.Key(c.Static)))
											} else if t {
												count++
												how = append(how, "delivered")
											}
											continue
										}
									}
									count++
									how = append(how, "passed to "+p.Key(c.Static))
								}
							}
						}
					}
					return true
				})
				where := "returns"
				if pa.Cut {
					where = "loops back"
				}
				switch {
				case held && count == 0:
					bad = append(bad, fmt.Sprintf("%s: a granted %s result is neither returned, delivered nor completed before the path %s: %s", p.At(s.call), s.kind, where, joinWitness(p.DescribePath(pa))))
				case count > 1:
					bad = append(bad, fmt.Sprintf("%s: the result is consumed %d times %v on one path", p.At(s.call), count, how))
				case !held && returnedAsSuccess && okKnown && !okTrue:
					bad = append(bad, fmt.Sprintf("%s: a refused acquisition is returned as a success", p.At(s.call)))
				}
				_ = si
			}
			return len(bad) < 4
		})
		l.Count("paths", npaths)
		if trunc {
			l.Unknown("O3", key, p.FuncPos(f), "path enumeration truncated")
			continue
		}
		l.Check(len(bad) == 0, "O3", key, p.FuncPos(f), fmt.Sprintf("%d acquisition sites, %d paths (incl. loop-back); every grant is consumed exactly once", len(sites), npaths), "capacity can leak or be returned twice", bad...)
	}

	// result contract: functions returning (Listener, bool)
	for _, f := range p.Funcs {
		pk := p.PkgOf(f)
		if !(pk == "limiter" || pk == "patterns/pool") || f.Parent() != nil {
			continue
		}
		yes, hasOK := returnsListener(f.Signature, lis, tok)
		if !yes || !hasOK || !types.Identical(f.Signature.Results().At(0).Type(), lis) {
			continue
		}
		key := p.Key(f) + "/contract"
		var bad []string
		n := 0
		EnumPaths(f, 200000, func(pa *Path) bool {
			rv := pa.ReturnValues()
			if len(rv) != 2 {
				return true
			}
			n++
			r0, r1 := strip(rv[0], false), strip(rv[1], false)
			if b, isB := constBool(r1); isB {
				if !b && !isNilConst(r0) {
					bad = append(bad, "returns a non-nil listener with ok=false: "+joinWitness(p.DescribePath(pa)))
				}
				if b && isNilConst(r0) {
					bad = append(bad, "returns a nil listener with ok=true: "+joinWitness(p.DescribePath(pa)))
				}
			} else {
				// pass-through: both results must come from the same call
				e0, ok0 := r0.(*ssa.Extract)
				e1, ok1 := r1.(*ssa.Extract)
				if !ok0 || !ok1 || e0.Tuple != e1.Tuple {
					bad = append(bad, "listener and ok flag do not come from the same acquisition")
				}
			}
			return len(bad) < 3
		})
		l.Check(len(bad) == 0, "O3", key, p.FuncPos(f), fmt.Sprintf("%d return paths: (nil,false), (listener,true) or an unchanged pass-through", n), "a listener is not returned if and only if ok is true", bad...)
	}
}

// ---------------------------------------------------------------- O4 hand-off channel

func c02Handoff(p *Prog, l *Ledger) {
	lis := p.coreNamed("Listener")
	n := 0
	for _, f := range p.Funcs {
		if !p.InPkg(f, "limiter") {
			continue
		}
		allInstrs(f, func(ins ssa.Instruction) {
			mc, ok := ins.(*ssa.MakeChan)
			if !ok {
				return
			}
			ch, _ := mc.Type().Underlying().(*types.Chan)
			if ch == nil || !types.Identical(ch.Elem(), lis) {
				return
			}
			n++
			key := p.Key(f) + "/handoff-chan"
			size, isC := constInt(mc.Size)
			if !isC {
				l.Unknown("O4", key, p.At(ins), "hand-off channel of non-constant capacity")
				return
			}
			if size == 0 {
				// protocol (a): unbuffered. Every receive of a Listener channel in the package must be a select case
				// (no bare receive), and every send must be non-blocking or in a select (a sender that blocks for ever strands itself).
				var bad []string
				for _, g := range p.Funcs {
					if !p.InPkg(g, "limiter") {
						continue
					}
					allInstrs(g, func(i2 ssa.Instruction) {
						switch x := i2.(type) {
						case *ssa.UnOp:
							if x.Op == token.ARROW {
								if c2, _ := x.X.Type().Underlying().(*types.Chan); c2 != nil && types.Identical(c2.Elem(), lis) {
									bad = append(bad, fmt.Sprintf("%s: listener received outside the waiter's select: a give-up cannot be atomic with the delivery", p.At(i2)))
								}
							}
						case *ssa.Send:
							if c2, _ := x.Chan.Type().Underlying().(*types.Chan); c2 != nil && types.Identical(c2.Elem(), lis) {
								bad = append(bad, fmt.Sprintf("%s: blocking send of a listener: the releaser can block for ever on a waiter that gave up", p.At(i2)))
							}
						case *ssa.Select:
							nrecv := 0
							for _, st := range x.States {
								if c2, _ := st.Chan.Type().Underlying().(*types.Chan); c2 != nil && types.Identical(c2.Elem(), lis) && st.Dir == types.RecvOnly {
									nrecv++
								}
							}
							_ = nrecv
						}
					})
				}
				l.Check(len(bad) == 0, "O4", key, p.At(ins), "unbuffered hand-off: a send succeeds only into the waiter's single select, so a delivered listener is always received", "the hand-off can strand a listener", bad...)
				return
			}
			// protocol (b): buffered: every give-up path of the receiver must drain the channel under the mutex the sender holds
			c02BufferedHandoff(p, l, f, mc, key)
		})
	}
	if n == 0 {
		l.Infra("no hand-off channel (chan core.Listener) found in package limiter")
	}
}

// c02BufferedHandoff checks protocol (b): buffered hand-off channel; every receiver give-up path drains it while
// holding the mutex under which senders deliver, and completes/returns a listener found there.
func c02BufferedHandoff(p *Prog, l *Ledger, f *ssa.Function, mc *ssa.MakeChan, key string) {
	lis := p.coreNamed("Listener")
	locks := p.Locksets()
	var bad []string
	nsel := 0
	for _, g := range p.Funcs {
		if !p.InPkg(g, "limiter") {
			continue
		}
		var sels []*ssa.Select
		allInstrs(g, func(ins ssa.Instruction) {
			if s, ok := ins.(*ssa.Select); ok && s.Blocking {
				for _, st := range s.States {
					if c2, _ := st.Chan.Type().Underlying().(*types.Chan); c2 != nil && types.Identical(c2.Elem(), lis) && st.Dir == types.RecvOnly {
						sels = append(sels, s)
					}
				}
			}
		})
		for _, s := range sels {
			nsel++
			// on every path through s that takes a non-hand-off case, a non-blocking receive (select with default) of the same
			// channel must follow, under an exclusive lock
			EnumPaths(g, 100000, func(pa *Path) bool {
				if !pa.IsReturn() || pa.StepOf(s) < 0 {
					return true
				}
				var idxV ssa.Value
				if refs := s.Referrers(); refs != nil {
					for _, r := range *refs {
						if ex, ok := r.(*ssa.Extract); ok && ex.Index == 0 {
							idxV = ex
						}
					}
				}
				chosen := -1
				for _, rel := range pa.Rels(-1) {
					if rel.Op == token.EQL && strip(rel.X, false) == idxV {
						if k, ok := constInt(rel.Y); ok {
							chosen = int(k)
						}
					}
				}
				if chosen < 0 || chosen >= len(s.States) {
					return true
				}
				if c2, _ := s.States[chosen].Chan.Type().Underlying().(*types.Chan); c2 != nil && types.Identical(c2.Elem(), lis) {
					return true // hand-off case
				}
				drained := false
				after := false
				pa.Each(func(step int, ins ssa.Instruction) bool {
					if ins == ssa.Instruction(s) {
						after = true
						return true
					}
					if !after {
						return true
					}
					if call, ok := ins.(*ssa.Call); ok {
						c := p.CallOf(call)
						if c.Static != nil && p.InModule(c.Static) {
							for _, a := range call.Call.Args {
								if ch, ok := a.Type().Underlying().(*types.Chan); ok && types.Identical(ch.Elem(), lis) {
									if p.drainHelper(c.Static) == "" {
										drained = true
									}
								}
							}
						}
					}
					if s2, ok := ins.(*ssa.Select); ok && !s2.Blocking {
						for _, st := range s2.States {
							if st.Dir == types.RecvOnly && sameValueOrLoad(st.Chan, s.States[0].Chan) || st.Dir == types.RecvOnly && types.Identical(st.Chan.Type(), s.States[0].Chan.Type()) {
								held := locks.Held(ins)
								for _, ex := range held {
									if ex {
										drained = true
									}
								}
							}
						}
					}
					return true
				})
				if !drained {
					bad = append(bad, fmt.Sprintf("%s: a give-up path does not drain the buffered hand-off channel under the delivery mutex: %s", p.At(s), joinWitness(p.DescribePath(pa))))
				}
				return len(bad) < 3
			})
		}
	}
	if nsel == 0 {
		bad = append(bad, "no waiter select receives from the hand-off channel")
	}
	l.Check(len(bad) == 0, "O4", key, p.At(mc), "buffered hand-off: every give-up path drains the channel under the delivery mutex", "a listener delivered concurrently with a give-up can be stranded in the channel buffer", bad...)
}

// ---------------------------------------------------------------- O5 partitions

func c02Partitions(p *Prog, l *Ledger, locks *LockInfo) {
	si := p.coreIface("Strategy")
	for _, st := range p.Implementers(si) {
		fn := p.Method(st, "TryAcquire")
		if fn == nil {
			continue
		}
		// partitioned strategies call a method named Acquire on a partition object
		partitioned := false
		allInstrs(fn, func(ins ssa.Instruction) {
			if call, ok := ins.(*ssa.Call); ok {
				c := p.CallOf(call)
				if c.Static != nil && c.Recv != nil && c.Static.Name() == "Acquire" && p.InPkg(c.Static, "strategy") {
					partitioned = true
				}
			}
		})
		if !partitioned {
			continue
		}
		key := p.Key(fn)
		recv := fn.Params[0]
		npaths := 0
		var bad []string
		var relFn *ssa.Function
		var relFr *frame
		var relAt ssa.Instruction
		EnumPaths(fn, 200000, func(pa *Path) bool {
			rv := pa.ReturnValues()
			if len(rv) != 2 {
				return true
			}
			npaths++
			granted, isB := constBool(strip(rv[1], false))
			if !isB {
				bad = append(bad, "ok result is not a constant on a path")
				return false
			}
			totalDelta := int64(0)
			ntotal := 0
			var binCalls []*ssa.Call
			pa.Each(func(step int, ins ssa.Instruction) bool {
				if d, ok := p.DeltaOf(ins); ok && types.Identical(d.Field.Type, st) && AccessPath(d.Base).Root == ssa.Value(recv) {
					totalDelta += d.By
					ntotal++
				}
				if call, ok := ins.(*ssa.Call); ok {
					c := p.CallOf(call)
					if c.Static != nil && c.Recv != nil && c.Static.Name() == "Acquire" && p.InPkg(c.Static, "strategy") {
						binCalls = append(binCalls, call)
					}
				}
				return true
			})
			if !granted {
				if ntotal != 0 || len(binCalls) != 0 {
					bad = append(bad, "a refusal path changes the total or a bin counter: "+joinWitness(p.DescribePath(pa)))
				}
				return len(bad) < 3
			}
			if ntotal != 1 || totalDelta != 1 {
				bad = append(bad, fmt.Sprintf("a grant path changes the total counter %d times by %+d in sum (want once, +1)", ntotal, totalDelta))
			}
			if len(binCalls) != 1 {
				bad = append(bad, fmt.Sprintf("a grant path charges %d bins (want exactly one)", len(binCalls)))
				return len(bad) < 3
			}
			last := len(pa.Blocks) - 1
			binObj := pa.Resolve(p.CallOf(binCalls[0]).Obj(), last)
			// token = NewAcquiredStrategyToken(_, releaseFn(binObj'))
			tokCall, ok := strip(rv[0], false).(*ssa.Call)
			if !ok {
				bad = append(bad, "granted token is not constructed by a call")
				return len(bad) < 3
			}
			tc := p.CallOf(tokCall)
			var relArg ssa.Value
			for _, a := range tc.Args {
				if _, isSig := a.Type().Underlying().(*types.Signature); isSig {
					relArg = a
				}
			}
			// the release function (a closure, a method value of a carrier struct, or what a helper builds from the charged
			// partition) is analysed once, in TryAcquire's frame; here: it releases the very bin this path charged
			rf, rfr := p.funcValueFrame(relArg, nil)
			if rf == nil || rf.Blocks == nil {
				bad = append(bad, "cannot resolve the release function of the granted token: "+valueString(strip(relArg, false)))
				return len(bad) < 3
			}
			if relFn == nil {
				relFn, relFr, relAt = rf, rfr, tokCall
			} else if relFn != rf {
				bad = append(bad, "grant paths build their release functions differently")
				return len(bad) < 3
			}
			for _, root := range c02ReleasedBins(p, rf, rfr) {
				sameObj := func(a, b ssa.Value) bool {
					norm := func(v ssa.Value) ssa.Value {
						v = strip(v, false)
						if u, ok := v.(*ssa.UnOp); ok && u.Op == token.MUL {
							return strip(u.X, false) // the slot a pointer was loaded from names the object
						}
						return v
					}
					return a != nil && b != nil && norm(a) == norm(b)
				}
				if root == nil || !sameObj(pa.Resolve(root, last), binObj) {
					bad = append(bad, fmt.Sprintf("%s: the release function is bound to a different partition than the one charged (%s; on this path %s, charged %s)", p.At(tokCall), valueString(root), valueString(pa.Resolve(root, last)), valueString(binObj)))
				}
			}
			return len(bad) < 3
		})
		l.Count("paths", npaths)
		l.Check(len(bad) == 0 && npaths > 0, "O5", key, p.FuncPos(fn), fmt.Sprintf("%d paths; grants charge total+1 and one bin, refusals touch nothing; the release closure captures the charged partition", npaths), "bins and total can drift apart", bad...)
		if relFn == nil {
			l.Bad("O5", key+"/release", p.FuncPos(fn), "no grant path hands a release function to its token")
			continue
		}
		_ = relAt
		// the release function itself: total-1 once under the strategy's exclusive mutex, one bin released
		{
			cl := relFn
			ckey := p.Key(cl)
			var cbad []string
			n := 0
			var binType *types.Named
			EnumPaths(cl, 10000, func(pa *Path) bool {
				if !pa.IsReturn() {
					return true
				}
				n++
				total, ntotal, nbin := int64(0), 0, 0
				pa.Each(func(step int, ins ssa.Instruction) bool {
					if tgt, by, ok := c02CounterUpdate(p, ins, relFr); ok && tgt.Root == ssa.Value(recv) && len(tgt.Fields) == 1 && types.Identical(tgt.Fields[0].Type, st) {
						total += by
						ntotal++
						okLock := false
						for _, h := range c02HeldOuter(p, locks, cl, relFr, ins) {
							if h.Root == ssa.Value(recv) && len(h.Fields) == 1 {
								for _, m := range mutexFields(st) {
									if h.Fields[0].Name == m {
										okLock = true
									}
								}
							}
						}
						if !okLock {
							cbad = append(cbad, fmt.Sprintf("%s: total counter released without the strategy's exclusive mutex", p.At(ins)))
						}
					}
					if call, ok := ins.(*ssa.Call); ok {
						c := p.CallOf(call)
						if c.Recv != nil && c.MethodName() == "Release" && (c.Iface != nil || (c.Static != nil && p.InPkg(c.Static, "strategy"))) {
							nbin++
							if c.Static != nil {
								binType = derefNamed(c.Static.Signature.Recv().Type())
							}
						}
					}
					return true
				})
				if ntotal != 1 || total != -1 || nbin != 1 {
					cbad = append(cbad, fmt.Sprintf("release function changes total %d times by %+d and releases %d bins (want once, -1, one bin)", ntotal, total, nbin))
				}
				return len(cbad) < 3
			})
			l.Check(len(cbad) == 0 && n > 0, "O5", ckey, p.FuncPos(cl), "gives back total-1 and the captured bin once, under the strategy mutex", "the release closure does not give back exactly what was charged", cbad...)
			_ = binType
		}
		// who may write the total: TryAcquire (+1 on a grant), the release function (-1) and constructors. Any other
		// writer (a 'correction' when a partition is removed, a reset) makes the total differ from the outstanding tokens
		{
			var totals []FieldRef
			allInstrs(fn, func(ins ssa.Instruction) {
				if d, ok := p.DeltaOf(ins); ok && types.Identical(d.Field.Type, st) {
					totals = append(totals, d.Field)
				}
			})
			allowed := map[*ssa.Function]bool{fn: true, relFn: true}
			for i := 0; i < 2; i++ {
				for g := range allowed {
					if g == nil {
						continue
					}
					allInstrs(g, func(ins ssa.Instruction) {
						if c := p.CallOf(ins); c != nil && c.Static != nil && p.InModule(c.Static) {
							allowed[c.Static] = true
						}
					})
				}
			}
			var wbad []string
			nw := 0
			for _, g := range p.Funcs {
				for _, a := range p.Accesses(g) {
					if !a.Write || a.Pointee {
						continue
					}
					isTotal := false
					for _, t := range totals {
						if sameField(a.Field, t) {
							isTotal = true
						}
					}
					if !isTotal {
						continue
					}
					if _, fresh := AccessPath(a.Base).Root.(*ssa.Alloc); fresh {
						continue
					}
					nw++
					if !allowed[g] {
						wbad = append(wbad, fmt.Sprintf("%s: the strategy's total counter %s is written in %s, which neither grants nor releases a token", p.At(a.Instr), a.Field.Name, p.Key(g)))
					}
				}
			}
			l.Check(len(wbad) == 0 && nw > 0, "O5", key+"/total-writers", p.FuncPos(fn), fmt.Sprintf("%d writes of the total counter, all in TryAcquire / the release function", nw), "the total can differ from the number of outstanding tokens", wbad...)
		}
		// bin Acquire / Release are +1 / -1 on the same field
		var pt *types.Named
		allInstrs(fn, func(ins ssa.Instruction) {
			if call, ok := ins.(*ssa.Call); ok {
				c := p.CallOf(call)
				if c.Static != nil && c.Recv != nil && c.Static.Name() == "Acquire" && p.InPkg(c.Static, "strategy") {
					pt = derefNamed(c.Static.Signature.Recv().Type())
				}
			}
		})
		if pt != nil {
			for _, pair := range [][2]interface{}{{"Acquire", int64(1)}, {"Release", int64(-1)}} {
				m := p.Method(pt, pair[0].(string))
				if m == nil {
					l.Bad("O5", p.TypeKey(pt)+"."+pair[0].(string), "", "partition has no "+pair[0].(string))
					continue
				}
				var ds []Delta
				allInstrs(m, func(ins ssa.Instruction) {
					if d, ok := p.DeltaOf(ins); ok {
						ds = append(ds, d)
					}
				})
				okD := len(ds) == 1 && ds[0].By == pair[1].(int64) && len(m.Blocks) >= 1
				if okD && pair[0].(string) == "Acquire" {
					// who may write the bin counter: the partition's own Acquire / Release (and constructors)
					var wbad []string
					// (the counter may live in a struct shared by several partition types: every partition's Acquire /
					// Release, and what they call, may write it)
					binOK := map[*ssa.Function]bool{}
					for _, g := range p.Funcs {
						if p.InPkg(g, "strategy") && g.Signature.Recv() != nil && (g.Name() == "Acquire" || g.Name() == "Release") {
							binOK[g] = true
						}
					}
					for i := 0; i < 2; i++ {
						for g := range binOK {
							allInstrs(g, func(ins ssa.Instruction) {
								if c := p.CallOf(ins); c != nil && c.Static != nil && p.InModule(c.Static) && p.InPkg(c.Static, "strategy") {
									binOK[c.Static] = true
								}
							})
						}
					}
					for _, g := range p.Funcs {
						if binOK[g] {
							continue
						}
						for _, a := range p.Accesses(g) {
							if a.Write && !a.Pointee && sameField(a.Field, ds[0].Field) {
								if _, fresh := AccessPath(a.Base).Root.(*ssa.Alloc); !fresh {
									wbad = append(wbad, fmt.Sprintf("%s: the bin counter %s is written in %s", p.At(a.Instr), a.Field.Name, p.Key(g)))
								}
							}
						}
					}
					l.Check(len(wbad) == 0, "O5", p.TypeKey(pt)+"/bin-writers", p.FuncPos(m), "the bin counter is written only by the partition's Acquire and Release", "a bin count can differ from the outstanding tokens of that bin", wbad...)
				}
				l.Check(okD, "O5", p.Key(m), p.FuncPos(m), fmt.Sprintf("changes the bin counter by %+d exactly once", pair[1].(int64)), fmt.Sprintf("partition %s does not change the bin counter by exactly %+d", pair[0], pair[1].(int64)))
			}
		}
	}
}

// ---------------------------------------------------------------- O6 limiter gauge

func c02LimiterGauge(p *Prog, l *Ledger) {
	lisIface := p.coreIface("Listener")
	tokNamed := p.coreNamed("StrategyToken")
	n := 0
	for _, nt := range p.Implementers(lisIface) {
		tokF := fieldsOfType(nt, tokNamed)
		if len(tokF) != 1 || !strings.HasPrefix(p.TypeKey(nt), "limiter.") {
			continue
		}
		var gaugeF *FieldRef
		st := nt.Underlying().(*types.Struct)
		for i := 0; i < st.NumFields(); i++ {
			if pt, ok := st.Field(i).Type().(*types.Pointer); ok && isIntegral(pt.Elem()) {
				g := FieldRef{nt, i, st.Field(i).Name()}
				gaugeF = &g
			}
		}
		for _, f := range p.Funcs {
			allocs := p.allocsOf(f, nt)
			if len(allocs) == 0 || !p.InPkg(f, "limiter") {
				continue
			}
			n++
			key := p.Key(f)
			npaths := 0
			var bad []string
			EnumPaths(f, 100000, func(pa *Path) bool {
				rv := pa.ReturnValues()
				if len(rv) != 2 {
					return true
				}
				npaths++
				var al *ssa.Alloc
				for _, a := range allocs {
					if strip(rv[0], false) == ssa.Value(a) {
						al = a
					}
				}
				inc, ninc := int64(0), 0
				var incBase string
				var incField FieldRef
				pa.Each(func(step int, ins ssa.Instruction) bool {
					if d, ok := p.DeltaOf(ins); ok && d.Pointee && d.Atomic {
						inc += d.By
						ninc++
						incBase = AccessPath(d.Base).String()
						incField = d.Field
					}
					return true
				})
				if al == nil {
					if ninc != 0 {
						bad = append(bad, "the in-flight gauge is changed on a refusal path: "+joinWitness(p.DescribePath(pa)))
					}
					return len(bad) < 3
				}
				if gaugeF != nil {
					if ninc != 1 || inc != 1 {
						bad = append(bad, fmt.Sprintf("the grant path changes the gauge %d times by %+d in sum (want once, +1)", ninc, inc))
					}
					// listener.gauge = limiter.gauge (same pointer that was incremented)
					gv := storesInto(al, *gaugeF)
					if len(gv) != 1 {
						bad = append(bad, "the listener's gauge pointer is not initialised exactly once")
					} else if fr, base, ok := loadedField(strip(gv[0], false)); !ok || !sameField(fr, incField) || AccessPath(base).String() != incBase {
						bad = append(bad, "the listener is wired to a different gauge than the one incremented")
					}
				}
				// listener.token = the token granted on this path
				tv := storesInto(al, tokF[0])
				if len(tv) != 1 {
					bad = append(bad, "the listener's token is not initialised exactly once")
				} else {
					ex, ok := strip(tv[0], false).(*ssa.Extract)
					if !ok {
						bad = append(bad, "the listener's token is not the strategy's TryAcquire result")
					} else if call, ok := ex.Tuple.(*ssa.Call); !ok || !p.callsRoleMethod(p.CallOf(call), "Strategy", "TryAcquire") {
						bad = append(bad, "the listener's token is not the strategy's TryAcquire result")
					}
				}
				return len(bad) < 3
			})
			l.Check(len(bad) == 0 && npaths > 0, "O6", key, p.FuncPos(f), fmt.Sprintf("%d paths; grant increments the gauge once and hands the listener that gauge and the granted token; refusals touch nothing", npaths), "the in-flight gauge and the listener are not wired to the grant", bad...)
		}
	}
	if n == 0 {
		l.Infra("no function constructing a capacity-owning listener found")
	}
}

// ---------------------------------------------------------------- O7 token

func c02Token(p *Prog, l *Ledger) {
	tt := p.Named("core", "StaticStrategyToken")
	if tt == nil {
		l.Infra("core.StaticStrategyToken not found")
		return
	}
	rel := p.Method(tt, "Release")
	if rel == nil {
		l.Infra("StaticStrategyToken.Release not found")
		return
	}
	var fnField FieldRef
	st := tt.Underlying().(*types.Struct)
	for i := 0; i < st.NumFields(); i++ {
		if _, ok := st.Field(i).Type().Underlying().(*types.Signature); ok {
			fnField = FieldRef{tt, i, st.Field(i).Name()}
		}
	}
	var bad []string
	n := 0
	EnumPaths(rel, 1000, func(pa *Path) bool {
		if !pa.IsReturn() {
			return true
		}
		n++
		calls := 0
		pa.Each(func(step int, ins ssa.Instruction) bool {
			if call, ok := ins.(*ssa.Call); ok {
				c := p.CallOf(call)
				if c.Name == "dynamic" {
					if fr, _, ok := loadedField(strip(c.FnVal, false)); ok && sameField(fr, fnField) {
						calls++
					}
				}
			}
			return true
		})
		isNil := pa.HoldsRel(-1, func(r Rel) bool {
			fr, _, ok := loadedField(strip(r.X, false))
			return r.Op == token.EQL && ok && sameField(fr, fnField) && isNilConst(r.Y)
		})
		if isNil {
			if calls != 0 {
				bad = append(bad, "calls a nil release function")
			}
		} else if calls != 1 {
			bad = append(bad, fmt.Sprintf("release function invoked %d times on a path (want exactly once)", calls))
		}
		return true
	})
	l.Check(len(bad) == 0 && n > 0, "O7", p.Key(rel), p.FuncPos(rel), fmt.Sprintf("%d paths; the stored release function runs exactly once when present", n), "releasing a token does not run its release function exactly once", bad...)
	// constructor of an acquired token stores its function parameter
	for _, c := range p.Funcs {
		if !p.InPkg(c, "core") || c.Parent() != nil || p.allocOf(c, tt) == nil {
			continue
		}
		var fp *ssa.Parameter
		for _, q := range c.Params {
			if _, ok := q.Type().Underlying().(*types.Signature); ok {
				fp = q
			}
		}
		if fp == nil {
			continue
		}
		al := p.allocOf(c, tt)
		vals := storesInto(al, fnField)
		okS := len(vals) == 1 && strip(vals[0], false) == ssa.Value(fp)
		l.Check(okS, "O7", p.Key(c), p.FuncPos(c), "stores the given release function into the token", "the acquired token does not keep the release function it was given")
	}
}

// drainHelper: g takes a receive-only / bidirectional chan core.Listener parameter and, on every returning path,
// performs a non-blocking receive (select with default) from that parameter while holding an exclusive mutex; its result
// is nil or the received listener. Returns "" when g has that shape.
func (p *Prog) drainHelper(g *ssa.Function) string {
	lis := p.coreNamed("Listener")
	if g == nil || len(g.Blocks) == 0 {
		return "not a module function"
	}
	var chP *ssa.Parameter
	for _, q := range g.Params {
		if c, ok := q.Type().Underlying().(*types.Chan); ok && types.Identical(c.Elem(), lis) {
			chP = q
		}
	}
	if chP == nil {
		return "takes no hand-off channel"
	}
	locks := p.Locksets()
	why := ""
	n := 0
	EnumPaths(g, 10000, func(pa *Path) bool {
		if !pa.IsReturn() {
			return true
		}
		n++
		var sel *ssa.Select
		pa.Each(func(step int, ins ssa.Instruction) bool {
			if s2, ok := ins.(*ssa.Select); ok && !s2.Blocking {
				for _, st := range s2.States {
					if st.Dir == types.RecvOnly && strip(st.Chan, false) == ssa.Value(chP) {
						sel = s2
					}
				}
			}
			return true
		})
		if sel == nil {
			why = "a path does not poll the hand-off channel: " + joinWitness(p.DescribePath(pa))
			return false
		}
		excl := false
		for _, ex := range locks.Held(sel) {
			if ex {
				excl = true
			}
		}
		if !excl {
			why = "the hand-off channel is polled without holding the delivery mutex"
			return false
		}
		rv := pa.ReturnValues()
		returnsReceived := false
		for _, r := range rv {
			r = strip(r, false)
			if isNilConst(r) {
				continue
			}
			if ex, ok := r.(*ssa.Extract); ok && ex.Tuple == ssa.Value(sel) {
				returnsReceived = true
				continue
			}
			if types.Identical(r.Type(), lis) {
				why = "returns a listener that was not received from the hand-off channel"
				return false
			}
		}
		// a path that found a listener in the channel hands it to its caller: it was delivered together with the
		// capacity, so completing it here (or dropping it) frees that capacity without waking the next waiter and
		// refuses a caller that had been granted
		received := false
		pa.Each(func(step int, ins ssa.Instruction) bool {
			if ex, ok := ins.(*ssa.Extract); ok && ex.Tuple == ssa.Value(sel) && ex.Index >= 2 {
				received = true
			}
			return true
		})
		for _, fct := range pa.Facts {
			bo, ok := fct.Cond.(*ssa.BinOp)
			if !ok || bo.Op != token.EQL || !fct.True {
				continue
			}
			if ex, ok := strip(bo.X, false).(*ssa.Extract); ok && ex.Tuple == ssa.Value(sel) && ex.Index == 0 {
				if k, isC := constInt(bo.Y); isC && int(k) < len(sel.States) && sel.States[k].Dir == types.RecvOnly {
					received = true
				}
			}
		}
		if received && !returnsReceived {
			why = "a listener found in the hand-off channel is not returned to the caller (it was delivered together with the capacity: completing or dropping it here frees the capacity without waking the next waiter): " + joinWitness(p.DescribePath(pa))
			return false
		}
		return true
	})
	if n == 0 && why == "" {
		why = "no returning path"
	}
	return why
}

// c02CounterUpdate: ins changes a counter by a constant (x.f++ / x.f -= k / *p-- / atomic.Add); returns the counter's
// access path named in the outermost frame of fr.
func c02CounterUpdate(p *Prog, ins ssa.Instruction, fr *frame) (AP, int64, bool) {
	if d, ok := p.DeltaOf(ins); ok {
		if st, isStore := ins.(*ssa.Store); isStore {
			return p.OuterAP(st.Addr, fr), d.By, true
		}
		return p.OuterAP(p.CallOf(ins).Args[0], fr), d.By, true
	}
	switch x := ins.(type) {
	case *ssa.Store:
		// *ptr = *ptr +/- k through a pointer that is not a field address
		bo, ok := strip(x.Val, false).(*ssa.BinOp)
		if !ok || (bo.Op != token.ADD && bo.Op != token.SUB) {
			return AP{}, 0, false
		}
		k, isC := constInt(bo.Y)
		if !isC {
			return AP{}, 0, false
		}
		ld, ok := bo.X.(*ssa.UnOp)
		if !ok || ld.Op != token.MUL || ld.X != x.Addr {
			return AP{}, 0, false
		}
		if bo.Op == token.SUB {
			k = -k
		}
		return p.OuterAP(x.Addr, fr), k, true
	case *ssa.Call:
		c := p.CallOf(x)
		if atomicOpOf(c.Name) == "Add" && len(c.Args) == 2 {
			if k, isC := constInt(c.Args[1]); isC {
				return p.OuterAP(c.Args[0], fr), k, true
			}
		}
	}
	return AP{}, 0, false
}

// c02HeldOuter: the mutexes held exclusively at ins in fn, named in the outermost frame of fr.
func c02HeldOuter(p *Prog, locks *LockInfo, fn *ssa.Function, fr *frame, ins ssa.Instruction) []AP {
	var out []AP
	held := locks.Held(ins)
	allInstrs(fn, func(i2 ssa.Instruction) {
		call, ok := i2.(*ssa.Call)
		if !ok {
			return
		}
		c := p.CallOf(call)
		if op, key := p.lockOpOf(c); op == opLock {
			if ex, ok := held[key]; ok && ex {
				out = append(out, p.OuterAP(c.Recv, fr))
			}
		}
	})
	return out
}

// c02ReleasedBins: the receivers of the partition Release calls made by the release function, named in the outermost
// frame (the frame of TryAcquire).
func c02ReleasedBins(p *Prog, fn *ssa.Function, fr *frame) []ssa.Value {
	var out []ssa.Value
	allInstrs(fn, func(ins ssa.Instruction) {
		call, ok := ins.(*ssa.Call)
		if !ok {
			return
		}
		c := p.CallOf(call)
		if c.Recv != nil && c.MethodName() == "Release" && (c.Iface != nil || (c.Static != nil && p.InPkg(c.Static, "strategy"))) {
			ap := p.OuterAP(c.Recv, fr)
			// a method promoted from an embedded struct is called on the embedded field of the same object
			embeddedOnly := true
			for _, f := range ap.Fields {
				st := structOf(f.Type)
				if f.Type == nil || st == nil || f.Index >= st.NumFields() || !st.Field(f.Index).Embedded() {
					embeddedOnly = false
				}
			}
			if embeddedOnly {
				out = append(out, ap.Root)
			} else {
				out = append(out, nil)
			}
		}
	})
	return out
}

// c02GiveBack: how many times fn (a method of an owning listener) releases the token and decrements the gauge, when
// that number is the same on every returning path; 100 marks "differs between paths" so that the caller's count fails.
func c02GiveBack(p *Prog, fn *ssa.Function, tok FieldRef, gauge []FieldRef, depth int) (int, int) {
	if fn == nil || fn.Blocks == nil || depth <= 0 {
		return 0, 0
	}
	recv := fn.Params[0]
	first := true
	relAll, decAll := 0, 0
	EnumPaths(fn, 20000, func(pa *Path) bool {
		if !pa.IsReturn() {
			return true
		}
		rel, dec := 0, 0
		pa.Each(func(step int, ins ssa.Instruction) bool {
			if call, ok := ins.(*ssa.Call); ok {
				c := p.CallOf(call)
				if p.isCoreInvoke(c, "StrategyToken", "Release") {
					if fr, base, ok := loadedField(strip(c.Recv, false)); ok && sameField(fr, tok) && AccessPath(base).Root == ssa.Value(recv) {
						rel++
					}
				}
				if c.Static != nil && c.Static != fn && c.Recv != nil && c.Static.Signature.Recv() != nil && types.Identical(c.Static.Signature.Recv().Type(), fn.Signature.Recv().Type()) {
					if ap := AccessPath(c.Recv); ap.Root == ssa.Value(recv) && len(ap.Sel) == 0 {
						r2, d2 := c02GiveBack(p, c.Static, tok, gauge, depth-1)
						rel += r2
						dec += d2
					}
				}
			}
			if d, ok := p.DeltaOf(ins); ok && len(gauge) > 0 && sameField(d.Field, gauge[0]) && d.Pointee {
				if d.By == -1 {
					dec++
				} else {
					dec += 100
				}
			}
			return true
		})
		if first {
			relAll, decAll, first = rel, dec, false
		} else {
			if rel != relAll {
				relAll = 100
			}
			if dec != decAll {
				decAll = 100
			}
		}
		return true
	})
	return relAll, decAll
}
