package main

import (
	"fmt"
	"go/token"
	"go/types"
	"strings"

	"gclverify/xt/ssa"
)

func init() {
	register("C06", &ruleSet{
		run:    runC06,
		floors: map[string]int{"O1": 3, "O2": 1, "O3": 4, "O4": 3, "O5": 2},
		explain: "Decides the direction clauses of the loss response (real arithmetic; the exact AIMD value and the bounded-steps convergence are declined: the first would be a " +
			"frozen term match, the second is numeric): (O1) drop never raises: in AIMD, Vegas and Gradient, on every path on which the drop flag's true edge was taken and the " +
			"estimate is stored, the stored value is proved <= max(old estimate, the algorithm's own lower clamp: 1 / minLimit / queue allowance); AIMD additionally makes " +
			"progress: the value under max(1, .) is proved strictly below the old limit; (O2) drop routes to the decrease rule: in Vegas the candidate on every drop path is the " +
			"result of the function field whose built-in default is x - g(x), applied to the current estimate, and the built-in step g is >= 0 (table entries >= 1 by their " +
			"initialiser); (O3) drop is decided before the demand gate: every path on which the drop flag is true stores a decrease, except the probe / baseline-reset returns.",
	})
}

func runC06(p *Prog, l *Ledger) {
	l.Rule("O1", "drop never raises: on drop paths the stored estimate is proved <= max(old estimate, lower clamp); AIMD: strictly below the old limit unless at the floor")
	l.Rule("O2", "drop routes to the decrease rule (Vegas): the drop candidate is the decrease function applied to the current estimate; built-in step g(x) >= 0")
	l.Rule("O3", "drop is decided before the demand gate: every drop path stores a decrease, except probe / baseline-reset returns")
	l.NotCovered = []string{"the exact AIMD value max(1, min(limit-1, floor(limit x ratio)))", "reaching the floor within a bounded number of samples", "user-supplied decrease functions", "Gradient2 (not loss-sensitive by design)"}
	l.Assume("valid configuration: backoff ratio in (0,1], smoothing in (0,1], minLimit <= maxLimit; inductive hypothesis on the old estimate")

	l.Rule("O5", "a drop reaches the update (decided by the C15/O4 rule on the same tree): the probe branch, which returns before the loss response, re-arms its counter every time it fires - a probe that stays due swallows every later sample, drops included")
	importObligations(p, l, "C15", "O5", func(o *Obligation) bool { return o.Rule == "O4" })
	l.Rule("O4", "the update is atomic: every read of the estimate that feeds a stored estimate happens in the same exclusive critical section as the store")
	locksC06 := p.Locksets()
	for _, af := range algoFuncs(p, l) {
		if af.A.T.Obj().Name() == "Gradient2Limit" {
			continue
		}
		n, bad := algoRMWProblems(p, locksC06, af)
		l.Check(len(bad) == 0 && n > 0, "O4", p.Key(af.Fn)+"/read-modify-write", p.FuncPos(af.Fn), fmt.Sprintf("%d store(s): computed from the estimate read under the same hold of the exclusive mutex", n), "overlapping samples can apply the loss response to a stale estimate (a drop can end up raising it)", bad...)
	}
	stepOK, stepWhy := tableStepNonNegative(p)
	for _, af := range algoFuncs(p, l) {
		if af.A.T.Obj().Name() == "Gradient2Limit" {
			continue
		}
		key := p.Key(af.Fn)
		if af.Drop == nil {
			l.Unknown("O1", key, p.FuncPos(af.Fn), "cannot map the drop flag of OnSample onto this function's parameters")
			continue
		}
		roles, roleProblems := funcFieldRoles(p, af.A.T)
		hasFuncFields := len(roles) > 0
		var bad1, bad2, bad3 []string
		ndrop, nstore := 0, 0
		_, trunc := EnumPaths(af.Fn, 400000, func(pa *Path) bool {
			if !pa.IsReturn() {
				return true
			}
			isDrop, known := pa.FactOn(af.Drop, len(pa.Blocks))
			if known && !isDrop {
				return true
			}
			if !known {
				// the path never tested the drop flag, so the sample may be a drop: it must not return untouched
				touched := c06BaselineReturn(p, pa)
				pa.Each(func(step int, ins ssa.Instruction) bool {
					for _, s := range af.Stores {
						if ins == s.Instr {
							touched = true
						}
					}
					return true
				})
				if !touched {
					bad3 = append(bad3, "a sample that may be a drop returns before the drop flag is examined: "+joinWitness(p.DescribePath(pa)))
				}
				return len(bad3) < 3
			}
			ndrop++
			var stores []FieldAccess
			for _, s := range af.Stores {
				if pa.Contains(s.Instr) {
					stores = append(stores, s)
				}
			}
			if len(stores) == 0 {
				// allowed only for probe / baseline-reset returns
				reset := c06BaselineReturn(p, pa)
				if !reset {
					bad3 = append(bad3, "a drop sample returns without lowering the estimate (the demand gate or another return precedes the drop handling): "+joinWitness(p.DescribePath(pa)))
				}
				return len(bad3) < 3
			}
			for _, s := range stores {
				nstore++
				st := pa.StepOf(s.Instr)
				pr := &prover{p: p, pa: pa, step: st, entry: af.Entry}
				c04Axioms(p, pr, af.A, pa, l)
				pr.axiomGE(atomField(af.A.Est), atomConst(0))
				// backoff-style ratio fields in (0,1]
				stT := af.A.T.Underlying().(*types.Struct)
				for i := 0; i < stT.NumFields(); i++ {
					if strings.Contains(strings.ToLower(stT.Field(i).Name()), "ratio") && isFloat(stT.Field(i).Type()) {
						fr := FieldRef{af.A.T, i, stT.Field(i).Name()}
						pr.axiomGE(atomField(fr), atomConst(0))
						pr.axiomLE(atomField(fr), atomConst(1))
					}
				}
				UL := atomLabel("max(old estimate, lower clamp)")
				pr.axiomGE(UL, atomField(af.A.Est))
				pr.axiomGE(UL, atomConst(1))
				if af.A.Min != nil {
					pr.axiomGE(UL, atomField(*af.A.Min))
				}
				// queue allowance values and decrease-function results on the path
				var dropCand ssa.Value
				pa.Each(func(step int, ins ssa.Instruction) bool {
					call, ok := ins.(*ssa.Call)
					if !ok {
						return true
					}
					c := p.CallOf(call)
					if c.Name != "dynamic" {
						return true
					}
					fr, _, ok := loadedField(strip(c.FnVal, false))
					if !ok {
						return true
					}
					if strings.Contains(strings.ToLower(fr.Name), "queue") {
						pr.axiomGE(UL, atomVal(call))
					}
					if roles[fr.Index] == "decrease" && len(c.Args) == 1 && stepOK && len(roleProblems) == 0 {
						pr.axiomLE(atomVal(call), atomVal(c.Args[0])) // x - g(x) <= x  with g >= 0
						dropCand = call
					}
					return true
				})
				pr.budget = 8000
				if !pr.rel(UL, atomVal(s.Val), false, 0) {
					bad1 = append(bad1, fmt.Sprintf("%s: on a drop path the stored estimate %s is not proved <= max(old estimate, lower clamp): %s", p.At(s.Instr), operandString(pr.res(s.Val)), joinWitness(p.DescribePath(pa))))
				}
				// AIMD progress: integer estimate, value under max(1, .) strictly below the old limit
				if !af.A.Float {
					v := pr.res(s.Val)
					if cv, ok := v.(*ssa.Convert); ok {
						v = pr.res(cv.X)
					}
					name, args := pr.mathCall(v)
					progressed := false
					// the clamp written as a branch: on this path the value is the floor itself, or is proved strictly below
					// the old limit
					if f, ok := constFloat(v); ok && f == 1 {
						progressed = true
					} else if name != "max" {
						pr.budget = 4000
						if pr.rel(atomField(af.A.Est), atomVal(v), true, 0) {
							progressed = true
						}
					}
					if name == "max" && len(args) == 2 {
						for i, a := range args {
							if f, ok := constFloat(pr.res(a)); ok && f == 1 {
								pr.budget = 4000
								if pr.rel(atomField(af.A.Est), atomVal(args[1-i]), true, 0) {
									progressed = true
								}
							}
						}
					}
					if !progressed {
						bad1 = append(bad1, fmt.Sprintf("%s: a drop is not proved to move the limit strictly down (to at most limit-1, or to the floor 1): with backoff ratio 1.0 sustained drops never reach the floor", p.At(s.Instr)))
					}
				}
				// O2 (types with function fields): the candidate on a drop path is the decrease function of the current estimate
				if hasFuncFields {
					if dropCand == nil {
						bad2 = append(bad2, fmt.Sprintf("%s: a drop path does not apply the decrease function: %s", p.At(s.Instr), joinWitness(p.DescribePath(pa))))
					} else {
						c := p.CallOf(dropCand.(*ssa.Call))
						if !pr.isEntryLoadOf(pr.res(c.Args[0]), af.A.Est) {
							bad2 = append(bad2, fmt.Sprintf("%s: the decrease function is not applied to the current estimate", p.At(dropCand.(*ssa.Call))))
						}
						// no increase-role call and no '+ beta' candidate on the drop path
						pa.Each(func(step int, ins ssa.Instruction) bool {
							if call, ok := ins.(*ssa.Call); ok {
								cc := p.CallOf(call)
								if cc.Name == "dynamic" {
									if fr, _, ok := loadedField(strip(cc.FnVal, false)); ok && roles[fr.Index] == "increase" {
										bad2 = append(bad2, fmt.Sprintf("%s: a drop path applies the increase function", p.At(ins)))
									}
								}
							}
							return true
						})
						if !valueDependsOn(pr, s.Val, dropCand, 12) {
							bad2 = append(bad2, fmt.Sprintf("%s: the estimate stored on a drop path does not derive from the decrease function's result", p.At(s.Instr)))
						}
					}
				}
			}
			return len(bad1) < 3 && len(bad2) < 3
		})
		if trunc {
			l.Unknown("O1", key, p.FuncPos(af.Fn), "path enumeration truncated")
			continue
		}
		l.Count("drop_paths", ndrop)
		l.Check(len(bad1) == 0 && nstore > 0, "O1", key, p.FuncPos(af.Fn), fmt.Sprintf("%d drop paths, %d stores; each proved <= max(old, lower clamp)", ndrop, nstore), "a drop can raise the estimate (or AIMD makes no progress)", bad1...)
		l.Check(len(bad3) == 0 && ndrop > 0, "O3", key, p.FuncPos(af.Fn), "every drop path stores a decrease (probe / baseline returns excepted)", "a drop sample can be swallowed by the demand gate", bad3...)
		if hasFuncFields {
			if !stepOK {
				bad2 = append(bad2, stepWhy)
			}
			bad2 = append(bad2, roleProblems...)
			l.Check(len(bad2) == 0, "O2", key, p.FuncPos(af.Fn), "drop candidate = decrease function (default x - g(x), g >= 0) of the current estimate", "a drop is not routed to the decrease rule", bad2...)
		}
	}
	// the drop flag reaches the helper unchanged (OnSample -> helper): algoFuncs maps it by identity; a helper whose drop
	// parameter could not be mapped was reported above. Also: OnSample paths with drop=true that return before calling the helper.
	for _, a := range c04Algos(p, l) {
		if a.T.Obj().Name() == "Gradient2Limit" {
			continue
		}
		on := p.Method(a.T, "OnSample")
		var helper *ssa.Function
		for _, af := range algoFuncs(p, l) {
			if af.A.T == a.T && af.Fn != on {
				helper = af.Fn
			}
		}
		if helper == nil {
			continue
		}
		key := p.Key(on) + "/reaches-update"
		var bad []string
		n := 0
		EnumPaths(on, 100000, func(pa *Path) bool {
			if !pa.IsReturn() {
				return true
			}
			n++
			called, reset := false, c06BaselineReturn(p, pa)
			pa.Each(func(step int, ins ssa.Instruction) bool {
				if call, ok := ins.(*ssa.Call); ok {
					c := p.CallOf(call)
					if c.Static == helper {
						called = true
					}
				}
				return true
			})
			if !called && !reset {
				bad = append(bad, "a sample returns without reaching the update and without touching the baseline: "+joinWitness(p.DescribePath(pa)))
			}
			return len(bad) < 3
		})
		l.Check(len(bad) == 0 && n > 0, "O3", key, p.FuncPos(on), fmt.Sprintf("%d paths; each reaches the update function unless it resets / lowers the baseline", n), "a (drop) sample can be discarded before the update", bad...)
	}
}

// c06BaselineReturn: the path is a probe / baseline-reset return: it resets or replaces a measurement, or it took the
// "this sample lowers the baseline" edge (rtt < baseline, or baseline unset).
func c06BaselineReturn(p *Prog, pa *Path) bool {
	exempt := false
	pa.Each(func(step int, ins ssa.Instruction) bool {
		switch x := ins.(type) {
		case *ssa.Call:
			cc := x.Common()
			if cc.IsInvoke() && cc.Method.Name() == "Reset" {
				exempt = true
			}
		case *ssa.Store:
			if _, ok := x.Addr.(*ssa.FieldAddr); ok {
				if _, isIface := x.Val.Type().Underlying().(*types.Interface); isIface {
					exempt = true
				}
			}
		}
		return true
	})
	if exempt {
		return true
	}
	isGet := func(v ssa.Value) bool {
		v = strip(v, true)
		if cv, ok := v.(*ssa.Convert); ok {
			v = strip(cv.X, true)
		}
		call, ok := v.(*ssa.Call)
		return ok && call.Common().IsInvoke() && call.Common().Method.Name() == "Get"
	}
	for _, r := range pa.Rels(-1) {
		if (r.Op == token.LSS && isGet(r.Y)) || (r.Op == token.GTR && isGet(r.X)) {
			return true
		}
		if r.Op == token.EQL && (isGet(r.X) || isGet(r.Y)) {
			return true
		}
	}
	return false
}

// valueDependsOn: v is computed from target (through arithmetic, calls, phis resolved on the path, local cells).
func valueDependsOn(pr *prover, v ssa.Value, target ssa.Value, depth int) bool {
	if depth < 0 || v == nil {
		return false
	}
	v = pr.res(v)
	if v == target {
		return true
	}
	switch x := v.(type) {
	case *ssa.Convert:
		return valueDependsOn(pr, x.X, target, depth-1)
	case *ssa.BinOp:
		return valueDependsOn(pr, x.X, target, depth-1) || valueDependsOn(pr, x.Y, target, depth-1)
	case *ssa.Call:
		for _, a := range x.Call.Args {
			if valueDependsOn(pr, a, target, depth-1) {
				return true
			}
		}
	case *ssa.Extract:
		return valueDependsOn(pr, x.Tuple, target, depth-1)
	}
	return false
}

var _ = ssa.Value(nil)
