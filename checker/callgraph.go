package main

// Conservative module call graph used for reachability rules: static callees; interface invokes resolve
// to every module method of that name whose receiver type implements the interface (CHA); calls of function
// values resolve to every module function / closure of identical signature whose value is taken somewhere.

import (
	"go/types"

	"gclverify/xt/ssa"
)

func (p *Prog) callees(f *ssa.Function) []*ssa.Function {
	var out []*ssa.Function
	add := func(g *ssa.Function) {
		if g != nil && p.InModule(g) && len(g.Blocks) > 0 {
			out = append(out, g)
		}
	}
	allInstrs(f, func(ins ssa.Instruction) {
		if mc, ok := ins.(*ssa.MakeClosure); ok {
			// creating a closure does not call it, but closures handed to helpers are usually invoked: include
			add(p.unwrap(mc.Fn.(*ssa.Function)))
			return
		}
		c := p.CallOf(ins)
		if c == nil {
			return
		}
		switch {
		case c.Static != nil:
			add(c.Static)
		case c.Iface != nil:
			it, _ := c.Recv.Type().Underlying().(*types.Interface)
			if it == nil {
				return
			}
			for _, tp := range p.TPkgs {
				for _, n := range tp.Scope().Names() {
					tn, ok := tp.Scope().Lookup(n).(*types.TypeName)
					if !ok {
						continue
					}
					nt, ok := tn.Type().(*types.Named)
					if !ok {
						continue
					}
					if _, isI := nt.Underlying().(*types.Interface); isI {
						continue
					}
					if types.Implements(nt, it) || types.Implements(types.NewPointer(nt), it) {
						add(p.Method(nt, c.Iface.Name()))
					}
				}
			}
		case c.Name == "dynamic":
			sig, _ := c.FnVal.Type().Underlying().(*types.Signature)
			if sig == nil {
				return
			}
			for _, g := range p.Funcs {
				if !(p.addrTaken[g] || g.Parent() != nil) {
					continue
				}
				gs := g.Signature
				if g.Signature.Recv() != nil {
					// bound method value: signature without receiver
					gs = types.NewSignatureType(nil, nil, nil, g.Signature.Params(), g.Signature.Results(), g.Signature.Variadic())
				}
				if types.Identical(gs, sig) {
					add(g)
				}
			}
		}
	})
	return out
}

// Reachable returns the set of module functions reachable from f (including f).
func (p *Prog) Reachable(f *ssa.Function) map[*ssa.Function]bool {
	seen := map[*ssa.Function]bool{f: true}
	work := []*ssa.Function{f}
	for len(work) > 0 {
		g := work[0]
		work = work[1:]
		for _, h := range p.callees(g) {
			if !seen[h] {
				seen[h] = true
				work = append(work, h)
			}
		}
	}
	return seen
}
