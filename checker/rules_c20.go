package main

import (
	"go/constant"
	"fmt"
	"go/token"
	"go/types"
	"strings"

	"gclverify/xt/ssa"
)

func init() {
	register("C20", &ruleSet{
		run:    runC20,
		floors: map[string]int{"O1": 8, "O2": 4, "O3": 10, "O4": 8, "O5": 10},
		explain: "Decides structurally: (O1) CommonMetricSampler.Sample emits, on every path, the rtt parameter once to the listener registered under the RTT metric, the " +
			"in-flight parameter once to the one registered under the in-flight metric, and 1 to the drop counter if and only if the drop flag's true edge was taken; every " +
			"limit implementation owning a sampler calls Sample exactly once on every OnSample path with its own three parameters; (O2) every strategy emission carries the " +
			"in-flight counter value of that very decision (read after the increment on a grant), at most once per decision; (O3) every gauge supplier registered by limits, " +
			"strategies and limiters is a method value or closure bound to the object the constructor returns (or to its configuration), the limit gauges reading the enforced " +
			"limit field, and the queue-size gauge, when bound to a method of the type holding the backlog list, reporting list.Len() or a proved mirror under the queue mutex (the size proof of C12/O2); (O4) both bundled registries create listeners whose kind tag selects the backend call of the same kind, under prefix+ID, returning the existing " +
			"listener on re-registration; (O5) Start spawns the poller only on the not-started edge and sets the flag there, Stop on the started edge signals, clears the flag " +
			"and awaits the poller without holding a mutex the poller takes; the poll loop exits on the stop signal and gauges are polled only inside it. Units and poll-time numeric equality are not covered.",
	})
}

func isSampleListenerInvoke(p *Prog, c *Call) bool {
	return c != nil && c.Iface != nil && c.Iface.Name() == "AddSample" && p.isCoreInvoke(c, "MetricSampleListener", "AddSample")
}

func runC20(p *Prog, l *Ledger) {
	l.Rule("O1", "one emission per sample: Sample emits rtt and in-flight once each and the drop counter iff didDrop; every OnSample of a sampler-owning limit calls Sample exactly once with its own parameters")
	l.Rule("O2", "strategy emissions carry the counter value of the decision (post-increment on a grant), at most once per decision")
	l.Rule("O3", "gauges are live: suppliers are bound to the constructed object (or its configuration); limit gauges read the enforced limit field; the queue-size gauge bound to a method of the backlog reports the length of its list (the C12/O2 size proof)")
	l.Rule("O4", "registry forwarding: kind tag of a registered listener selects the backend call of the same kind under prefix+ID; re-registration returns the existing listener")
	l.Rule("O5", "life cycle: Start spawns once and sets started; Stop signals, clears and awaits without holding a mutex the poller needs; the loop exits on the stop signal; gauges are polled only inside the loop")
	l.NotCovered = []string{"units (go-metrics timer receives nanoseconds scaled as milliseconds)", "numeric equality of gauge and enforced value at poll time under concurrency", "backend behaviour"}

	c20Sample(p, l)
	c20WindowInFlight(p, l)
	c20StrategyEmissions(p, l)
	c20Gauges(p, l)
	c20SupplierWrappers(p, l)
	c20Registries(p, l)
}

// ---------------------------------------------------------------- O1

func c20Sample(p *Prog, l *Ledger) {
	cms := p.Named("core", "CommonMetricSampler")
	if cms == nil {
		l.Infra("core.CommonMetricSampler not found")
		return
	}
	sample := p.Method(cms, "Sample")
	ctor := p.Fn("core.NewCommonMetricSampler")
	if sample == nil || ctor == nil {
		l.Infra("CommonMetricSampler.Sample / NewCommonMetricSampler not found")
		return
	}
	// roles of the listener fields from the metric-name constant used at registration
	roles := map[int]string{} // field index -> "rtt" | "dropped" | "inflight"
	neverNil := map[int]bool{}  // field index -> the constructor stores a listener proved non-nil
	al := p.allocOf(ctor, cms)
	st := cms.Underlying().(*types.Struct)
	for i := 0; i < st.NumFields(); i++ {
		for _, v := range storesInto(al, FieldRef{cms, i, st.Field(i).Name()}) {
			call, ok := strip(v, false).(*ssa.Call)
			if !ok {
				continue
			}
			c := p.CallOf(call)
			// a wrapper that passes the registered listener through, or replaces a nil one by a no-op listener
			if c.Static != nil && len(c.Args) == 1 && c20NonNilPassThrough(p, c.Static) {
				neverNil[i] = true
				inner, ok := strip(c.Args[0], false).(*ssa.Call)
				if !ok {
					continue
				}
				c = p.CallOf(inner)
			}
			if c.Iface == nil || len(c.Args) == 0 {
				continue
			}
			// first arg: PrefixMetricWithName(MetricXxx, name) — a call through the package variable
			if pc, ok := strip(c.Args[0], false).(*ssa.Call); ok && len(pc.Call.Args) >= 1 {
				if k, ok := strip(pc.Call.Args[0], false).(*ssa.Const); ok && k.Value != nil {
					name := strings.Trim(k.Value.ExactString(), "\"")
					kind := c.Iface.Name() // RegisterTiming / RegisterCount / RegisterDistribution
					switch name {
					case "rtt":
						if kind == "RegisterTiming" {
							roles[i] = "rtt"
						}
					case "dropped":
						if kind == "RegisterCount" {
							roles[i] = "dropped"
						}
					case "inflight":
						if kind == "RegisterDistribution" {
							roles[i] = "inflight"
						}
					}
				}
			}
		}
	}
	haveRoles := map[string]bool{}
	for _, r := range roles {
		haveRoles[r] = true
	}
	l.Check(haveRoles["rtt"] && haveRoles["dropped"] && haveRoles["inflight"], "O1", "core.NewCommonMetricSampler/kinds", p.FuncPos(ctor),
		"rtt is registered as a timing, dropped as a count, inflight as a distribution, each under the prefixed metric name",
		fmt.Sprintf("the sampler's listeners are not registered under the matching metric name and kind (resolved roles: %v)", roles))

	var bad []string
	npaths := 0
	EnumPaths(sample, 10000, func(pa *Path) bool {
		if !pa.IsReturn() {
			return true
		}
		// nil-receiver early return
		recvNil := pa.HoldsRel(-1, func(r Rel) bool { return r.Op == token.EQL && strip(r.X, false) == ssa.Value(sample.Params[0]) && isNilConst(r.Y) })
		// a listener field the constructor fills with a listener proved non-nil is not nil here: the defensive branch for
		// samplers built as struct literals is outside what the library constructs
		if pa.HoldsRel(-1, func(r Rel) bool {
			if r.Op != token.EQL || !isNilConst(r.Y) {
				return false
			}
			fr, _, ok := loadedField(strip(r.X, false))
			return ok && fr.Type != nil && types.Identical(fr.Type, cms) && neverNil[fr.Index]
		}) {
			return true
		}
		npaths++
		cnt := map[string]int{}
		pa.Each(func(step int, ins ssa.Instruction) bool {
			call, ok := ins.(*ssa.Call)
			if !ok {
				return true
			}
			c := p.CallOf(call)
			if !isSampleListenerInvoke(p, c) {
				return true
			}
			fr, _, ok := loadedField(strip(c.Recv, false))
			if !ok || !types.Identical(fr.Type, cms) {
				bad = append(bad, fmt.Sprintf("%s: emission to a listener that is not a field of the sampler", p.At(ins)))
				return true
			}
			role := roles[fr.Index]
			cnt[role]++
			arg := strip(c.Args[0], false)
			if cv, ok := arg.(*ssa.Convert); ok {
				arg = strip(cv.X, false)
			}
			switch role {
			case "rtt":
				if arg != ssa.Value(sample.Params[1]) {
					bad = append(bad, fmt.Sprintf("%s: the RTT listener is given something other than the rtt parameter", p.At(ins)))
				}
			case "inflight":
				if arg != ssa.Value(sample.Params[2]) {
					bad = append(bad, fmt.Sprintf("%s: the in-flight listener is given something other than the inFlight parameter", p.At(ins)))
				}
			case "dropped":
				if f, ok := constFloat(arg); !ok || f != 1 {
					bad = append(bad, fmt.Sprintf("%s: the drop counter is not incremented by exactly 1", p.At(ins)))
				}
			}
			return true
		})
		if recvNil {
			return true
		}
		dropTrue, known := pa.FactOn(sample.Params[3], len(pa.Blocks))
		if cnt["rtt"] != 1 || cnt["inflight"] != 1 {
			bad = append(bad, fmt.Sprintf("a path emits rtt %d times and in-flight %d times (want once each): %s", cnt["rtt"], cnt["inflight"], joinWitness(p.DescribePath(pa))))
		}
		wantDrop := 0
		if known && dropTrue {
			wantDrop = 1
		}
		if !known && cnt["dropped"] > 0 {
			bad = append(bad, "the drop counter is incremented on a path that did not test the drop flag")
		} else if known && cnt["dropped"] != wantDrop {
			bad = append(bad, fmt.Sprintf("didDrop=%v but the drop counter is incremented %d times", dropTrue, cnt["dropped"]))
		}
		return len(bad) < 4
	})
	l.Check(len(bad) == 0 && npaths > 0, "O1", p.Key(sample), p.FuncPos(sample), fmt.Sprintf("%d paths; rtt and in-flight emitted once each with the parameters, the drop counter iff didDrop", npaths), "a processed sample is not reported once and faithfully", bad...)

	// every OnSample of a limit owning a sampler
	for _, nt := range p.Implementers(p.coreIface("Limit")) {
		sf := fieldsOfType(nt, types.NewPointer(cms))
		if len(sf) != 1 {
			continue
		}
		fn := p.Method(nt, "OnSample")
		if fn == nil || len(fn.Params) != 5 {
			continue
		}
		var obad []string
		n := 0
		EnumPaths(fn, 200000, func(pa *Path) bool {
			if !pa.IsReturn() {
				return true
			}
			n++
			calls := 0
			pa.Each(func(step int, ins ssa.Instruction) bool {
				call, ok := ins.(*ssa.Call)
				if !ok {
					return true
				}
				c := p.CallOf(call)
				if c.Static != sample {
					return true
				}
				if fr, _, ok := loadedField(strip(c.Recv, false)); !ok || !sameField(fr, sf[0]) {
					return true
				}
				calls++
				for i := 0; i < 3; i++ {
					if strip(pa.Resolve(c.Args[i], step), false) != ssa.Value(fn.Params[i+2]) {
						obad = append(obad, fmt.Sprintf("%s: Sample argument %d is not OnSample's own parameter %q", p.At(ins), i+1, fn.Params[i+2].Name()))
					}
				}
				return true
			})
			if calls != 1 {
				obad = append(obad, fmt.Sprintf("Sample is called %d times on a path (want exactly once): %s", calls, joinWitness(p.DescribePath(pa))))
			}
			return len(obad) < 3
		})
		l.Check(len(obad) == 0, "O1", p.Key(fn), p.FuncPos(fn), fmt.Sprintf("%d paths; each calls Sample(rtt, inFlight, didDrop) exactly once", n), "a sample can be processed without (or with altered) metrics", obad...)
	}
}

// c20SupplierWrappers: core's supplier wrappers hand the wrapped function's value through: the closure they return
// yields (conversion of f(), true) on every path - a wrapper that suppresses some values (zero, negative) freezes the
// gauge at its last reading.
func c20SupplierWrappers(p *Prog, l *Ledger) {
	sup := p.coreNamed("MetricSupplier")
	n := 0
	for _, f := range p.Funcs {
		if !p.InPkg(f, "core") || f.Parent() != nil || f.Signature.Results().Len() != 1 || sup == nil || !types.Identical(f.Signature.Results().At(0).Type(), sup) || len(f.Params) != 1 {
			continue
		}
		if _, isSig := f.Params[0].Type().Underlying().(*types.Signature); !isSig {
			continue
		}
		if f.TypeParams().Len() > 0 && len(f.TypeArgs()) == 0 {
			continue // the body of a generic helper: its instances are what runs
		}
		n++
		var bad []string
		var closures []*ssa.Function
		allInstrs(f, func(ins ssa.Instruction) {
			if mc, ok := ins.(*ssa.MakeClosure); ok {
				closures = append(closures, mc.Fn.(*ssa.Function))
			}
		})
		if len(closures) != 1 {
			bad = append(bad, "the wrapper does not return a single closure over the wrapped function")
		}
		for _, cl := range closures {
			np := 0
			EnumPaths(cl, 1000, func(pa *Path) bool {
				if !pa.IsReturn() {
					return true
				}
				np++
				rv := pa.ReturnValues()
				if len(rv) != 2 {
					bad = append(bad, "unexpected result shape")
					return false
				}
				if b, isC := constBool(strip(rv[1], false)); !isC || !b {
					bad = append(bad, "a path reports 'no value' (ok=false): "+joinWitness(p.DescribePath(pa)))
				}
				v := strip(rv[0], true)
				if cv, ok := v.(*ssa.Convert); ok {
					v = strip(cv.X, true)
				}
				call, ok := v.(*ssa.Call)
				if !ok || len(cl.FreeVars) == 0 || strip(call.Call.Value, false) != ssa.Value(cl.FreeVars[0]) && !c20IsLoadOfFreeVar(call.Call.Value, cl) {
					bad = append(bad, "a path does not return the wrapped function's value: "+valueString(v))
				}
				return len(bad) < 3
			})
			if np == 0 {
				bad = append(bad, "the closure has no returning path")
			}
		}
		l.Check(len(bad) == 0, "O3", p.Key(f)+"/passes-through", p.FuncPos(f), "returns (conversion of the wrapped function's value, true) on every path", "a gauge built with this wrapper can freeze at a stale reading", bad...)
	}
	if n == 0 {
		l.Infra("no supplier wrapper found in package core")
	}
}

func c20IsLoadOfFreeVar(v ssa.Value, cl *ssa.Function) bool {
	v = strip(v, false)
	for _, fv := range cl.FreeVars {
		if v == ssa.Value(fv) {
			return true
		}
		if u, ok := v.(*ssa.UnOp); ok && u.X == ssa.Value(fv) {
			return true
		}
	}
	return false
}

// ---------------------------------------------------------------- O2

func c20StrategyEmissions(p *Prog, l *Ledger) {
	// functions in package strategy that emit to a MetricSampleListener field
	for _, f := range p.Funcs {
		if !p.InPkg(f, "strategy") || f.Signature.Recv() == nil {
			continue
		}
		var emits []*ssa.Call
		allInstrs(f, func(ins ssa.Instruction) {
			if call, ok := ins.(*ssa.Call); ok {
				if isSampleListenerInvoke(p, p.CallOf(call)) && !c20IsCounterListener(p, p.CallOf(call)) {
					emits = append(emits, call)
				}
			}
		})
		if len(emits) == 0 {
			continue
		}
		key := p.Key(f)
		recvT := derefNamed(f.Signature.Recv().Type())
		var bad []string
		n := 0
		EnumPaths(f, 100000, func(pa *Path) bool {
			if !pa.IsReturn() {
				return true
			}
			n++
			order := map[ssa.Instruction]int{}
			k := 0
			var incs []Delta
			nem := 0
			pa.Each(func(step int, ins ssa.Instruction) bool {
				k++
				order[ins] = k
				if d, ok := p.DeltaOf(ins); ok && d.By > 0 && types.Identical(d.Field.Type, recvT) {
					incs = append(incs, d)
				}
				return true
			})
			pa.Each(func(step int, ins ssa.Instruction) bool {
				call, ok := ins.(*ssa.Call)
				if !ok || !isSampleListenerInvoke(p, p.CallOf(call)) || c20IsCounterListener(p, p.CallOf(call)) {
					return true
				}
				nem++
				arg := strip(pa.Resolve(call.Call.Args[0], step), true)
				if cv, ok := arg.(*ssa.Convert); ok {
					arg = strip(pa.Resolve(cv.X, step), true)
				}
				// the value must be the counter: result of the increment, or a (atomic) load of the counter field
				okVal := false
				var readAt ssa.Instruction
				for _, d := range incs {
					if arg == d.Result {
						okVal = true
					}
				}
				if !okVal {
					if fr, _, ok := loadedField(arg); ok && types.Identical(fr.Type, recvT) && isIntegral(structOf(recvT).Field(fr.Index).Type()) && c20IsCounterField(p, fr) {
						okVal, readAt = true, arg.(ssa.Instruction)
						for _, d := range incs {
							if !sameField(d.Field, fr) {
								okVal = false
							}
						}
					} else if ac, ok := arg.(*ssa.Call); ok && atomicOpOf(p.CallOf(ac).Name) == "Load" {
						if fr, _, ok := atomicTarget(ac.Call.Args[0]); ok && types.Identical(fr.Type, recvT) {
							okVal, readAt = true, ac
							for _, d := range incs {
								if !sameField(d.Field, fr) {
									okVal = false
								}
							}
						}
					}
				}
				if !okVal {
					bad = append(bad, fmt.Sprintf("%s: the emitted value is not this decision's in-flight counter: %s", p.At(call), valueString(arg)))
					return true
				}
				// the listener and the counter belong to the same object: a partition's distribution reports that partition's
				// count, not the strategy-wide one
				if c := p.CallOf(call); c != nil && c.Recv != nil {
					if _, lbase, ok := loadedField(strip(c.Recv, false)); ok {
						var cbase ssa.Value
						if _, b, ok := loadedField(arg); ok {
							cbase = b
						}
						for _, d := range incs {
							if arg == d.Result {
								cbase = d.Base
							}
						}
						if ac, ok := arg.(*ssa.Call); ok && atomicOpOf(p.CallOf(ac).Name) == "Load" {
							if _, b, ok := atomicTarget(ac.Call.Args[0]); ok {
								cbase = b
							}
						}
						if cbase != nil && AccessPath(lbase).String() != AccessPath(cbase).String() {
							bad = append(bad, fmt.Sprintf("%s: the sample listener of %s is fed the counter of %s", p.At(call), AccessPath(lbase).String(), AccessPath(cbase).String()))
						}
					}
				}
				if readAt != nil {
					for _, d := range incs {
						if order[readAt] < order[d.Instr] {
							bad = append(bad, fmt.Sprintf("%s: a grant emits the counter read before it was incremented", p.At(call)))
						}
					}
				}
				return true
			})
			if nem > 1 {
				bad = append(bad, fmt.Sprintf("%d emissions for one decision", nem))
			}
			return len(bad) < 3
		})
		l.Check(len(bad) == 0, "O2", key, p.FuncPos(f), fmt.Sprintf("%d paths; at most one emission per decision, carrying the counter after any increment", n), "the in-flight metric does not equal the count at the admission decision", bad...)
	}
}

// ---------------------------------------------------------------- O3

func c20Gauges(p *Prog, l *Ledger) {
	n := 0
	for _, f := range p.Funcs {
		pk := p.PkgOf(f)
		if !(pk == "limit" || pk == "strategy" || pk == "limiter" || pk == "core") {
			continue
		}
		idx := 0
		allInstrs(f, func(ins ssa.Instruction) {
			call, ok := ins.(*ssa.Call)
			if !ok {
				return
			}
			c := p.CallOf(call)
			if c.Iface == nil || c.Iface.Name() != "RegisterGauge" || len(c.Args) < 2 {
				return
			}
			n++
			idx++
			key := fmt.Sprintf("%s/gauge#%d", p.Key(f), idx)
			// a registry that forwards a registration to another registry passes on the supplier it was given
			if prm, isP := strip(c.Args[1], false).(*ssa.Parameter); isP && f.Name() == "RegisterGauge" && prm.Parent() == f {
				l.OK("O3", key, p.At(ins), "a registry's RegisterGauge forwards the supplier it was given, unchanged, to another registry")
				return
			}
			sup, ok := strip(c.Args[1], false).(*ssa.Call)
			if !ok || len(sup.Call.Args) != 1 {
				l.Bad("O3", key, p.At(ins), "the gauge supplier is not built by one of core's supplier wrappers from a function value")
				return
			}
			fnv := strip(sup.Call.Args[0], false)
			mc, ok := fnv.(*ssa.MakeClosure)
			if !ok {
				l.Bad("O3", key, p.At(ins), "the gauge supplier is not a method value or closure: "+valueString(fnv))
				return
			}
			target := mc.Fn.(*ssa.Function)
			if recv := boundReceiver(mc); recv != nil {
				m := p.unwrap(target)
				ap := AccessPath(recv)
				okRoot := false
				what := ""
				switch r := ap.Root.(type) {
				case *ssa.Alloc:
					// must be (or lead from) the object this function returns
					returned := false
					allInstrs(f, func(i2 ssa.Instruction) {
						if ret, ok := i2.(*ssa.Return); ok {
							for _, rv := range ret.Results {
								if AccessPath(rv).Root == ssa.Value(r) || strip(rv, false) == ssa.Value(r) {
									returned = true
								}
							}
						}
					})
					okRoot = returned
					what = "the object returned by the constructor"
					if !returned {
						what = "a local that is not returned (a copy?)"
					}
				case *ssa.Parameter:
					okRoot = true
					what = "parameter " + r.Name()
				default:
					what = "value " + valueString(ap.Root)
				}
				if !okRoot {
					l.Bad("O3", key, p.At(ins), fmt.Sprintf("gauge bound to %s.%s on %s", ap, m.Name(), what))
					return
				}
				// strategies and partitions: the limit gauge must read the enforced limit field
				detail := fmt.Sprintf("bound to %s.%s on %s", ap, m.Name(), what)
				isLimitGauge := true
				if idc, ok := strip(c.Args[0], false).(*ssa.Const); ok && idc.Value != nil && idc.Value.Kind() == constant.String {
					// a gauge registered under another ID (partition count, backlog capacity, ...) is only required to be live
					if tp := p.TPkgs["core"]; tp != nil {
						if ml, ok := tp.Scope().Lookup("MetricLimit").(*types.Const); ok && ml.Val().Kind() == constant.String {
							isLimitGauge = constant.StringVal(idc.Value) == constant.StringVal(ml.Val())
						}
					}
				}
				// the queue-size gauge reports the number of queued callers: when it is bound to a method of the backlog (the type
				// that holds the list), that method must pass the proof C12/O2 applies to the accessor of the admission bound -
				// list.Len() itself or a counter proved to mirror it (stepped only with the list, once per element), read under
				// the queue mutex. A second, unproved counter drifts when a give-up coincides with a hand-off.
				if idc, ok := strip(c.Args[0], false).(*ssa.Const); ok && idc.Value != nil && idc.Value.Kind() == constant.String {
					if tp := p.TPkgs["core"]; tp != nil {
						if mq, ok := tp.Scope().Lookup("MetricQueueSize").(*types.Const); ok && mq.Val().Kind() == constant.String && constant.StringVal(idc.Value) == constant.StringVal(mq.Val()) && m.Signature.Recv() != nil {
							if bt := derefNamed(m.Signature.Recv().Type()); bt != nil {
								if bs, ok := bt.Underlying().(*types.Struct); ok {
									for j := 0; j < bs.NumFields(); j++ {
										if !isListPtr(bs.Field(j).Type()) {
											continue
										}
										bad, okLen := c12SizeProof(p, p.Locksets(), bt, FieldRef{bt, j, bs.Field(j).Name()}, m)
										if len(bad) > 0 || !okLen {
											l.Bad("O3", key, p.At(ins), "the queue-size gauge does not report the number of queued callers: "+strings.Join(append(bad, "read by "+p.Key(m)), "; "))
											return
										}
										detail += "; reports the length of the backlog's list, read under the queue mutex"
									}
								}
							}
						}
					}
				}
				if pk == "strategy" && isLimitGauge {
					if why := c20ReadsEnforcedLimit(p, m); why != "" {
						l.Bad("O3", key, p.At(ins), "the limit gauge does not report the enforced limit: "+why)
						return
					}
					detail += "; reads the field SetLimit/UpdateLimit writes"
				}
				l.OK("O3", key, p.At(ins), detail)
				return
			}
			// plain closure: must not be a constant; captured values must be parameters / config
			constRet := true
			allInstrs(target, func(i2 ssa.Instruction) {
				if ret, ok := i2.(*ssa.Return); ok {
					for _, rv := range ret.Results {
						if _, isC := strip(rv, true).(*ssa.Const); !isC {
							constRet = false
						}
					}
				}
			})
			if constRet {
				l.Bad("O3", key, p.At(ins), "the gauge supplier returns a constant")
				return
			}
			l.OK("O3", key, p.At(ins), "closure over the constructor's configuration")
		})
	}
	l.Count("gauge_registrations", n)
	// the sampler's limit gauge: callers pass the object they construct
	if ctor := p.Fn("core.NewCommonMetricSamplerOrNil"); ctor != nil {
		for _, f := range p.Funcs {
			if !p.InPkg(f, "limit") {
				continue
			}
			allInstrs(f, func(ins ssa.Instruction) {
				call, ok := ins.(*ssa.Call)
				if !ok {
					return
				}
				c := p.CallOf(call)
				if c.Static != ctor || len(c.Args) < 2 {
					return
				}
				key := p.Key(f) + "/sampler-limit"
				root := AccessPath(c.Args[1]).Root
				_, isAlloc := root.(*ssa.Alloc)
				returned := false
				allInstrs(f, func(i2 ssa.Instruction) {
					if ret, ok := i2.(*ssa.Return); ok {
						for _, rv := range ret.Results {
							if strip(rv, false) == root {
								returned = true
							}
						}
					}
				})
				l.Check(isAlloc && returned, "O3", key, p.At(ins), "the limit gauge polls EstimatedLimit of the very object being constructed", "the limit gauge is wired to a different object than the one returned")
			})
		}
	}
}

// c20ReadsEnforcedLimit: method m returns (a conversion of) the field written by the type's SetLimit / UpdateLimit.
func c20ReadsEnforcedLimit(p *Prog, m *ssa.Function) string {
	recvT := derefNamed(m.Signature.Recv().Type())
	var setter *ssa.Function
	for _, n := range []string{"SetLimit", "UpdateLimit"} {
		if s := p.Method(recvT, n); s != nil {
			setter = s
		}
	}
	if setter == nil {
		return "the type has no SetLimit/UpdateLimit"
	}
	var lf []FieldRef
	for _, a := range p.Accesses(setter) {
		if a.Write && types.Identical(a.Field.Type, recvT) {
			lf = append(lf, a.Field)
		}
	}
	why := "does not return the enforced limit field"
	allInstrs(m, func(ins ssa.Instruction) {
		ret, ok := ins.(*ssa.Return)
		if !ok || len(ret.Results) != 1 {
			return
		}
		v := resolveLocalCell(strip(ret.Results[0], true))
		v = strip(v, true)
		if call, ok := v.(*ssa.Call); ok && atomicOpOf(p.CallOf(call).Name) == "Load" {
			if fr, _, ok := atomicTarget(call.Call.Args[0]); ok {
				for _, f := range lf {
					if sameField(f, fr) {
						why = ""
					}
				}
			}
			return
		}
		if fr, _, ok := loadedField(v); ok {
			for _, f := range lf {
				if sameField(f, fr) {
					why = ""
				}
			}
		}
	})
	return why
}

// ---------------------------------------------------------------- O4 / O5

var c20BackendKinds = map[string][]string{
	"RegisterDistribution": {"Histogram).Update", "Client).Distribution"},
	"RegisterTiming":       {"Timer).Update", "Client).TimeInMilliseconds", "Client).Timing"},
	"RegisterCount":        {"Counter).Inc", "Client).Count"},
}

func c20Registries(p *Prog, l *Ledger) {
	regIface := p.coreIface("MetricRegistry")
	nreg := 0
	locks := p.Locksets()
	for _, nt := range p.Implementers(regIface) {
		if !strings.HasPrefix(p.TypeKey(nt), "metric_registry/") {
			continue
		}
		nreg++
		tk := p.TypeKey(nt)
		// listener type: the element type of the listener map
		var lisT *types.Named
		var prefixF FieldRef
		st := nt.Underlying().(*types.Struct)
		for i := 0; i < st.NumFields(); i++ {
			if mt, ok := st.Field(i).Type().Underlying().(*types.Map); ok {
				if d := derefNamed(mt.Elem()); d != nil && types.Implements(types.NewPointer(d), p.coreIface("MetricSampleListener")) {
					lisT = d
				}
			}
			if b, ok := st.Field(i).Type().Underlying().(*types.Basic); ok && b.Kind() == types.String {
				prefixF = FieldRef{nt, i, st.Field(i).Name()}
			}
		}
		if lisT == nil {
			l.Infra("%s: no map of sample listeners found", tk)
			continue
		}
		// kind tag field of the listener (small unsigned int) and id field
		var tagF FieldRef
		lst := lisT.Underlying().(*types.Struct)
		for i := 0; i < lst.NumFields(); i++ {
			if b, ok := lst.Field(i).Type().Underlying().(*types.Basic); ok && b.Info()&types.IsInteger != 0 {
				tagF = FieldRef{lisT, i, lst.Field(i).Name()}
			}
		}
		// tags stored by each Register method
		tagOf := map[string]int64{}
		for kind := range c20BackendKinds {
			m := p.Method(nt, kind)
			if m == nil {
				l.Infra("%s has no %s", tk, kind)
				continue
			}
			key := p.Key(m)
			var bad []string
			n := 0
			EnumPaths(m, 100000, func(pa *Path) bool {
				if !pa.IsReturn() {
					return true
				}
				n++
				rv := pa.ReturnValues()
				// existing?
				found := false
				for _, f := range pa.Facts {
					if ex, ok := f.Cond.(*ssa.Extract); ok && ex.Index == 1 {
						if _, isL := ex.Tuple.(*ssa.Lookup); isL && f.True {
							found = true
						}
					}
				}
				updates := 0
				var created *ssa.Alloc
				pa.Each(func(step int, ins ssa.Instruction) bool {
					if mu, ok := ins.(*ssa.MapUpdate); ok {
						updates++
						if al, ok := strip(mu.Value, false).(*ssa.Alloc); ok {
							created = al
						}
					}
					return true
				})
				if found {
					if updates != 0 {
						bad = append(bad, "re-registration of an existing id overwrites the listener")
					}
					if ex, ok := strip(rv[0], false).(*ssa.Extract); !ok || ex.Index != 0 {
						bad = append(bad, "re-registration does not return the existing listener")
					}
					return true
				}
				if updates != 1 || created == nil {
					bad = append(bad, fmt.Sprintf("a first registration stores %d listeners (want one new listener)", updates))
					return true
				}
				tv := storesInto(created, tagF)
				if len(tv) != 1 {
					bad = append(bad, "the new listener's kind tag is not set exactly once")
					return true
				}
				k, ok := constInt(tv[0])
				if !ok {
					bad = append(bad, "the new listener's kind tag is not a constant")
					return true
				}
				tagOf[kind] = k
				// id = prefix + ID
				okID := false
				for i := 0; i < lst.NumFields(); i++ {
					if b, ok := lst.Field(i).Type().Underlying().(*types.Basic); ok && b.Kind() == types.String {
						for _, v := range storesInto(created, FieldRef{lisT, i, lst.Field(i).Name()}) {
							if bo, ok := strip(v, false).(*ssa.BinOp); ok && bo.Op == token.ADD {
								if fr, _, ok := loadedField(strip(bo.X, false)); ok && sameField(fr, prefixF) {
									okID = true
								}
							}
						}
					}
				}
				if !okID {
					bad = append(bad, "the listener id is not prefix + ID")
				}
				return len(bad) < 3
			})
			l.Check(len(bad) == 0 && n > 0, "O4", key, p.FuncPos(m), fmt.Sprintf("%d paths; new listener with kind tag %d under prefix+ID, existing listener returned on re-registration", n, tagOf[kind]), "registration does not create / reuse the listener of the right kind and name", bad...)
		}
		// AddSample dispatch
		if add := p.Method(lisT, "AddSample"); add != nil {
			var bad []string
			seen := map[int64]string{}
			EnumPaths(add, 100000, func(pa *Path) bool {
				if !pa.IsReturn() {
					return true
				}
				var tag int64 = -1
				for _, r := range pa.Rels(-1) {
					if r.Op != token.EQL {
						continue
					}
					if fr, _, ok := loadedField(strip(r.X, true)); ok && sameField(fr, tagF) {
						if k, ok := constInt(r.Y); ok {
							tag = k
						}
					}
				}
				var backend []string
				pa.Each(func(step int, ins ssa.Instruction) bool {
					if call, ok := ins.(*ssa.Call); ok {
						c := p.CallOf(call)
						if c.Recv != nil {
							if fr, _, ok := loadedField(strip(c.Recv, false)); ok && types.Identical(fr.Type, lisT) {
								backend = append(backend, c.Name)
								// the sample value must reach the backend
								usesVal := false
								for _, a := range c.Args {
									if valueDerivesFromNumeric(a, add.Params[1], 6) {
										usesVal = true
									}
								}
								if !usesVal {
									bad = append(bad, fmt.Sprintf("%s: the backend call does not carry the sample value", p.At(ins)))
								}
							}
						}
					}
					return true
				})
				if tag < 0 {
					if len(backend) != 0 {
						bad = append(bad, "a backend call is made without matching the kind tag")
					}
					return true
				}
				if len(backend) != 1 {
					bad = append(bad, fmt.Sprintf("kind tag %d triggers %d backend calls (want one)", tag, len(backend)))
					return true
				}
				seen[tag] = backend[0]
				return len(bad) < 3
			})
			for kind, names := range c20BackendKinds {
				k, ok := tagOf[kind]
				if !ok {
					continue
				}
				b := seen[k]
				match := false
				for _, n := range names {
					if strings.Contains(b, n) {
						match = true
					}
				}
				if !match {
					bad = append(bad, fmt.Sprintf("listeners created by %s (tag %d) forward samples to %q, which is not a %s backend", kind, k, b, strings.TrimPrefix(kind, "Register")))
				}
			}
			l.Check(len(bad) == 0, "O4", p.Key(add), p.FuncPos(add), fmt.Sprintf("kind tags dispatch to %v", seen), "a sample is forwarded to a backend metric of the wrong kind", bad...)
		}

		c20Lifecycle(p, l, locks, nt)
	}
	if nreg < 2 {
		l.Infra("expected the two bundled metric registries, found %d", nreg)
	}
}

func valueDerivesFromNumeric(v ssa.Value, target ssa.Value, depth int) bool {
	if depth < 0 {
		return false
	}
	v = strip(v, false)
	if v == target {
		return true
	}
	switch x := v.(type) {
	case *ssa.Convert:
		return valueDerivesFromNumeric(x.X, target, depth-1)
	case *ssa.BinOp:
		return valueDerivesFromNumeric(x.X, target, depth-1) || valueDerivesFromNumeric(x.Y, target, depth-1)
	}
	return false
}

func c20Lifecycle(p *Prog, l *Ledger, locks *LockInfo, nt *types.Named) {
	tk := p.TypeKey(nt)
	start, stop := p.Method(nt, "Start"), p.Method(nt, "Stop")
	if start == nil || stop == nil {
		l.Infra("%s: Start/Stop not found", tk)
		return
	}
	// started flag: the bool field
	var flagF FieldRef
	st := nt.Underlying().(*types.Struct)
	for i := 0; i < st.NumFields(); i++ {
		if b, ok := st.Field(i).Type().Underlying().(*types.Basic); ok && b.Kind() == types.Bool {
			flagF = FieldRef{nt, i, st.Field(i).Name()}
		}
	}
	if !flagF.Valid() {
		l.Infra("%s has no started flag", tk)
		return
	}
	flagFact := func(pa *Path) (bool, bool) {
		for i := len(pa.Facts) - 1; i >= 0; i-- {
			f := pa.Facts[i]
			if fr, _, ok := loadedField(strip(f.Cond, false)); ok && sameField(fr, flagF) {
				return f.True, true
			}
		}
		return false, false
	}
	ownLockHeld := func(ins ssa.Instruction, recv ssa.Value) bool {
		held := locks.Held(ins)
		for _, m := range mutexFields(nt) {
			if ex, ok := held[AccessPath(recv).String()+"."+m]; ok && ex {
				return true
			}
		}
		return false
	}
	// ---- Start
	var poller *ssa.Function
	{
		var bad []string
		n := 0
		EnumPaths(start, 10000, func(pa *Path) bool {
			if !pa.IsReturn() {
				return true
			}
			n++
			started, known := flagFact(pa)
			spawns, sets, adds := 0, 0, 0
			pa.Each(func(step int, ins ssa.Instruction) bool {
				switch x := ins.(type) {
				case *ssa.Go:
					spawns++
					if fn := p.funcOfValue(x.Call.Value); fn != nil {
						poller = fn
					}
					if !ownLockHeld(ins, start.Params[0]) {
						bad = append(bad, fmt.Sprintf("%s: the poller is spawned without the registry mutex", p.At(ins)))
					}
				case *ssa.Store:
					if fa, ok := x.Addr.(*ssa.FieldAddr); ok {
						if fr, _, _ := fieldOf(fa); sameField(fr, flagF) {
							if b, ok := constBool(x.Val); ok && b {
								sets++
								if !ownLockHeld(ins, start.Params[0]) {
									bad = append(bad, fmt.Sprintf("%s: started is set without the registry mutex", p.At(ins)))
								}
							} else {
								bad = append(bad, fmt.Sprintf("%s: Start stores something other than true into the started flag", p.At(ins)))
							}
						}
					}
				case *ssa.Call:
					if p.CallOf(x).Is("(*sync.WaitGroup).Add") {
						adds++
					}
				}
				return true
			})
			if !known {
				if spawns > 0 {
					bad = append(bad, "the poller is spawned on a path that did not test the started flag")
				}
				return true
			}
			if started && (spawns != 0 || sets != 0) {
				bad = append(bad, "Start spawns / re-arms although the registry is already started")
			}
			if !started {
				if spawns != 1 {
					bad = append(bad, fmt.Sprintf("the not-started path spawns %d pollers (want one)", spawns))
				}
				if sets != 1 {
					bad = append(bad, "the not-started path does not set the started flag: every further Start spawns another poller and Stop believes nothing runs")
				}
				if adds != 1 {
					bad = append(bad, "the poller is not added to the wait group exactly once")
				}
			}
			return len(bad) < 4
		})
		l.Check(len(bad) == 0 && n > 0, "O5", p.Key(start), p.FuncPos(start), fmt.Sprintf("%d paths; spawn + started=true only on the not-started edge, under the mutex", n), "Start is not idempotent", bad...)
	}
	// locks the poller takes
	pollerLocks := map[string]bool{}
	var runFn *ssa.Function
	if poller != nil {
		for g := range p.Reachable(poller) {
			if g.Signature.Recv() != nil && types.Identical(derefOrSelf(g.Signature.Recv().Type()), nt) || g == poller {
				allInstrs(g, func(ins ssa.Instruction) {
					if call, ok := ins.(*ssa.Call); ok {
						if op, key := p.lockOpOf(p.CallOf(call)); op == opLock || op == opRLock {
							ap := AccessPath(p.CallOf(call).Recv)
							if len(ap.Sel) > 0 {
								pollerLocks[ap.Sel[len(ap.Sel)-1]] = true
							}
							_ = key
						}
					}
					if _, ok := ins.(*ssa.Select); ok {
						runFn = g
					}
				})
			}
		}
	}
	// ---- Stop
	{
		var bad []string
		n := 0
		EnumPaths(stop, 10000, func(pa *Path) bool {
			if !pa.IsReturn() {
				return true
			}
			n++
			started, known := flagFact(pa)
			sends, waits, clears := 0, 0, 0
			pa.Each(func(step int, ins ssa.Instruction) bool {
				switch x := ins.(type) {
				case *ssa.Send:
					sends++
					// a blocking send while holding a mutex the poller takes on every tick needs room in the channel: the
					// poller may be waiting for that mutex instead of for the stop signal
					if fr, _, isF := loadedField(strip(x.Chan, false)); isF {
						for k := range locks.Held(ins) {
							for m := range pollerLocks {
								if strings.HasSuffix(k, "."+m) && !c20ChanBuffered(p, fr) {
									bad = append(bad, fmt.Sprintf("%s: Stop sends on the unbuffered channel %s while holding %s, which the poller locks on every tick: both wait for each other when a tick is pending", p.At(ins), fr.Name, k))
								}
							}
						}
					}
				case *ssa.Select:
					for _, s := range x.States {
						if s.Dir == types.SendOnly {
							sends++
						}
					}
				case *ssa.Store:
					if fa, ok := x.Addr.(*ssa.FieldAddr); ok {
						if fr, _, _ := fieldOf(fa); sameField(fr, flagF) {
							if b, ok := constBool(x.Val); ok && !b {
								clears++
								if !ownLockHeld(ins, stop.Params[0]) {
									bad = append(bad, fmt.Sprintf("%s: started is cleared without the registry mutex", p.At(ins)))
								}
							}
						}
					}
				case *ssa.Call:
					c := p.CallOf(x)
					if c.Is("(*sync.WaitGroup).Wait") {
						waits++
						held := locks.Held(ins)
						for k := range held {
							for m := range pollerLocks {
								if strings.HasSuffix(k, "."+m) {
									bad = append(bad, fmt.Sprintf("%s: Stop waits for the poller while holding %s, which the poller locks on every tick: deadlock when a tick is pending", p.At(ins), k))
								}
							}
						}
					}
					if c.Is("builtin.close") {
						sends++
					}
				}
				return true
			})
			if !known {
				if sends+waits > 0 {
					bad = append(bad, "Stop signals / waits on a path that did not test the started flag")
				}
				return true
			}
			if !started && (sends != 0 || waits != 0) {
				bad = append(bad, "Stop signals or waits although nothing was started")
			}
			if started {
				if sends != 1 {
					bad = append(bad, fmt.Sprintf("the started path sends %d stop signals (want one)", sends))
				}
				if waits != 1 {
					bad = append(bad, "the started path does not wait for the poller to terminate")
				}
				if clears != 1 {
					bad = append(bad, "the started path does not clear the started flag")
				}
			}
			return len(bad) < 4
		})
		l.Check(len(bad) == 0 && n > 0, "O5", p.Key(stop), p.FuncPos(stop), fmt.Sprintf("%d paths; on the started edge: one stop signal, flag cleared, poller awaited outside the poller's mutex", n), "Stop does not terminate the poller idempotently and safely", bad...)
	}
	// ---- Start / Stop touch nothing but the life-cycle state
	for _, fn := range []*ssa.Function{start, stop} {
		var bad []string
		for _, a := range p.Accesses(fn) {
			if a.Write && !sameField(a.Field, flagF) && types.Identical(a.Field.Type, nt) {
				bad = append(bad, fmt.Sprintf("%s: %s modifies %s", p.At(a.Instr), fn.Name(), a.Field.Name))
			}
		}
		allInstrs(fn, func(ins ssa.Instruction) {
			call, ok := ins.(*ssa.Call)
			if !ok {
				return
			}
			c := p.CallOf(call)
			if c.Recv == nil {
				return
			}
			if fr, _, ok := loadedField(strip(c.Recv, false)); ok && types.Identical(fr.Type, nt) && !isSyncOrAtomicNamed(c.Recv.Type()) {
				bad = append(bad, fmt.Sprintf("%s: %s calls %s on the backend / registered state", p.At(ins), fn.Name(), c.Name))
			}
		})
		l.Check(len(bad) == 0, "O5", p.Key(fn)+"/lifecycle-only", p.FuncPos(fn), "touches only the started flag, the stop signal and the wait group", "starting / stopping the poller disturbs the registered metrics: samples emitted afterwards are lost", bad...)
	}

	// ---- poll loop
	if runFn == nil {
		l.Bad("O5", tk+"/poll-loop", "", "cannot find the poll loop (a select) reachable from the goroutine Start spawns")
		return
	}
	{
		var bad []string
		var sel *ssa.Select
		allInstrs(runFn, func(ins ssa.Instruction) {
			if s, ok := ins.(*ssa.Select); ok {
				sel = s
			}
		})
		// stop case: receive from a channel field of the registry; must lead to return
		stopIdx, tickIdx := -1, -1
		for i, s := range sel.States {
			if fr, _, ok := fieldPointerLoad(s.Chan); ok && types.Identical(fr.Type, nt) {
				stopIdx = i
			} else {
				tickIdx = i
			}
		}
		if stopIdx < 0 || tickIdx < 0 {
			bad = append(bad, "the poll loop's select does not have both a stop case (registry channel) and a tick case")
		}
		var idxV ssa.Value
		if refs := sel.Referrers(); refs != nil {
			for _, r := range *refs {
				if ex, ok := r.(*ssa.Extract); ok && ex.Index == 0 {
					idxV = ex
				}
			}
		}
		stopReturns, stopSeen := true, false
		EnumPathsWithLoops(runFn, 10000, func(pa *Path) bool {
			chosen := -1
			for _, rel := range pa.Rels(-1) {
				if rel.Op == token.EQL && strip(rel.X, false) == idxV {
					if k, ok := constInt(rel.Y); ok {
						chosen = int(k)
					}
				}
			}
			if chosen == stopIdx && chosen >= 0 {
				stopSeen = true
				if pa.Cut || !pa.IsReturn() {
					stopReturns = false
				}
			}
			return true
		})
		if !stopSeen || !stopReturns {
			bad = append(bad, "the stop case of the poll loop does not return")
		}
		// gauges are polled only inside the loop: every Range over the gauge map is dominated by the tick case
		allInstrs(runFn, func(ins ssa.Instruction) {
			if rg, ok := ins.(*ssa.Range); ok {
				if !sel.Block().Dominates(rg.Block()) {
					bad = append(bad, fmt.Sprintf("%s: gauges are polled outside the select loop", p.At(ins)))
				}
				var self ssa.Value
				if runFn.Signature.Recv() != nil && len(runFn.Params) > 0 {
					self = runFn.Params[0]
				} else {
					for _, fv := range runFn.FreeVars {
						t := fv.Type()
						if pt, ok := t.(*types.Pointer); ok {
							if _, pp := pt.Elem().(*types.Pointer); pp {
								t = pt.Elem() // a captured variable cell holding the registry pointer
							}
						}
						if d := derefNamed(t); d != nil && types.Identical(d, nt) {
							self = fv
						}
					}
				}
				if self == nil {
					bad = append(bad, fmt.Sprintf("%s: cannot identify the registry in the poll loop's function", p.At(ins)))
				} else if !ownLockHeld(ins, self) {
					bad = append(bad, fmt.Sprintf("%s: gauges are polled without the registry mutex", p.At(ins)))
				}
			}
		})
		// no other function polls gauges
		for _, g := range p.MethodsOf(nt) {
			if g == runFn {
				continue
			}
			allInstrs(g, func(ins ssa.Instruction) {
				if call, ok := ins.(*ssa.Call); ok {
					c := p.CallOf(call)
					if c.Static != nil && c.Static.Name() == "poll" {
						bad = append(bad, fmt.Sprintf("%s: gauges are polled outside the poll loop (in %s)", p.At(ins), p.Key(g)))
					}
				}
			})
		}
		l.Check(len(bad) == 0, "O5", p.Key(runFn)+"/poll-loop", p.FuncPos(runFn), "select loop with a returning stop case; gauges polled only on ticks, under the mutex", "the poller does not stop on the stop signal or polls outside Start..Stop", bad...)
	}
}

func derefOrSelf(t types.Type) types.Type {
	if pt, ok := t.(*types.Pointer); ok {
		return pt.Elem()
	}
	return t
}

// c20WindowInFlight: the in-flight value a capacity-owning listener records into the sample window is the gauge value
// returned by the increment at admission: the listener field it is read from is written only where the listener is
// built, with the result of that increment.
func c20WindowInFlight(p *Prog, l *Ledger) {
	w := p.Named("measurements", "ImmutableSampleWindow")
	tok := p.coreNamed("StrategyToken")
	for _, nt := range p.Implementers(p.coreIface("Listener")) {
		if len(fieldsOfType(nt, tok)) != 1 || !strings.HasPrefix(p.TypeKey(nt), "limiter.") {
			continue
		}
		key := p.TypeKey(nt) + "/window-inflight"
		var src *FieldRef
		var bad []string
		nrec := 0
		for _, f := range p.Funcs {
			if !p.InPkg(f, "limiter") {
				continue
			}
			allInstrs(f, func(ins ssa.Instruction) {
				call, ok := ins.(*ssa.Call)
				if !ok {
					return
				}
				c := p.CallOf(call)
				if c.Static == nil || c.Recv == nil || !strings.HasPrefix(c.Static.Name(), "Add") {
					return
				}
				if d := derefNamed(c.Recv.Type()); d == nil || w == nil || !types.Identical(d, w) {
					return
				}
				nrec++
				arg := strip(c.Args[len(c.Args)-1], true)
				if cv, ok := arg.(*ssa.Convert); ok {
					arg = strip(cv.X, true)
				}
				fr, ok := p.SourceField(f, arg)
				if !ok || !types.Identical(fr.Type, nt) {
					bad = append(bad, fmt.Sprintf("%s: the in-flight value recorded into the window is not the listener's admission count: %s", p.At(ins), valueString(arg)))
					return
				}
				f2 := fr
				src = &f2
			})
		}
		if src != nil {
			for _, f := range p.Funcs {
				for _, a := range p.Accesses(f) {
					if !a.Write || !sameField(a.Field, *src) {
						continue
					}
					if !freshBase(a) {
						bad = append(bad, fmt.Sprintf("%s: the admission in-flight count of a listener is modified after admission (%s)", p.At(a.Instr), p.Key(f)))
						continue
					}
					if d, ok := p.DeltaOf(valueInstr(strip(a.Val, true))); !ok || d.By != 1 {
						bad = append(bad, fmt.Sprintf("%s: the listener's in-flight count is not the result of the gauge increment at admission: %s", p.At(a.Instr), valueString(a.Val)))
					}
				}
			}
		}
		l.Check(len(bad) == 0 && nrec > 0, "O2", key, "", fmt.Sprintf("%d window recordings carry the gauge value returned by the increment at admission; the field is never rewritten", nrec), "the in-flight sample does not equal the in-flight count at the admission decision", bad...)
	}
}

func valueInstr(v ssa.Value) ssa.Instruction {
	ins, _ := v.(ssa.Instruction)
	return ins
}

// c20IsCounterListener: the listener a sample is sent to lives in a field that is only ever assigned the result of
// RegisterCount - an event counter (refusals, unmatched requests), not the in-flight distribution.
func c20IsCounterListener(p *Prog, c *Call) bool {
	if c == nil || c.Recv == nil {
		return false
	}
	fr, _, ok := loadedField(strip(c.Recv, false))
	if !ok {
		return false
	}
	n, counts := 0, 0
	for _, g := range p.Funcs {
		for _, a := range p.Accesses(g) {
			if !a.Write || a.Pointee || !sameField(a.Field, fr) {
				continue
			}
			n++
			if call, ok := strip(a.Val, false).(*ssa.Call); ok {
				if cc := p.CallOf(call); cc.Iface != nil && cc.Iface.Name() == "RegisterCount" {
					counts++
				}
			}
		}
	}
	return n > 0 && n == counts
}

// c20IsCounterField: some method of the field's type changes it by +1 or -1 (it counts something); the enforced limit,
// which is an integer field of the same struct, does not qualify.
func c20IsCounterField(p *Prog, fr FieldRef) bool {
	for _, f := range p.Funcs {
		found := false
		allInstrs(f, func(ins ssa.Instruction) {
			if d, ok := p.DeltaOf(ins); ok && sameField(d.Field, fr) && (d.By == 1 || d.By == -1) {
				found = true
			}
		})
		if found {
			return true
		}
	}
	return false
}

// c20ChanBuffered: every channel stored into the field is made with a constant capacity >= 1.
func c20ChanBuffered(p *Prog, fr FieldRef) bool {
	n, ok := 0, true
	for _, f := range p.Funcs {
		for _, a := range p.Accesses(f) {
			if !a.Write || a.Pointee || !sameField(a.Field, fr) {
				continue
			}
			n++
			mc, isMk := strip(a.Val, false).(*ssa.MakeChan)
			if !isMk {
				ok = false
				continue
			}
			if k, isC := constInt(mc.Size); !isC || k < 1 {
				ok = false
			}
		}
	}
	return ok && n > 0
}

// c20NonNilPassThrough: g(x) returns x on the paths that established x != nil and a freshly made value otherwise.
func c20NonNilPassThrough(p *Prog, g *ssa.Function) bool {
	if g == nil || g.Blocks == nil || !p.InModule(g) || len(g.Params) != 1 || g.Signature.Results().Len() != 1 {
		return false
	}
	ok, n, npass := true, 0, 0
	prm := ssa.Value(g.Params[0])
	EnumPaths(g, 1000, func(pa *Path) bool {
		if !pa.IsReturn() {
			return true
		}
		last := pa.Blocks[len(pa.Blocks)-1]
		ret, isR := last.Instrs[len(last.Instrs)-1].(*ssa.Return)
		if !isR || len(ret.Results) != 1 {
			return true
		}
		n++
		isNil := pa.HoldsRel(-1, func(rel Rel) bool { return rel.Op == token.EQL && strip(rel.X, false) == prm && isNilConst(rel.Y) })
		nonNil := pa.HoldsRel(-1, func(rel Rel) bool { return rel.Op == token.NEQ && strip(rel.X, false) == prm && isNilConst(rel.Y) })
		r := strip(pa.Resolve(ret.Results[0], len(pa.Blocks)-1), false)
		switch x := r.(type) {
		case *ssa.Alloc:
			// a value made here, only in place of a nil argument
			if !isNil {
				ok = false
			}
		case *ssa.Parameter:
			if ssa.Value(x) != prm || !nonNil {
				ok = false
			}
			npass++
		default:
			ok = false
		}
		return ok
	})
	if npass == 0 {
		return false
	}
	return ok && n > 0
}
