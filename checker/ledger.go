package main

// Obligation ledger: every rule instantiates obligations keyed by rule + construct (never by line).
// The ledger decides the exit code, matches known findings, and writes the evidence and replay files.

import (
	"crypto/sha1"
	"encoding/hex"
	"encoding/json"
	"fmt"
	"os"
	"path/filepath"
	"sort"
	"strings"
	"time"
)

const (
	Discharged = "discharged"
	Violated   = "violated"
	Undecided  = "undecided"
)

type Obligation struct {
	Key      string   `json:"key"`
	Rule     string   `json:"rule"`
	Anchor   string   `json:"anchor,omitempty"`
	Verdict  string   `json:"verdict"`
	Detail   string   `json:"detail,omitempty"`
	Witness  []string `json:"witness,omitempty"`
	Analysed string   `json:"analysed,omitempty"`
	Known    string   `json:"known_finding,omitempty"`
}

type Ledger struct {
	Prop        string
	Tier        string
	Obls        []*Obligation
	byKey       map[string]*Obligation
	Assumptions []string
	Notes       []string
	Counters    map[string]int
	RuleText    map[string]string
	NotCovered  []string
	infraErrs   []string
	start       time.Time
	only        string
	Extra       map[string]interface{}
	floorsApplied bool
	importFed   map[string]bool // rules that receive imported obligations
	seenPublished map[string]bool
	claimed     map[string]bool // function keys that rules of this run rely on by role (see variant.go)
}

func NewLedger(prop, tier string) *Ledger {
	return &Ledger{Prop: prop, Tier: tier, byKey: map[string]*Obligation{}, Counters: map[string]int{},
		RuleText: map[string]string{}, start: time.Now(), Extra: map[string]interface{}{}}
}

// Rule registers the text of a rule (O1, O2 ...).
func (l *Ledger) Rule(id, text string) { l.RuleText[id] = text }

func (l *Ledger) Assume(s string) {
	for _, a := range l.Assumptions {
		if a == s {
			return
		}
	}
	l.Assumptions = append(l.Assumptions, s)
}

func (l *Ledger) Note(format string, a ...interface{}) {
	l.Notes = append(l.Notes, fmt.Sprintf(format, a...))
}

func (l *Ledger) Count(name string, n int) { l.Counters[name] += n }

// Claim records that a rule identified fn by its role (notifier, readiness predicate, wake-up routine ...) and reads
// it as a unit: the first fallback variant does not inline it.
func (l *Ledger) Claim(key string) {
	if l.claimed == nil {
		l.claimed = map[string]bool{}
	}
	l.claimed[key] = true
}

// Infra records that an anchor of a rule no longer resolves or a rule matched fewer constructs than its floor
// (vacuity). The code no longer has a shape the rule understands: reported as an undecided obligation
// (VIOLATION, exit 1), never as "held".
func (l *Ledger) Infra(format string, a ...interface{}) {
	msg := fmt.Sprintf(format, a...)
	l.Add("anchor", keyHash(msg), "", Undecided, msg)
}

// Fatal records a checker failure (panic): exit 2.
func (l *Ledger) Fatal(format string, a ...interface{}) {
	l.infraErrs = append(l.infraErrs, fmt.Sprintf(format, a...))
}

// Add records an obligation. rule is "O1"; construct identifies the code construct position-independently.
func (l *Ledger) Add(rule, construct, anchor, verdict, detail string, witness ...string) *Obligation {
	key := l.Prop + "/" + rule + "/" + construct
	if o, dup := l.byKey[key]; dup {
		// same construct reported twice: keep the worst verdict, append detail
		if rank(verdict) > rank(o.Verdict) {
			o.Verdict = verdict
			o.Detail = detail
			o.Witness = witness
			o.Anchor = anchor
		}
		return o
	}
	o := &Obligation{Key: key, Rule: rule, Anchor: anchor, Verdict: verdict, Detail: detail, Witness: witness}
	l.byKey[key] = o
	l.Obls = append(l.Obls, o)
	return o
}

func rank(v string) int {
	switch v {
	case Violated:
		return 2
	case Undecided:
		return 1
	}
	return 0
}

func (l *Ledger) OK(rule, construct, anchor, detail string) *Obligation {
	return l.Add(rule, construct, anchor, Discharged, detail)
}

func (l *Ledger) Bad(rule, construct, anchor, detail string, witness ...string) *Obligation {
	return l.Add(rule, construct, anchor, Violated, detail, witness...)
}

func (l *Ledger) Unknown(rule, construct, anchor, detail string, witness ...string) *Obligation {
	return l.Add(rule, construct, anchor, Undecided, detail, witness...)
}

// Check is a convenience: discharged when ok, violated otherwise.
func (l *Ledger) Check(ok bool, rule, construct, anchor, okDetail, badDetail string, witness ...string) bool {
	if ok {
		l.OK(rule, construct, anchor, okDetail)
	} else {
		l.Bad(rule, construct, anchor, badDetail, witness...)
	}
	return ok
}

func (l *Ledger) CountRule(rule string) int {
	n := 0
	for _, o := range l.Obls {
		if o.Rule == rule {
			n++
		}
	}
	return n
}

// ---------------------------------------------------------------- known findings

type KnownFinding struct {
	Property string `json:"property"`
	Key      string `json:"key"`
	Status   string `json:"status"` // "known" | "fixed"
	Commit   string `json:"commit,omitempty"`
	What     string `json:"what"`
	Repro    string `json:"repro,omitempty"`
}

func loadKnown(path string) ([]KnownFinding, error) {
	b, err := os.ReadFile(path)
	if err != nil {
		if os.IsNotExist(err) {
			return nil, nil
		}
		return nil, err
	}
	var f struct {
		Findings []KnownFinding `json:"findings"`
	}
	if err := json.Unmarshal(b, &f); err != nil {
		return nil, fmt.Errorf("%s: %v", path, err)
	}
	return f.Findings, nil
}

// ---------------------------------------------------------------- finish

type finishOpts struct {
	verifDir   string
	floors     map[string]int // rule -> minimum obligation count
	explain    string
	trusted    []string
	seed       int
	checkerCmd string
	noEvidence bool
}

func keyHash(k string) string {
	h := sha1.Sum([]byte(k))
	return hex.EncodeToString(h[:])[:12]
}

// Finish prints the result, writes evidence + replay files and returns the process exit code.
func (l *Ledger) Finish(o finishOpts) int {
	known, err := loadKnown(filepath.Join(o.verifDir, "known_findings.json"))
	if err != nil {
		l.Fatal("known_findings.json unreadable: %v", err)
	}
	l.applyFloors(o.floors)

	sort.SliceStable(l.Obls, func(i, j int) bool { return l.Obls[i].Key < l.Obls[j].Key })
	l.RuleText["anchor"] = "every anchor of the property's rules resolves and every rule matches at least the number of constructs confirmed by hand (vacuity guard)"
	nViol, nKnown, nDis := 0, 0, 0
	var lines []string
	replayDir := filepath.Join(o.verifDir, "evidence", "replay")
	for _, ob := range l.Obls {
		if l.only != "" && ob.Key != l.only {
			continue
		}
		switch ob.Verdict {
		case Discharged:
			nDis++
			continue
		}
		// violated or undecided
		matched := false
		for _, k := range known {
			if k.Property == l.Prop && k.Key == ob.Key && k.Status == "known" {
				matched = true
				ob.Known = k.What
				lines = append(lines, fmt.Sprintf("KNOWN-FINDING: property=%s %s [%s at %s]", l.Prop, k.What, ob.Key, ob.Anchor))
				nKnown++
				break
			}
		}
		if matched {
			continue
		}
		nViol++
		rp := filepath.Join(replayDir, l.Prop+"-"+keyHash(ob.Key)+".json")
		if !o.noEvidence {
			os.MkdirAll(replayDir, 0o755)
			rb, _ := json.MarshalIndent(map[string]interface{}{
				"property": l.Prop, "key": ob.Key, "rule": l.RuleText[ob.Rule], "kind": ob.Verdict,
				"anchor": ob.Anchor, "detail": ob.Detail, "witness": ob.Witness,
				"replay": fmt.Sprintf("./run.sh %s quick --replay %s", l.Prop, rp),
			}, "", " ")
			os.WriteFile(rp, rb, 0o644)
		}
		lines = append(lines, fmt.Sprintf("VIOLATION property=%s replay=%s", l.Prop, rp))
		lines = append(lines, fmt.Sprintf("  %s %s at %s: %s", ob.Verdict, ob.Key, ob.Anchor, ob.Detail))
		for _, w := range ob.Witness {
			lines = append(lines, "    "+w)
		}
	}
	// a known finding that no longer fires is reported (informational)
	for _, k := range known {
		if k.Property != l.Prop || k.Status != "known" {
			continue
		}
		if ob := l.byKey[k.Key]; ob == nil || ob.Verdict == Discharged {
			l.Note("known finding %s no longer fires on this tree", k.Key)
		}
	}

	total := 0
	for _, ob := range l.Obls {
		if l.only == "" || ob.Key == l.only {
			total++
		}
	}
	wall := time.Since(l.start).Seconds()
	fmt.Printf("%s tier=%s obligations=%d discharged=%d known=%d violations=%d wall=%.1fs\n", l.Prop, l.Tier, total, nDis, nKnown, nViol, wall)
	var cn []string
	for k := range l.Counters {
		cn = append(cn, k)
	}
	sort.Strings(cn)
	var cs []string
	for _, k := range cn {
		cs = append(cs, fmt.Sprintf("%s=%d", k, l.Counters[k]))
	}
	if len(cs) > 0 {
		fmt.Printf("  analysed: %s\n", strings.Join(cs, " "))
	}
	perRule := map[string][2]int{}
	for _, ob := range l.Obls {
		c := perRule[ob.Rule]
		c[0]++
		if ob.Verdict == Discharged {
			c[1]++
		}
		perRule[ob.Rule] = c
	}
	var rn []string
	for r := range perRule {
		rn = append(rn, r)
	}
	sort.Strings(rn)
	for _, r := range rn {
		fmt.Printf("  %s: %d/%d  %s\n", r, perRule[r][1], perRule[r][0], firstLine(l.RuleText[r]))
	}
	for _, ln := range lines {
		fmt.Println(ln)
	}
	for _, e := range l.infraErrs {
		fmt.Printf("ERROR property=%s %s\n", l.Prop, e)
	}

	if !o.noEvidence && l.only == "" {
		l.writeEvidence(o, total, nDis, nKnown, nViol, wall, perRule)
	}
	if len(l.infraErrs) > 0 {
		return 2
	}
	if nViol > 0 {
		return 1
	}
	return 0
}

// applyFloors adds the vacuity-guard obligations (once); not applied when re-deciding a single obligation.
func (l *Ledger) applyFloors(floors map[string]int) {
	if l.only != "" || l.floorsApplied {
		return
	}
	l.floorsApplied = true
	var rules []string
	for r := range floors {
		rules = append(rules, r)
	}
	sort.Strings(rules)
	for _, r := range rules {
		if n := l.CountRule(r); n < floors[r] {
			l.Infra("vacuity guard: rule %s/%s produced %d obligations, floor is %d (the anchors of this rule no longer match the code)", l.Prop, r, n, floors[r])
		}
	}
}

// Unlisted returns the obligations that are not discharged and not listed as known findings, after the vacuity guard.
func (l *Ledger) Unlisted(verifDir string, floors map[string]int) []*Obligation {
	l.applyFloors(floors)
	known, _ := loadKnown(filepath.Join(verifDir, "known_findings.json"))
	var out []*Obligation
	for _, ob := range l.Obls {
		if ob.Verdict == Discharged || (l.only != "" && ob.Key != l.only) {
			continue
		}
		listed := false
		for _, k := range known {
			if k.Property == l.Prop && k.Key == ob.Key && k.Status == "known" {
				listed = true
			}
		}
		if !listed {
			out = append(out, ob)
		}
	}
	return out
}

func firstLine(s string) string {
	if i := strings.IndexByte(s, '\n'); i >= 0 {
		s = s[:i]
	}
	if len(s) > 110 {
		s = s[:107] + "..."
	}
	return s
}

func (l *Ledger) writeEvidence(o finishOpts, total, nDis, nKnown, nViol int, wall float64, perRule map[string][2]int) {
	type sample struct {
		Key     string `json:"key"`
		Anchor  string `json:"anchor"`
		Verdict string `json:"verdict"`
		Detail  string `json:"detail"`
		Known   string `json:"known_finding,omitempty"`
	}
	var samples []sample
	for _, ob := range l.Obls {
		samples = append(samples, sample{ob.Key, ob.Anchor, ob.Verdict, ob.Detail, ob.Known})
	}
	rules := map[string]interface{}{}
	for r, c := range perRule {
		rules[r] = map[string]interface{}{"text": l.RuleText[r], "obligations": c[0], "discharged": c[1]}
	}
	// distinct non-trivial: distinct obligation keys (each is a distinct construct × rule)
	distinct := map[string]bool{}
	for _, ob := range l.Obls {
		distinct[ob.Key] = true
	}
	cov := map[string]interface{}{
		"explanation":         o.explain,
		"obligations":         total,
		"discharged":          nDis,
		"known_findings":      nKnown,
		"evaluations":         total,
		"distinct_nontrivial": len(distinct),
		"rule":                "one obligation per (rule, code construct) enumerated from the type-checked SSA program of /repo's working tree; distinct = distinct obligation keys; an obligation is non-trivial because it is only created when the rule's anchor pattern matched a concrete construct",
		"samples":             samples,
		"rules":               rules,
		"analysed":            l.Counters,
		"checker_cmd":         o.checkerCmd,
		"trusted_base":        o.trusted,
		"not_covered":         l.NotCovered,
		"notes":               l.Notes,
		"exhaustive":          true,
	}
	for k, v := range l.Extra {
		cov[k] = v
	}
	ev := map[string]interface{}{
		"property_id": l.Prop,
		"tier":        l.Tier,
		"seed":        o.seed,
		"level":       "other",
		"coverage":    cov,
		"assumptions": l.Assumptions,
		"wall_s":      wall,
		"violations":  nViol,
	}
	if l.Assumptions == nil {
		ev["assumptions"] = []string{}
	}
	b, _ := json.MarshalIndent(ev, "", " ")
	dir := filepath.Join(o.verifDir, "evidence")
	os.MkdirAll(dir, 0o755)
	if err := os.WriteFile(filepath.Join(dir, l.Prop+".json"), b, 0o644); err != nil {
		fmt.Printf("ERROR property=%s cannot write evidence: %v\n", l.Prop, err)
	}
}
