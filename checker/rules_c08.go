package main

import (
	"sort"
	"os"
	"fmt"
	"go/token"
	"go/types"
	"strings"

	"gclverify/xt/ssa"
)

func init() {
	register("C08", &ruleSet{
		run:    runC08,
		floors: map[string]int{"O1": 2, "O2": 1, "O3": 2, "O4": 3, "O5": 3, "O6": 3, "O7": 3, "O8": 1},
		explain: "Decides necessary sign conditions of 'more latency never means more limit' for Vegas and Gradient, and for Gradient2 in its instantaneous RTT (the part of Gradient2 that goes through its long-term average is declined: the average also absorbs the " +
			"sample, so the quotient long/short has mixed polarity syntactically; threshold ordering, rounding, probe and baseline-lowering samples are excluded): (O1) polarity: " +
			"the control signal is monotone in the sample RTT in the right direction - Vegas's queue estimate is non-decreasing in rtt, and on every Gradient path the stored " +
			"estimate is a non-increasing function of rtt (rtt occurs only as the divisor of a non-negative quotient under monotone maps: Max, Min, Ceil, conversions, addition of " +
			"rtt-independent terms, multiplication by non-negative rtt-independent factors, the smoothing convex combination); (O2) comparator orientation: in Vegas every path " +
			"that raises the estimate is decided by an upper bound on the queue estimate and every non-drop path that lowers it by a lower bound; (O3) rtt influences control flow " +
			"only through recognised monotone idioms: the baseline-lowering test (excluded by the property), a guard whose low-rtt side yields a value proved >= the high-rtt " +
			"side, the self-guarded smoothing idiom whose pieces meet at the old estimate, threshold comparisons of the control signal, and effect-free (logging) diamonds; any " +
			"other rtt-dependent branch is reported. Including Gradient2: (O6) no sample is set aside by a one-sided test (C07/O5) and (O7) a reset or replacement of a baseline measurement on the sample path is not control-dependent on a test that reads the sample's RTT. (O8) Gradient2: the result of a latest-value measurement (Add stores and returns exactly its argument) is the sample itself; with the long-term average as given, every estimate stored on a non-drop path is a non-increasing function of it - decides the orientation of the quotient and of the clamp around it. (O4) and (O5) establish what the argument takes as given: the clamp of every stored estimate (C04/O1) and a smoothing factor within [0,1].",
	})
}

const (
	polConst = 0
	polUp    = 1
	polDown  = -1
	polMixed = 2
)

func polNeg(p int) int {
	if p == polMixed {
		return p
	}
	return -p
}

func polJoin(a, b int) int {
	switch {
	case a == polMixed || b == polMixed:
		return polMixed
	case a == polConst:
		return b
	case b == polConst:
		return a
	case a == b:
		return a
	}
	return polMixed
}

type polCtx struct {
	pr    *prover
	rtt   ssa.Value
	memo  map[ssa.Value]int
	notes []string
	ident map[ssa.Value]bool // results of latest-value measurements: the value handed in, unchanged (O8)
}

func (c *polCtx) nonNeg(v ssa.Value) bool {
	c.pr.budget = 3000
	return c.pr.rel(atomVal(v), atomConst(0), false, 0)
}

// pol computes the monotonic polarity of v as a function of the sample RTT along the prover's path.
func (c *polCtx) pol(v ssa.Value, depth int) int {
	if depth > 40 {
		return polMixed
	}
	v = c.pr.res(v)
	if v == c.rtt {
		return polUp
	}
	if r, ok := c.memo[v]; ok {
		return r
	}
	c.memo[v] = polMixed // cycle guard
	res := polMixed
	switch x := v.(type) {
	case *ssa.Const, *ssa.Parameter, *ssa.FreeVar, *ssa.Global:
		res = polConst
	case *ssa.Convert:
		res = c.pol(x.X, depth+1)
	case *ssa.UnOp:
		if x.Op == token.MUL {
			res = polConst // memory read (field / cell): not a function of this sample's rtt unless stored on the path, which res() forwards
		} else if x.Op == token.SUB {
			res = polNeg(c.pol(x.X, depth+1))
		}
	case *ssa.Extract:
		// results of measurement calls: constant in rtt under the property's proviso (the sample does not lower the baseline)
		if call, ok := x.Tuple.(*ssa.Call); ok && call.Common().IsInvoke() {
			res = polConst
			if c.ident[x] && len(call.Call.Args) == 1 {
				res = c.pol(call.Call.Args[0], depth+1)
			}
		}
	case *ssa.Call:
		name, args := c.pr.mathCall(x)
		switch name {
		case "max", "min":
			res = polConst
			for _, a := range args {
				res = polJoin(res, c.pol(a, depth+1))
			}
		case "ceil", "floor", "round", "sqrt":
			res = c.pol(args[0], depth+1)
		default:
			// getters and function fields: constant if no argument depends on rtt
			res = polConst
			for _, a := range x.Call.Args {
				if c.pol(a, depth+1) != polConst {
					res = polMixed
				}
			}
		}
	case *ssa.BinOp:
		if _, xx, yy, ok := c.pr.convex(x); ok {
			res = polJoin(c.pol(xx, depth+1), c.pol(yy, depth+1))
			break
		}
		px, py := c.pol(x.X, depth+1), c.pol(x.Y, depth+1)
		switch x.Op {
		case token.ADD:
			res = polJoin(px, py)
		case token.SUB:
			res = polJoin(px, polNeg(py))
		case token.MUL:
			switch {
			case px == polConst && py == polConst:
				res = polConst
			case px == polConst && c.nonNeg(x.X):
				res = py
			case py == polConst && c.nonNeg(x.Y):
				res = px
			}
		case token.QUO:
			switch {
			case px == polConst && py == polConst:
				res = polConst
			case py == polConst && c.nonNeg(x.Y):
				res = px
			case px == polConst && c.nonNeg(x.X) && c.nonNeg(x.Y):
				res = polNeg(py)
			}
		case token.LSS, token.LEQ, token.GTR, token.GEQ, token.EQL, token.NEQ:
			if px == polConst && py == polConst {
				res = polConst
			}
		}
	}
	c.memo[v] = res
	return res
}

func polName(p int) string {
	switch p {
	case polConst:
		return "independent of rtt"
	case polUp:
		return "non-decreasing in rtt"
	case polDown:
		return "non-increasing in rtt"
	}
	return "of mixed / unknown monotonicity in rtt"
}

func runC08(p *Prog, l *Ledger) {
	l.Rule("O1", "polarity: Vegas's queue estimate is non-decreasing in rtt; every estimate stored by Gradient is a non-increasing function of rtt on its path")
	l.Rule("O2", "comparator orientation (Vegas): raising outcomes are decided by an upper bound on the queue estimate, lowering (non-drop) outcomes by a lower bound")
	l.Rule("O3", "rtt influences control flow only through recognised monotone idioms (baseline test, dominated guard, self-guarded smoothing, control-signal thresholds, effect-free diamonds)")
	l.NotCovered = []string{"Gradient2 through its long-term average (mixed syntactic polarity of long/short RTT; O8 decides the instantaneous RTT only)", "numeric ordering of the thresholds threshold <= alpha <= beta and of the step sizes", "probe and baseline-lowering samples (excluded by the property)", "rounding"}
	l.Assume("measurement values (baselines, RTT averages) are >= 0 and are not changed by the sample under comparison (the property's proviso)")
	l.Rule("O4", "what the monotonicity argument takes as given is established by the code: every stored estimate of the delay-based algorithms stays within its bounds (the C04/O1 rules on the same tree: a floor applied on one branch only makes a slower sample land higher)")
	l.Rule("O5", "the smoothing factor is within [0,1]: every constructor stores a value proved >= 0 and <= 1 and nothing rewrites it (a negative weight reverses the direction of the update)")
	l.Rule("O6", "no sample is set aside by a one-sided test (decided by the C07/O5 rule on the same tree, all four algorithms): a saturated drop-free sample moves the estimate unless a measured quantity was bounded from both sides; a dead band or a skip that depends on the sample's rtt makes the outcome jump with the rtt")
	importObligations(p, l, "C07", "O6", func(o *Obligation) bool { return o.Rule == "O5" })
	importObligations(p, l, "C04", "O4", func(o *Obligation) bool {
		return o.Rule == "O1" && (strings.Contains(o.Key, "VegasLimit") || strings.Contains(o.Key, "GradientLimit") || strings.Contains(o.Key, "Gradient2Limit"))
	})
	l.Rule("O7", "the baseline is not forgotten because of the sample's RTT: a reset or replacement of a baseline measurement on the sample path is not control-dependent on a test that reads the sample's RTT together with the algorithm's state (the slower twin would be judged against a fresh baseline, the faster one against the old one)")
	c08ResetIndependentOfRTT(p, l)
	l.Rule("O8", "Gradient2: with the long-term average taken as given (the proviso of O1), every estimate stored on a non-drop path is a non-increasing function of the instantaneous RTT, which a latest-value measurement (C18/O4) hands back unchanged")
	c08Gradient2(p, l)
	smoothSeen := map[string]bool{}
	for _, af := range algoFuncs(p, l) {
		name := af.A.T.Obj().Name()
		if name != "VegasLimit" && name != "GradientLimit" && name != "Gradient2Limit" {
			continue
		}
		// the smoothing field by role: f in "1 - f" inside the update
		allInstrs(af.Fn, func(ins ssa.Instruction) {
			bo, ok := ins.(*ssa.BinOp)
			if !ok || bo.Op != token.SUB {
				return
			}
			if k, isC := constFloat(strip(bo.X, false)); !isC || k != 1 {
				return
			}
			fr, _, ok := loadedField(strip(bo.Y, false))
			if !ok || fr.Type == nil || !types.Identical(fr.Type, af.A.T) || smoothSeen[p.FieldKey(fr)] {
				return
			}
			smoothSeen[p.FieldKey(fr)] = true
			lo := p.ImmutableFieldBound(fr, 0, false)
			hi := p.ImmutableFieldBound(fr, 1, true)
			l.Check(lo && hi, "O5", p.FieldKey(fr), p.At(ins), "every constructor stores a smoothing factor proved within [0,1]; no other writer",
				fmt.Sprintf("the smoothing factor is not proved within [0,1] (>= 0: %v, <= 1: %v): with a weight outside that range more latency can mean more limit", lo, hi))
		})
	}

	for _, af := range algoFuncs(p, l) {
		name := af.A.T.Obj().Name()
		if name != "VegasLimit" && name != "GradientLimit" {
			continue
		}
		key := p.Key(af.Fn)
		if af.RTT == nil {
			l.Unknown("O1", key, p.FuncPos(af.Fn), "cannot map OnSample's rtt parameter onto this function")
			continue
		}
		roles, _ := funcFieldRoles(p, af.A.T)
		var bad1, bad2, bad3 []string
		npaths := 0
		sawSignal := false
		// outcome of every path that compared the control signal with thresholds: class and the bounds it established
		type region struct {
			class          string // raise | lower | unchanged
			uppers, lowers map[ssa.Value]bool
			where          string
		}
		regions := map[string]*region{}
		_, trunc := EnumPaths(af.Fn, 400000, func(pa *Path) bool {
			if !pa.IsReturn() {
				return true
			}
			if af.Drop != nil {
				if d, known := pa.FactOn(af.Drop, len(pa.Blocks)); known && d {
					return true // same drop flag on both samples: the drop path does not look at rtt (C06)
				}
			}
			if c06BaselineReturn(p, pa) {
				return true // probe / baseline-lowering samples are excluded by the property
			}
			npaths++
			last := len(pa.Blocks) - 1
			pr := &prover{p: p, pa: pa, step: last, entry: af.Entry}
			c04Axioms(p, pr, af.A, pa, l)
			pr.axiomGE(atomField(af.A.Est), atomConst(0))
			pr.symGE = append(pr.symGE, symBound{"Get(f(", 0})
			// results of measurement Add / Get calls on the path are >= 0
			pa.Each(func(step int, ins ssa.Instruction) bool {
				if call, ok := ins.(*ssa.Call); ok && call.Common().IsInvoke() {
					switch call.Common().Method.Name() {
					case "Get":
						pr.axiomGE(atomVal(call), atomConst(0))
					case "Add":
						if refs := call.Referrers(); refs != nil {
							for _, r := range *refs {
								if ex, ok := r.(*ssa.Extract); ok && ex.Index == 0 {
									pr.axiomGE(atomVal(ex), atomConst(0))
								}
							}
						}
					}
				}
				return true
			})
			// a helper that is handed the baseline as an argument (read once by OnSample, passed down): the parameter is a
			// measurement value too
			if on := p.Method(af.A.T, "OnSample"); on != nil && on != af.Fn {
				allInstrs(on, func(ins ssa.Instruction) {
					call, ok := ins.(*ssa.Call)
					if !ok || p.CallOf(call).Static != af.Fn {
						return
					}
					for i, arg := range call.Call.Args {
						if i >= len(af.Fn.Params) || af.Fn.Params[i] == af.RTT {
							continue
						}
						a := strip(arg, true)
						if cv, ok := a.(*ssa.Convert); ok {
							a = strip(cv.X, true)
						}
						if ex, ok := a.(*ssa.Extract); ok {
							a = ex.Tuple
						}
						if ac, ok := a.(*ssa.Call); ok && ac.Common().IsInvoke() {
							switch ac.Common().Method.Name() {
							case "Get", "Add":
								pr.axiomGE(atomVal(af.Fn.Params[i]), atomConst(0))
							}
						}
					}
				})
			}
			ctx := &polCtx{pr: pr, rtt: af.RTT, memo: map[ssa.Value]int{}}

			// ---- O3 / O2: rtt-dependent branch facts on this path
			var signalRels []Rel // comparisons of a control signal (pol up) with an rtt-independent value
			for _, f := range pa.Facts {
				ctx.pr.step = f.Step
				cond := f.Cond
				var x, y ssa.Value
				var op token.Token
				if bo, ok := cond.(*ssa.BinOp); ok {
					x, y, op = bo.X, bo.Y, bo.Op
				} else {
					if ctx.pol(cond, 0) != polConst {
						bad3 = append(bad3, fmt.Sprintf("%s: branch on a value that depends on rtt: %s", c08At(p, cond), condString(cond)))
					}
					continue
				}
				px, py := ctx.pol(x, 0), ctx.pol(y, 0)
				if px == polConst && py == polConst {
					continue
				}
				rel, _ := relOf(f)
				switch {
				case c08BaselineTest(x, y, op, af.RTT):
					// excluded by the proviso
				case c08EffectFree(p, af.Fn, cond):
					// logging only
				case c08DominatedGuard(p, ctx, af.Fn, cond, f):
					// guard whose low-rtt side dominates the high-rtt side
				case c08SmoothingIdiom(p, ctx, af, pa, cond, f):
					// if cand < est { smooth } : pieces meet at the old estimate
				case (px == polUp && py == polConst) || (py == polUp && px == polConst):
					// threshold comparison of a non-decreasing control signal
					if py == polUp {
						rel = Rel{X: rel.Y, Y: rel.X, Op: flipOp(rel.Op)}
					}
					signalRels = append(signalRels, rel)
					sawSignal = true
					if os.Getenv("GCLVERIFY_DEBUG") != "" {
						fmt.Printf("DEBUG signal %s: %s\n", p.Key(af.Fn), condString(cond))
					}
				default:
					bad3 = append(bad3, fmt.Sprintf("%s: control flow depends on rtt through an unrecognised condition (%s, operands %s / %s): the limit can be non-monotone in the observed latency", c08At(p, cond), condString(cond), polName(px), polName(py)))
				}
			}
			ctx.pr.step = last

			// ---- stores on this path
			for _, s := range af.Stores {
				if !pa.Contains(s.Instr) {
					continue
				}
				ctx.pr.step = pa.StepOf(s.Instr)
				ps := ctx.pol(s.Val, 0)
				if ps == polUp || ps == polMixed {
					bad1 = append(bad1, fmt.Sprintf("%s: the stored estimate is %s on the path %s", p.At(s.Instr), polName(ps), joinWitness(p.DescribePath(pa))))
				}
				// Vegas orientation: classify the candidate
				if len(signalRels) > 0 {
					class := c08Outcome(p, pr, af, roles, s.Val)
					lastRel := signalRels[len(signalRels)-1]
					upper := lastRel.Op == token.LSS || lastRel.Op == token.LEQ
					lower := lastRel.Op == token.GTR || lastRel.Op == token.GEQ
					switch class {
					case "raise":
						if !upper {
							bad2 = append(bad2, fmt.Sprintf("%s: the estimate is raised on a path decided by a LOWER bound on the queue estimate (%s): more latency would mean more limit", p.At(s.Instr), condString(relCond(lastRel))))
						}
					case "lower":
						if !lower {
							bad2 = append(bad2, fmt.Sprintf("%s: the estimate is lowered on a path decided by an UPPER bound on the queue estimate (%s): less latency would mean less limit", p.At(s.Instr), condString(relCond(lastRel))))
						}
					default:
						bad2 = append(bad2, fmt.Sprintf("%s: cannot classify the candidate as raise / lower", p.At(s.Instr)))
					}
				}
			}
			if len(signalRels) > 0 {
				rg := &region{class: "unchanged", uppers: map[ssa.Value]bool{}, lowers: map[ssa.Value]bool{}}
				for _, s := range af.Stores {
					if pa.Contains(s.Instr) {
						rg.class = c08Outcome(p, pr, af, roles, s.Val)
					}
				}
				sig := rg.class
				for _, r := range signalRels {
					t := strip(r.Y, true)
					switch r.Op {
					case token.LSS, token.LEQ:
						rg.uppers[t] = true
						sig += fmt.Sprintf("|<%p", t)
					case token.GTR, token.GEQ:
						rg.lowers[t] = true
						sig += fmt.Sprintf("|>%p", t)
					}
				}
				if regions[sig] == nil {
					rg.where = joinWitness(p.DescribePath(pa))
					regions[sig] = rg
				}
			}
			return len(bad1) < 3 && len(bad2) < 3 && len(bad3) < 3
		})
		if trunc {
			l.Unknown("O1", key, p.FuncPos(af.Fn), "path enumeration truncated")
			continue
		}
		// outcomes must be ordered like the regions of the control signal: a path that leaves the estimate unchanged (or
		// lowers it) in a region BELOW one where another path raises it (resp. leaves it unchanged) makes the limit grow with latency
		rank := map[string]int{"raise": 2, "unchanged": 1, "lower": 0}
		var sigs []string
		for k := range regions {
			sigs = append(sigs, k)
		}
		sort.Strings(sigs)
		for _, ka := range sigs {
			for _, kb := range sigs {
				a, b := regions[ka], regions[kb]
				ra, okA := rank[a.class]
				rb, okB := rank[b.class]
				if !okA || !okB || ra >= rb {
					continue
				}
				// a's outcome is smaller than b's: a's region must not lie below b's
				for t := range a.uppers {
					if b.lowers[t] && len(bad2) < 3 {
						bad2 = append(bad2, fmt.Sprintf("the estimate is %s where the queue estimate is below a threshold (%s) but %s where it is above it (%s): more latency means more limit", regionVerb(a.class), a.where, regionVerb(b.class), b.where))
					}
				}
			}
		}
		l.Count("paths", npaths)
		// the control signal itself (Vegas): the value compared with the thresholds is non-decreasing in rtt — established
		// when classifying the branch facts above (only pol-up signals are accepted as thresholds comparisons)
		l.Check(len(bad1) == 0 && npaths > 0, "O1", key, p.FuncPos(af.Fn), fmt.Sprintf("%d non-drop, non-probe paths; the stored estimate is a non-increasing function of rtt on each (control signal non-decreasing)", npaths), "a higher RTT can yield a higher estimate", bad1...)
		l.Check(len(bad3) == 0 && npaths > 0, "O3", key, p.FuncPos(af.Fn), "rtt reaches control flow only through recognised monotone idioms", "rtt influences the update through an unrecognised branch", bad3...)
		if sawSignal {
			l.Check(len(bad2) == 0, "O2", key, p.FuncPos(af.Fn), "raise outcomes behind upper bounds, lower outcomes behind lower bounds of the queue estimate", "the threshold comparators are oriented against monotonicity", bad2...)
		}
	}
}

func c08At(p *Prog, v ssa.Value) string {
	if ins, ok := v.(ssa.Instruction); ok {
		return p.At(ins)
	}
	return "?"
}

func relCond(r Rel) ssa.Value {
	// only for printing
	return &ssa.BinOp{Op: r.Op, X: r.X, Y: r.Y}
}

// c08BaselineTest: "rtt < baseline" / "baseline == 0" — the sample lowers (or initialises) the baseline: excluded.
func c08BaselineTest(x, y ssa.Value, op token.Token, rtt ssa.Value) bool {
	isGet := func(v ssa.Value) bool {
		v = strip(v, true)
		if cv, ok := v.(*ssa.Convert); ok {
			v = strip(cv.X, true)
		}
		call, ok := v.(*ssa.Call)
		return ok && call.Common().IsInvoke() && call.Common().Method.Name() == "Get"
	}
	isRTT := func(v ssa.Value) bool {
		v = strip(v, true)
		if cv, ok := v.(*ssa.Convert); ok {
			v = strip(cv.X, true)
		}
		return v == rtt
	}
	switch op {
	case token.LSS:
		return isRTT(x) && isGet(y)
	case token.GTR:
		return isGet(x) && isRTT(y)
	}
	return false
}

// c08EffectFree: both outcomes of the condition rejoin without any field store, return or estimate-relevant phi
// (a logging diamond, possibly a short-circuit chain).
func c08EffectFree(p *Prog, f *ssa.Function, cond ssa.Value) bool {
	ins, ok := cond.(ssa.Instruction)
	if !ok {
		return false
	}
	var b *ssa.BasicBlock
	for _, blk := range f.Blocks {
		if iff, ok := blk.Instrs[len(blk.Instrs)-1].(*ssa.If); ok {
			c, _ := normCond(iff.Cond)
			if c == cond {
				b = blk
			}
		}
	}
	_ = ins
	if b == nil {
		return false
	}
	// explore from both successors until a common block; all visited blocks must be effect free
	reach := func(start *ssa.BasicBlock) map[*ssa.BasicBlock]int {
		dist := map[*ssa.BasicBlock]int{start: 0}
		q := []*ssa.BasicBlock{start}
		for len(q) > 0 {
			x := q[0]
			q = q[1:]
			if dist[x] > 6 {
				continue
			}
			for _, s := range x.Succs {
				if _, ok := dist[s]; !ok {
					dist[s] = dist[x] + 1
					q = append(q, s)
				}
			}
		}
		return dist
	}
	d0, d1 := reach(b.Succs[0]), reach(b.Succs[1])
	var join *ssa.BasicBlock
	best := 1 << 30
	for blk, a := range d0 {
		if c, ok := d1[blk]; ok && a+c < best {
			best, join = a+c, blk
		}
	}
	if join == nil {
		return false
	}
	for _, ins := range join.Instrs {
		if _, ok := ins.(*ssa.Phi); ok {
			return false
		}
	}
	effectFree := func(from *ssa.BasicBlock) bool {
		seen := map[*ssa.BasicBlock]bool{}
		var walk func(x *ssa.BasicBlock) bool
		walk = func(x *ssa.BasicBlock) bool {
			if x == join || seen[x] {
				return true
			}
			seen[x] = true
			for _, ins := range x.Instrs {
				switch y := ins.(type) {
				case *ssa.Store:
					if _, isField := y.Addr.(*ssa.FieldAddr); isField {
						return false
					}
				case *ssa.Return, *ssa.Panic, *ssa.MapUpdate, *ssa.Send:
					return false
				case *ssa.Call:
					c := p.CallOf(y)
					// only logger calls are allowed
					if c.Iface == nil || !(c.Iface.Name() == "Debugf" || c.Iface.Name() == "IsDebugEnabled") {
						if c.Name != "dynamic" && !strings.HasPrefix(c.Name, "builtin.") {
							return false
						}
					}
				}
			}
			for _, s := range x.Succs {
				if !walk(s) {
					return false
				}
			}
			return true
		}
		return walk(from)
	}
	return effectFree(b.Succs[0]) && effectFree(b.Succs[1])
}

// c08DominatedGuard: the condition compares a non-decreasing quantity with an rtt-independent bound and only selects
// between two values merged in a phi; the value on the low-rtt side is proved >= the value on the high-rtt side.
func c08DominatedGuard(p *Prog, ctx *polCtx, f *ssa.Function, cond ssa.Value, fact Fact) bool {
	bo, ok := cond.(*ssa.BinOp)
	if !ok {
		return false
	}
	px, py := ctx.pol(bo.X, 0), ctx.pol(bo.Y, 0)
	// normalise to: signal OP bound
	op := bo.Op
	if py == polUp && px == polConst {
		op = flipOp(op)
	} else if !(px == polUp && py == polConst) {
		return false
	}
	var b *ssa.BasicBlock
	for _, blk := range f.Blocks {
		if iff, ok := blk.Instrs[len(blk.Instrs)-1].(*ssa.If); ok {
			if c, _ := normCond(iff.Cond); c == cond {
				b = blk
			}
		}
	}
	if b == nil {
		return false
	}
	// diamond / triangle: one successor is the join, or both lead to it directly
	s0, s1 := b.Succs[0], b.Succs[1]
	var join *ssa.BasicBlock
	var viaTrue, viaFalse *ssa.BasicBlock
	switch {
	case len(s0.Succs) == 1 && s0.Succs[0] == s1:
		join, viaTrue, viaFalse = s1, s0, b
	case len(s1.Succs) == 1 && s1.Succs[0] == s0:
		join, viaTrue, viaFalse = s0, b, s1
	case len(s0.Succs) == 1 && len(s1.Succs) == 1 && s0.Succs[0] == s1.Succs[0]:
		join, viaTrue, viaFalse = s0.Succs[0], s0, s1
	default:
		return false
	}
	for _, blk := range []*ssa.BasicBlock{s0, s1} {
		if blk == join {
			continue
		}
		for _, ins := range blk.Instrs {
			switch y := ins.(type) {
			case *ssa.Store:
				if _, isField := y.Addr.(*ssa.FieldAddr); isField {
					return false
				}
			case *ssa.Return:
				return false
			}
		}
	}
	// high-rtt side: the edge on which the signal is large
	highIsTrue := op == token.GTR || op == token.GEQ
	nphi := 0
	for _, ins := range join.Instrs {
		phi, ok := ins.(*ssa.Phi)
		if !ok {
			continue
		}
		nphi++
		var vt, vf ssa.Value
		for i, pred := range join.Preds {
			if pred == viaTrue {
				vt = phi.Edges[i]
			}
			if pred == viaFalse {
				vf = phi.Edges[i]
			}
		}
		if vt == nil || vf == nil {
			return false
		}
		low, high := vf, vt
		if !highIsTrue {
			low, high = vt, vf
		}
		q := &prover{p: p}
		if !q.GE(low, atomVal(high)) {
			// prove low >= high structurally (e.g. 1.0 >= max(0.5, min(1.0, x)))
			q2 := &prover{p: p}
			q2.budget = 4000
			if !q2.rel(atomVal(low), atomVal(high), false, 0) {
				return false
			}
		}
	}
	return nphi > 0
}

// c08SmoothingIdiom: "if cand < est { cand' = smooth(est, cand) }" with cand non-increasing in rtt and est independent:
// on the true edge the merged value is proved <= est; on the false edge it is cand itself (>= est).
func c08SmoothingIdiom(p *Prog, ctx *polCtx, af *algoFn, pa *Path, cond ssa.Value, fact Fact) bool {
	bo, ok := cond.(*ssa.BinOp)
	if !ok || bo.Op != token.LSS {
		return false
	}
	if ctx.pol(bo.X, 0) != polDown || !ctx.pr.isEntryLoadOf(ctx.pr.res(bo.Y), af.A.Est) {
		return false
	}
	// the phi merging the two pieces
	var phi *ssa.Phi
	allInstrs(af.Fn, func(ins ssa.Instruction) {
		if ph, ok := ins.(*ssa.Phi); ok {
			for _, e := range ph.Edges {
				if strip(e, false) == strip(bo.X, false) {
					phi = ph
				}
			}
		}
	})
	if phi == nil {
		return false
	}
	if !fact.True {
		// identity piece: the merged value on this path is the candidate itself
		return strip(pa.Phi(phi, len(pa.Blocks)-1), false) == strip(bo.X, false)
	}
	merged := pa.Phi(phi, len(pa.Blocks)-1)
	if merged == nil {
		return false
	}
	pr := &prover{p: p, pa: pa, step: pa.StepOf(phi), entry: af.Entry}
	c04Axioms(p, pr, af.A, pa, nil)
	pr.budget = 6000
	return pr.rel(atomField(af.A.Est), atomVal(merged), false, 0)
}

// c08Outcome classifies the candidate that feeds the stored estimate: "raise" (est + non-negative, or the increase
// function), "lower" (the decrease function), "" otherwise.
func c08Outcome(p *Prog, pr *prover, af *algoFn, roles map[int]string, stored ssa.Value) string {
	class := ""
	seen := map[ssa.Value]bool{}
	var walk func(v ssa.Value, d int)
	walk = func(v ssa.Value, d int) {
		if d > 14 || v == nil || class != "" {
			return
		}
		v = pr.res(v)
		if seen[v] {
			return
		}
		seen[v] = true
		switch x := v.(type) {
		case *ssa.Convert:
			walk(x.X, d+1)
		case *ssa.Call:
			c := p.CallOf(x)
			if c.Name == "dynamic" {
				if fr, _, ok := loadedField(strip(c.FnVal, false)); ok {
					switch roles[fr.Index] {
					case "increase":
						class = "raise"
						return
					case "decrease":
						class = "lower"
						return
					}
				}
			}
			for _, a := range x.Call.Args {
				walk(a, d+1)
			}
		case *ssa.BinOp:
			if x.Op == token.ADD {
				// est + float(beta)
				if pr.isEntryLoadOf(pr.res(x.X), af.A.Est) || pr.isEntryLoadOf(pr.res(x.Y), af.A.Est) {
					other := x.Y
					if pr.isEntryLoadOf(pr.res(x.Y), af.A.Est) {
						other = x.X
					}
					if _, isMul := pr.res(other).(*ssa.BinOp); !isMul {
						class = "raise"
						return
					}
				}
			}
			walk(x.X, d+1)
			walk(x.Y, d+1)
		}
	}
	walk(stored, 0)
	return class
}

var _ = types.Typ

func regionVerb(class string) string {
	switch class {
	case "raise":
		return "raised"
	case "lower":
		return "lowered"
	}
	return "left unchanged"
}

// c08Controllers: the conditional branches the execution of block b depends on (transitively): an If with one successor
// from which b is unavoidable and another from which it can be avoided.
func c08Controllers(f *ssa.Function, b *ssa.BasicBlock) []*ssa.If {
	isExit := func(x *ssa.BasicBlock) bool {
		if len(x.Instrs) == 0 {
			return false
		}
		switch x.Instrs[len(x.Instrs)-1].(type) {
		case *ssa.Return, *ssa.Panic:
			return true
		}
		return false
	}
	// avoidable(s, t): some way from s to an exit does not pass t
	avoidable := func(s, t *ssa.BasicBlock) bool {
		if s == t {
			return false
		}
		seen := map[*ssa.BasicBlock]bool{t: true}
		stack := []*ssa.BasicBlock{s}
		for len(stack) > 0 {
			x := stack[len(stack)-1]
			stack = stack[:len(stack)-1]
			if seen[x] {
				continue
			}
			seen[x] = true
			if isExit(x) {
				return true
			}
			stack = append(stack, x.Succs...)
		}
		return false
	}
	var out []*ssa.If
	done := map[*ssa.BasicBlock]bool{}
	work := []*ssa.BasicBlock{b}
	for len(work) > 0 {
		t := work[len(work)-1]
		work = work[:len(work)-1]
		if done[t] {
			continue
		}
		done[t] = true
		for _, a := range f.Blocks {
			if len(a.Instrs) == 0 || len(a.Succs) != 2 || a == f.Recover {
				continue
			}
			iff, ok := a.Instrs[len(a.Instrs)-1].(*ssa.If)
			if !ok {
				continue
			}
			un0, un1 := !avoidable(a.Succs[0], t), !avoidable(a.Succs[1], t)
			if un0 != un1 {
				out = append(out, iff)
				work = append(work, a)
			}
		}
	}
	return out
}

// c08DependsOn: v is computed from one of the given values (through arithmetic, conversions, calls that take it as an
// argument, merges).
func c08DependsOn(v ssa.Value, src map[ssa.Value]bool, seen map[ssa.Value]bool) bool {
	if v == nil || seen[v] {
		return false
	}
	seen[v] = true
	if src[v] {
		return true
	}
	switch x := v.(type) {
	case *ssa.BinOp:
		return c08DependsOn(x.X, src, seen) || c08DependsOn(x.Y, src, seen)
	case *ssa.UnOp:
		if x.Op == token.MUL {
			return false // a load: the algorithm's state
		}
		return c08DependsOn(x.X, src, seen)
	case *ssa.Convert:
		return c08DependsOn(x.X, src, seen)
	case *ssa.ChangeType:
		return c08DependsOn(x.X, src, seen)
	case *ssa.MakeInterface:
		return c08DependsOn(x.X, src, seen)
	case *ssa.Extract:
		return c08DependsOn(x.Tuple, src, seen)
	case *ssa.Phi:
		for _, e := range x.Edges {
			if c08DependsOn(e, src, seen) {
				return true
			}
		}
	case *ssa.Call:
		for _, a := range x.Call.Args {
			if c08DependsOn(a, src, seen) {
				return true
			}
		}
	}
	return false
}

func c08ResetIndependentOfRTT(p *Prog, l *Ledger) {
	for _, a := range c04Algos(p, l) {
		name := a.T.Obj().Name()
		if name != "VegasLimit" && name != "GradientLimit" && name != "Gradient2Limit" {
			continue
		}
		on := p.Method(a.T, "OnSample")
		if on == nil || len(on.Params) < 5 {
			continue
		}
		var bad []string
		nreset, nfn := 0, 0
		var scan func(f *ssa.Function, src map[ssa.Value]bool, depth int, via string)
		visited := map[*ssa.Function]bool{}
		scan = func(f *ssa.Function, src map[ssa.Value]bool, depth int, via string) {
			if f == nil || f.Blocks == nil || visited[f] {
				return
			}
			visited[f] = true
			nfn++
			allInstrs(f, func(ins ssa.Instruction) {
				isReset := false
				switch x := ins.(type) {
				case *ssa.Call:
					cc := x.Common()
					if cc.IsInvoke() && cc.Method.Name() == "Reset" {
						isReset = true
					} else if c := p.CallOf(x); c != nil && c.Static != nil && p.InModule(c.Static) && depth > 0 {
						if c.Static.Name() == "Reset" && c.Recv != nil {
							isReset = true
						} else {
							sub := map[ssa.Value]bool{}
							for i, arg := range x.Call.Args {
								if i < len(c.Static.Params) && c08DependsOn(arg, src, map[ssa.Value]bool{}) {
									sub[c.Static.Params[i]] = true
								}
							}
							if len(sub) > 0 {
								scan(c.Static, sub, depth-1, via+p.Key(f)+" -> ")
							}
						}
					}
				case *ssa.Store:
					if fa, ok := x.Addr.(*ssa.FieldAddr); ok {
						if _, isIface := x.Val.Type().Underlying().(*types.Interface); isIface {
							if fr, _, ok := fieldOf(fa); ok && fr.Type != nil && types.Identical(fr.Type, a.T) {
								isReset = true
							}
						}
					}
				}
				if !isReset {
					return
				}
				nreset++
				for _, iff := range c08Controllers(f, ins.Block()) {
					if c07InputTest(iff.Cond, 4) {
						continue // input validation: the property speaks about valid samples
					}
					if c08DependsOn(iff.Cond, src, map[ssa.Value]bool{}) {
						bad = append(bad, fmt.Sprintf("%s: the baseline is reset in %s%s behind a test that reads the sample's RTT (%s at %s)", p.At(ins), via, p.Key(f), valueString(iff.Cond), p.At(iff)))
					}
				}
			})
		}
		scan(on, map[ssa.Value]bool{on.Params[2]: true}, 3, "")
		l.Check(len(bad) == 0, "O7", p.Key(on)+"/baseline-reset", p.FuncPos(on), fmt.Sprintf("%d function(s) on the sample path that receive the RTT, %d baseline reset site(s), none decided by the RTT", nfn, nreset), "two samples that differ only in their RTT can leave different baselines behind: the slower one can end with the higher estimate", bad...)
	}
}
