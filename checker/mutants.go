package main

// Sensitivity replay: snippet-replacement mutants of /repo ("in file F replace A by B"). Each is applied
// to a scratch copy outside /repo and /verif, must still type-check, and the property's check must report
// a violation whose obligation key has one of the expected prefixes. Used by the thorough tier and by
// `gclverify -mutants` during development. A mutant whose snippet no longer occurs exactly once is
// "not applicable" (the tree has moved), never a failure.

import (
	"bytes"
	"fmt"
	"io"
	"io/fs"
	"os"
	"os/exec"
	"path/filepath"
	"sort"
	"strings"
	"sync"
)

type Mutant struct {
	ID       string   `json:"id"`
	Property string   `json:"property"`
	File     string   `json:"file"`
	Find     string   `json:"find"`
	Replace  string   `json:"replace"`
	Edits    []Edit   `json:"edits,omitempty"` // additional edits (two cooperating sites)
	Patch    string   `json:"patch,omitempty"` // alternatively: a unified diff file (seeded/<id>/patch.diff), relative to verif dir
	Expect   []string `json:"expect"`          // obligation key prefixes, any of which must be reported
	Note     string   `json:"note,omitempty"`
	Also     []string `json:"also,omitempty"` // other properties expected to fire too (informational)
}

type Edit struct {
	File    string `json:"file"`
	Find    string `json:"find"`
	Replace string `json:"replace"`
}

type MutantResult struct {
	ID      string   `json:"id"`
	Status  string   `json:"status"` // fired | silent | not_applicable | broken
	Matched string   `json:"matched,omitempty"`
	Detail  string   `json:"detail,omitempty"`
	Keys    []string `json:"reported_keys,omitempty"`
}

func loadMutants(verif, prop string) ([]Mutant, error) {
	var out []Mutant
	dir := filepath.Join(verif, "mutants")
	ents, err := os.ReadDir(dir)
	if err != nil {
		if os.IsNotExist(err) {
			return nil, nil
		}
		return nil, err
	}
	for _, e := range ents {
		if !strings.HasSuffix(e.Name(), ".mut") {
			continue
		}
		b, err := os.ReadFile(filepath.Join(dir, e.Name()))
		if err != nil {
			return nil, err
		}
		ms, err := parseMutants(string(b))
		if err != nil {
			return nil, fmt.Errorf("%s: %v", e.Name(), err)
		}
		for _, m := range ms {
			if prop == "" || prop == "all" || m.Property == prop {
				out = append(out, m)
			}
		}
	}
	sort.Slice(out, func(i, j int) bool { return out[i].ID < out[j].ID })
	return out, nil
}

func copyTree(src, dst string) error {
	return filepath.WalkDir(src, func(path string, d fs.DirEntry, err error) error {
		if err != nil {
			return err
		}
		rel, _ := filepath.Rel(src, path)
		if d.IsDir() {
			if d.Name() == ".git" {
				return filepath.SkipDir
			}
			return os.MkdirAll(filepath.Join(dst, rel), 0o755)
		}
		if !d.Type().IsRegular() {
			return nil
		}
		in, err := os.Open(path)
		if err != nil {
			return err
		}
		defer in.Close()
		out, err := os.Create(filepath.Join(dst, rel))
		if err != nil {
			return err
		}
		defer out.Close()
		_, err = io.Copy(out, in)
		return err
	})
}

func applyEdit(root string, e Edit) (bool, error) {
	path := filepath.Join(root, e.File)
	b, err := os.ReadFile(path)
	if err != nil {
		return false, nil // file gone: not applicable
	}
	if bytes.Count(b, []byte(e.Find)) != 1 {
		return false, nil
	}
	nb := bytes.Replace(b, []byte(e.Find), []byte(e.Replace), 1)
	return true, os.WriteFile(path, nb, 0o644)
}

// runMutant applies one mutant in a scratch copy and runs this binary on it.
func runMutant(self, repo, verif string, m Mutant) MutantResult {
	res := MutantResult{ID: m.ID}
	tmp, err := os.MkdirTemp("", "gclverify.")
	if err != nil {
		res.Status, res.Detail = "broken", err.Error()
		return res
	}
	defer os.RemoveAll(tmp)
	if err := copyTree(repo, tmp); err != nil {
		res.Status, res.Detail = "broken", "copy: "+err.Error()
		return res
	}
	if m.Patch != "" {
		pf := m.Patch
		if !filepath.IsAbs(pf) {
			pf = filepath.Join(verif, pf)
		}
		cmd := exec.Command("patch", "-p1", "--no-backup-if-mismatch", "-s", "-f", "-i", pf)
		cmd.Dir = tmp
		if out, err := cmd.CombinedOutput(); err != nil {
			res.Status, res.Detail = "not_applicable", "patch does not apply: "+firstLine(string(out))
			return res
		}
	} else {
		edits := append([]Edit{{m.File, m.Find, m.Replace}}, m.Edits...)
		for _, e := range edits {
			ok, err := applyEdit(tmp, e)
			if err != nil {
				res.Status, res.Detail = "broken", err.Error()
				return res
			}
			if !ok {
				res.Status, res.Detail = "not_applicable", "snippet not found exactly once in "+e.File
				return res
			}
		}
	}
	cmd := exec.Command(self, "-repo", tmp, "-verif", verif, "-property", m.Property, "-no-evidence", "-list")
	cmd.Env = append(os.Environ(), "GCLVERIFY_CHILD=1")
	out, err := cmd.CombinedOutput()
	code := 0
	if ee, ok := err.(*exec.ExitError); ok {
		code = ee.ExitCode()
	} else if err != nil {
		res.Status, res.Detail = "broken", err.Error()
		return res
	}
	text := string(out)
	if strings.Contains(text, "ERROR load failed") {
		res.Status, res.Detail = "not_applicable", "mutant does not type-check: "+firstLine(text[strings.Index(text, "ERROR load failed"):])
		return res
	}
	for _, ln := range strings.Split(text, "\n") {
		ln = strings.TrimSpace(ln)
		if strings.HasPrefix(ln, "[violated]") || strings.HasPrefix(ln, "[undecided]") {
			f := strings.Fields(ln)
			if len(f) >= 2 {
				res.Keys = append(res.Keys, f[1])
			}
		}
	}
	for _, k := range res.Keys {
		for _, ex := range m.Expect {
			if strings.HasPrefix(k, ex) {
				res.Status, res.Matched = "fired", k
				return res
			}
		}
	}
	if code == 2 {
		// an infrastructure error (vacuity guard / anchor lost) also counts as an alarm, but is recorded as such
		res.Status, res.Detail = "fired", "checker exit 2 (anchor lost / vacuity guard): "+grepLine(text, "ERROR")
		res.Matched = "exit2"
		return res
	}
	res.Status = "silent"
	res.Detail = fmt.Sprintf("exit %d; reported %v; expected one of %v", code, res.Keys, m.Expect)
	return res
}

func grepLine(text, sub string) string {
	for _, ln := range strings.Split(text, "\n") {
		if strings.Contains(ln, sub) {
			return ln
		}
	}
	return ""
}

func runMutants(repo, verif, prop string, par int) ([]MutantResult, error) {
	ms, err := loadMutants(verif, prop)
	if err != nil {
		return nil, err
	}
	self, err := os.Executable()
	if err != nil {
		return nil, err
	}
	res := make([]MutantResult, len(ms))
	sem := make(chan struct{}, par)
	var wg sync.WaitGroup
	for i := range ms {
		wg.Add(1)
		sem <- struct{}{}
		go func(i int) {
			defer wg.Done()
			defer func() { <-sem }()
			res[i] = runMutant(self, repo, verif, ms[i])
		}(i)
	}
	wg.Wait()
	return res, nil
}

// parseMutants reads the plain-text mutant format:
//
//	== mutant <id>
//	property: C05
//	expect: C05/O1/ C05/O2/
//	note: free text
//	patch: seeded/<id>/patch.diff        (alternative to file/find/replace blocks)
//	file: limiter/default.go
//	<<<<
//	text to find (exactly once)
//	====
//	replacement
//	>>>>
//	(further file blocks = cooperating edits)
func parseMutants(text string) ([]Mutant, error) {
	var out []Mutant
	var cur *Mutant
	lines := strings.Split(text, "\n")
	flush := func() {
		if cur != nil {
			out = append(out, *cur)
		}
	}
	curFile := ""
	for i := 0; i < len(lines); i++ {
		ln := lines[i]
		switch {
		case strings.HasPrefix(ln, "== mutant "):
			flush()
			cur = &Mutant{ID: strings.TrimSpace(strings.TrimPrefix(ln, "== mutant "))}
			curFile = ""
		case cur == nil:
			continue
		case strings.HasPrefix(ln, "property:"):
			cur.Property = strings.TrimSpace(strings.TrimPrefix(ln, "property:"))
		case strings.HasPrefix(ln, "expect:"):
			cur.Expect = strings.Fields(strings.TrimPrefix(ln, "expect:"))
		case strings.HasPrefix(ln, "also:"):
			cur.Also = strings.Fields(strings.TrimPrefix(ln, "also:"))
		case strings.HasPrefix(ln, "note:"):
			cur.Note = strings.TrimSpace(strings.TrimPrefix(ln, "note:"))
		case strings.HasPrefix(ln, "patch:"):
			cur.Patch = strings.TrimSpace(strings.TrimPrefix(ln, "patch:"))
		case strings.HasPrefix(ln, "file:"):
			curFile = strings.TrimSpace(strings.TrimPrefix(ln, "file:"))
		case ln == "<<<<":
			var find, repl []string
			j := i + 1
			for ; j < len(lines) && lines[j] != "===="; j++ {
				find = append(find, lines[j])
			}
			j++
			for ; j < len(lines) && lines[j] != ">>>>"; j++ {
				repl = append(repl, lines[j])
			}
			if j >= len(lines) {
				return nil, fmt.Errorf("mutant %s: unterminated block", cur.ID)
			}
			i = j
			f := strings.Join(find, "\n")
			r := strings.Join(repl, "\n")
			if cur.File == "" {
				cur.File, cur.Find, cur.Replace = curFile, f, r
			} else {
				cur.Edits = append(cur.Edits, Edit{curFile, f, r})
			}
		}
	}
	flush()
	for _, m := range out {
		if m.Property == "" || len(m.Expect) == 0 || (m.File == "" && m.Patch == "") {
			return nil, fmt.Errorf("mutant %s: incomplete", m.ID)
		}
	}
	return out, nil
}
